#!/bin/bash
# tools_seeded.sh <Cxx> <worktree-with-change> [tier]
# Runs one check against a scratch worktree of /repo carrying a seeded change, from a private
# copy of /verif (so that the shared build directory and /repo itself are not disturbed).
set -u
PROP=$1; TREE=$2; TIER=${3:-quick}
COPY=${VERIF_COPY:-/tmp/verif_seeded}
mkdir -p $COPY
rsync -a --delete --exclude .git --exclude evidence --exclude replays /verif/ $COPY/
cd $COPY && VERIF_REPO=$TREE ./check $PROP --tier $TIER
RC=$?
echo "rc=$RC"
ls $COPY/replays 2>/dev/null | head -3
exit $RC
