(* I/O glue for the extracted model: parses one case per line ("unit<TAB>value"), calls the
   extracted Units.run and prints the resulting value. No logic lives here.
   value grammar:  i[-]HEX | bHEXPAIRS | sCP,CP,.. | n | eName | [ v v .. ]   *)
open Model

let rec pos_of_bits (bits : bool list) : positive =
  (* bits: least significant first, last one is the leading 1 *)
  match bits with
  | [] -> XH
  | [_] -> XH
  | b :: r -> if b then XI (pos_of_bits r) else XO (pos_of_bits r)

let z_of_hex (neg : bool) (h : Stdlib.String.t) : z =
  (* collect bits lsb first *)
  let bits = ref [] in
  String.iter (fun c ->
    let d = int_of_string ("0x" ^ String.make 1 c) in
    (* prepend msb..lsb of this digit so that final list is lsb first *)
    bits := ((d land 1) = 1) :: ((d land 2) = 2) :: ((d land 4) = 4) :: ((d land 8) = 8) :: !bits) h;
  (* !bits is now lsb first; strip leading zeros at msb end *)
  let rec strip = function
    | [] -> []
    | l -> (match List.rev l with
            | false :: r -> strip (List.rev r)
            | _ -> l) in
  let l = strip !bits in
  if l = [] then Z0 else
  let p = pos_of_bits l in
  if neg then Zneg p else Zpos p

let hex_of_pos (p : positive) : Stdlib.String.t =
  let rec bits p acc = match p with
    | XH -> true :: acc
    | XO q -> bits q (false :: acc)
    | XI q -> bits q (true :: acc) in
  (* we want msb first: build lsb-first list then reverse *)
  let rec lsb p = match p with XH -> [true] | XO q -> false :: lsb q | XI q -> true :: lsb q in
  ignore bits;
  let l = Array.of_list (lsb p) in
  let n = Array.length l in
  let nd = (n + 3) / 4 in
  let b = Buffer.create nd in
  for i = nd - 1 downto 0 do
    let d = ref 0 in
    for j = 3 downto 0 do
      let k = 4 * i + j in
      d := !d * 2 + (if k < n && l.(k) then 1 else 0)
    done;
    Buffer.add_char b "0123456789abcdef".[!d]
  done;
  Buffer.contents b

let small_int_of_z (x : z) : int =
  let rec ip = function XH -> 1 | XO p -> 2 * ip p | XI p -> 2 * ip p + 1 in
  match x with Z0 -> 0 | Zpos p -> ip p | Zneg p -> - (ip p)

let z_of_small (n : int) : z =
  let rec pp n = if n = 1 then XH else if n land 1 = 0 then XO (pp (n lsr 1)) else XI (pp (n lsr 1)) in
  if n = 0 then Z0 else if n > 0 then Zpos (pp n) else Zneg (pp (-n))

let err_name = function
  | ValueError -> "ValueError" | NotImplementedError -> "NotImplementedError"
  | NotEnoughData -> "NotEnoughData" | InvalidTag -> "InvalidTag" | InvalidUnwrap -> "InvalidUnwrap"
  | IndexError -> "IndexError" | OverflowError -> "OverflowError" | StructError -> "StructError"
  | TypeError -> "TypeError" | KeyError -> "KeyError" | AttributeError -> "AttributeError"
  | EOFError -> "EOFError" | IncompleteRead -> "IncompleteRead" | NeedNetwork -> "NeedNetwork"
  | OutOfFuel -> "OutOfFuel"
let err_of_name = function
  | "ValueError" -> ValueError | "NotImplementedError" -> NotImplementedError
  | "NotEnoughData" -> NotEnoughData | "InvalidTag" -> InvalidTag | "InvalidUnwrap" -> InvalidUnwrap
  | "IndexError" -> IndexError | "OverflowError" -> OverflowError | "StructError" -> StructError
  | "TypeError" -> TypeError | "KeyError" -> KeyError | "AttributeError" -> AttributeError
  | "EOFError" -> EOFError | "IncompleteRead" -> IncompleteRead | "NeedNetwork" -> NeedNetwork
  | "OutOfFuel" -> OutOfFuel | s -> failwith ("unknown error name " ^ s)

(* ---- parsing ---- *)
let parse (s : Stdlib.String.t) : val0 =
  let n = String.length s in
  let i = ref 0 in
  let tok_end () = let j = ref !i in
    while !j < n && s.[!j] <> ' ' && s.[!j] <> ']' do incr j done; !j in
  let rec value () : val0 =
    if !i >= n then failwith "eof";
    match s.[!i] with
    | 'i' -> incr i;
      let neg = (!i < n && s.[!i] = '-') in if neg then incr i;
      let j = tok_end () in let h = String.sub s !i (j - !i) in i := j; VI (z_of_hex neg h)
    | 'b' -> incr i; let j = tok_end () in
      let l = ref [] in
      let k = ref (j - 2) in
      while !k >= !i do l := z_of_small (int_of_string ("0x" ^ String.sub s !k 2)) :: !l; k := !k - 2 done;
      i := j; VB !l
    | 's' -> incr i; let j = tok_end () in
      let body = String.sub s !i (j - !i) in i := j;
      if body = "" then VS [] else
      VS (List.map (fun h -> z_of_hex false h) (String.split_on_char ',' body))
    | 'n' -> incr i; VN
    | 'e' -> incr i; let j = tok_end () in let nm = String.sub s !i (j - !i) in i := j; VE (err_of_name nm)
    | '[' -> incr i;
      let items = ref [] in
      let fin = ref false in
      while not !fin do
        while !i < n && s.[!i] = ' ' do incr i done;
        if !i < n && s.[!i] = ']' then (incr i; fin := true)
        else items := value () :: !items
      done; VL (List.rev !items)
    | c -> failwith (Printf.sprintf "bad char %c at %d" c !i)
  in value ()

let rec print (b : Buffer.t) (v : val0) : unit =
  match v with
  | VI Z0 -> Buffer.add_string b "i0"
  | VI (Zpos p) -> Buffer.add_char b 'i'; Buffer.add_string b (hex_of_pos p)
  | VI (Zneg p) -> Buffer.add_string b "i-"; Buffer.add_string b (hex_of_pos p)
  | VB l -> Buffer.add_char b 'b';
    List.iter (fun x -> let k = small_int_of_z x in
      if k < 0 || k > 255 then Buffer.add_string b (Printf.sprintf "<%d>" k)
      else Buffer.add_string b (Printf.sprintf "%02x" k)) l
  | VS l -> Buffer.add_char b 's';
    List.iteri (fun k x -> if k > 0 then Buffer.add_char b ',';
      (match x with Z0 -> Buffer.add_char b '0' | Zpos p -> Buffer.add_string b (hex_of_pos p)
                  | Zneg p -> Buffer.add_char b '-'; Buffer.add_string b (hex_of_pos p))) l
  | VN -> Buffer.add_char b 'n'
  | VE e -> Buffer.add_char b 'e'; Buffer.add_string b (err_name e)
  | VL l -> Buffer.add_char b '[';
    List.iteri (fun k x -> if k > 0 then Buffer.add_char b ' '; print b x) l;
    Buffer.add_char b ']'

let coq_string (s : Stdlib.String.t) : Model.string =
  let r = ref EmptyString in
  for k = String.length s - 1 downto 0 do
    let c = Char.code s.[k] in
    let bit j = (c lsr j) land 1 = 1 in
    r := String (Ascii (bit 0, bit 1, bit 2, bit 3, bit 4, bit 5, bit 6, bit 7), !r)
  done; !r

let () =
  let buf = Buffer.create 65536 in
  (try
    while true do
      let line = input_line stdin in
      (match String.index_opt line '\t' with
       | None -> print_string "!noline\n"
       | Some t ->
         let name = String.sub line 0 t in
         let arg = String.sub line (t + 1) (String.length line - t - 1) in
         Buffer.clear buf;
         (try print buf (modelrun_entry (coq_string name) (parse arg))
          with Failure m -> (Buffer.clear buf; Buffer.add_string buf ("!driver:" ^ m))
             | Stack_overflow -> (Buffer.clear buf; Buffer.add_string buf "!stackoverflow"));
         Buffer.add_char buf '\n';
         print_string (Buffer.contents buf))
    done
  with End_of_file -> ());
  flush stdout
