"""C10 -- KeyCache is transparent under any history/interleaving and avoids repeat RPCs."""
from __future__ import annotations

import asyncio
import itertools
import os
import time
import uuid

from .. import sym
from ..impl_util import HASH_NAMES
from ..runner import Ctx, Unit
from ..val import Err

AREA = "cache"
MANIFEST = {
    "text": "Coq model of KeyCache._get_key/_store_key/load_key and of how the four public functions use the cache, whose cover test, store test, root-envelope position and "
            "overwrite-vs-setdefault shape are regenerated from _client.py and whose key derivation is the regenerated compute_l2_key; histories are lists of events over "
            "{load, unprotect, protect, completion of the i-th pending RPC}, i.e. every interleaving of async calls at await granularity. Theorems (coq/Properties/C10.v): invariant "
            "(every cached envelope is conforming for its triple) preserved by every event; every completed call derives the true chain key (transparency, termination); stored positions "
            "never decrease; a covered position is served without an RPC. Tie: kernels + differential runs of the real sync and async API (symbolic crypto, counting reference DC, RPC "
            "completion order controlled by the harness) against the extracted model on enumerated and random histories. "
            "Proved for an arbitrary key type/KDF/DC oracle and a ground-truth root key map (29 theorems, all closed): C10_inv_init/_load/_get_key/_store_key/_unprotect_finish/_protect_finish, "
            "C10_inv_step (every event, only loads constrained), C10_inv_reachable; C10_get_sound; C10_protection_envelope_not_stored (the L1-key-less envelope protect builds is not conforming "
            "but never reaches the cache); C10_step_outcomes, C10_transparent (every completed call in every reachable world used the MS-GKDI chain key of the position it names: no error, no "
            "OutOfFuel), per-step forms naming the root key and SD (C10_unprotect_served_step, C10_protect_served_step, C10_unprotect_rpc_step), the atomic sync API (C10_unprotect_sync, "
            "C10_protect_sync, C10_same_as_fresh, C10_sync_is_async_*); C10_monotone_step, C10_monotone; C10_load_serves, C10_store_serves, C10_no_repeat_rpc (once served, every later "
            "unprotect / protect-naming-the-root-key at or before that position on the triple adds no pending RPC and has o_rpcs = 0). The kernels enter only through C10_kernels and "
            "C10_root_envelope_wins. Examples: the reference DC meets both DC hypotheses for every key type; a toy interleaved history; a wrong root key gives a wrong key; a conforming reply "
            "without the L2 key at L2 = 31 makes protect use the empty key (why the DC hypothesis has that clause; D13/C17). "
            "Refinement (coq/Proofs/C10Refine.v, C10_refine_* / C10_concrete_*): the concrete cache model of Model/Client.v (real envelopes, cc_get_key / cc_store_key / cc_load, the unprotect "
            "pipeline unprotect_online that the flow ties connect to the source) refines this state machine under an abstraction function abs with K := res bytes, kdf := the concrete chain step "
            "Chain.kdfK, l1seed := compute_l1_key, octet strings numbered injectively: abs commutes with init / load_key / _store_key (unconditionally) and _get_key (for an L0 the source accepts "
            "and root keys naming a supported hash); one unprotect call is one abstract unprotect step (cache afterwards; o_rpcs = 0 exactly when the call equals the offline function for every "
            "network oracle); histories of {load_key, sync unprotect} are simulated (C10_refine_history); hence C10_concrete_no_repeat_rpc and C10_concrete_transparent (the envelope a completed "
            "call decrypts with has, at the blob's position, the MS-GKDI chain key of the true root key as L2 key), with a symg instance (C10_refine_ex_*). "
            "History-level transparency names the call: C10_outcomes_tied pairs the calls of an admitted history in completion order (completed) with the outcomes - unprotect: that call's "
            "(rk, sd, l0, l1, l2) and key_at of exactly those, a public outcome is the DC's reply to that request; protect: served from the cache at the caller's position for the named root key, "
            "or protect_finish of the DC's reply; C10_history_same_as_fresh: every completed call compared with the same call on an empty cache; C10_protect_same_as_fresh. The harness "
            "checks that every blob a protect call produces decrypts to the plaintext with a fresh cache holding only the root key.",
    "note": "Loads are of true root keys and the DC is conforming (hypotheses of the theorems, built that way in the harness). CPython's single-threaded event loop makes await points the only interleaving points; OS threads sharing a cache are outside the model.",
    "technique": "Coq proof (state-machine invariant by induction over event histories) + history/interleaving correspondence",
}
PARTIAL = [
    "C10_refine_protect_partial: wanted = the protect path of the refinement like the unprotect path (C10_refine_unprotect: hypotheses on inputs only; histories containing protect calls in "
    "C10_refine_history; the two concrete corollaries also for protect). Proved: one protect_online call is one abstract Cache.protect step (cache afterwards, RPC decision) UNDER two extra "
    "hypotheses that depend on the cache contents - _get_protection_gke_from_cache does not raise (KDF parameters of the cached envelope unpack, compute_l2_key succeeds), and a cached envelope "
    "it finds names the hash h the abstract kdf is instantiated with. Missing: deriving both from conformance of cached envelopes (Inv of abs cc: needs 'a conforming chain over K = res bytes "
    "is error-free for an in-range L0' and a per-envelope hash invariant, since the abstract kdf has ONE hash while concrete envelopes carry their own KDF parameters), and with it protect events "
    "in concrete histories. Also: Model/Client.v protect_online / protect_offline return the ORIGINAL cache when _get_protection_gke_from_cache raises, the abstract model the cache after _get_key "
    "(the Python object is mutated before the raise): REPAIRED - checked against the running code (the root-derived entry stays in the cache after a raise inside "
    "_get_protection_gke_from_cache), Model/Client.v protect_offline now returns protection_lookup_cache (the cache after the lookup) on that path, as the abstract model does.",
    "L0 guard: the abstract Model/Cache.v get_key has no counterpart of KeyCache._get_key's `if not 0 <= l0 <= 0x7FFFFFFF: raise ValueError` (the concrete cc_get_key has it: "
    "k_cache_l0_guard). Declared instead of modelled: ev_adm (the histories of C10_transparent / C10_outcomes_tied / C10_history_same_as_fresh) now requires l0_in_range "
    "(= the regenerated guard is false, C10_l0_guard) for unprotect AND protect requests; the per-call theorems C10_unprotect_sync / C10_protect_sync / C10_same_as_fresh / "
    "C10_protect_same_as_fresh are about the error-free model and say nothing for an L0 the source refuses (there the source raises before touching the cache).",
    "C10_history_same_as_fresh / C10_protect_same_as_fresh: a protect call SERVED FROM THE CACHE is compared with the fresh-cache call only under dc_clock (the DC answers "
    "(-1,-1,-1) for the caller's clock position and the named root key): without it the two legitimately differ (a fresh cache uses the DC's current position). Unprotect and "
    "RPC-path protect need no such hypothesis. For public-key outcomes `tied` states that the outcome is the DC's reply to exactly that call's request, nothing about the KEK.",
    "no lemma shows that the harness DC (udc of Model/Units_cache.v, RefDC in this module) meets dc_explicit_ok / dc_conforming_ok: the abstract ref_dc does (C10_ref_dc_explicit, "
    "C10_ref_dc_conforming) and udc is written after it, but their equality under the symbolic instantiation is not proved; of the two refinement instances C10_refine_ex_* uses a DC that only hands out "
    "public envelopes (conformance vacuous) and C10_refine_ex_seed_* a DC answering with the private (31,31) seed envelope of the true root key (conformance proved, not vacuous; "
    "it is not dc_explicit_ok, which C10_concrete_no_repeat_rpc does not need).",
    "C10_concrete_no_repeat_rpc / C10_concrete_transparent: concrete histories are {load_key, SYNC unprotect}; the concrete model has no async interleavings (those are in the abstract "
    "model and, for the source, in the sync/async twin ties C10_flow_twin_*).",
    "flows: KeyCache._get_key / _store_key have no flow tie (aliasing, refused by the translator); the cache at a raise INSIDE a callee that is handed the cache is not tied.",
]
ASSUMPTIONS = ["root keys loaded into the cache are the true root keys; the domain controller returns conforming envelopes (reference DC in the harness)",
               "asyncio interleaves coroutines only at await points"]
RULE = ("histories of depth <= 5 (thorough 7) over {load root key, unprotect at 6 positions x 2 L0 x 2 SIDs, protect now with/without root key id} enumerated for small depth and "
        "random beyond, sync flavour and async flavour with every completion order of up to 3 concurrently pending RPCs; non-trivial = a history with at least one completed call; distinct = distinct history text")

B = 360000000000
EPOCH = 116444736000000000
SIDS = ["S-1-5-21-1-2-3-1104", "S-1-1-0"]
RKIDS = [uuid.UUID("d778c271-9025-9a82-f6dc-b8960b8ad8c5"), uuid.UUID("00000000-1111-2222-3333-444444444444")]
ROOT = bytes(range(64))
LABEL = "KDS service\0".encode("utf-16-le")
PLAIN = b"the secret"


def ns_of_pos(l0, l1, l2, off=12345):
    t = (l0 * 1024 + l1 * 32 + l2) * B + off
    return (t - EPOCH) * 100


_SD = {}


def sd_bytes(i):
    if i not in _SD:
        from dpapi_ng._blob import ProtectionDescriptor

        _SD[i] = ProtectionDescriptor.parse(SIDS[i]).get_target_sd()
    return _SD[i]


def skdf(hid, key, context):
    return sym.symterm(1, [bytes([hid]), key, LABEL, context, (64).to_bytes(4, "big")])


def ctxb(rkid: uuid.UUID, l0, a, b):
    return rkid.bytes_le + l0.to_bytes(4, "little", signed=True) + a.to_bytes(4, "little", signed=True) + b.to_bytes(4, "little", signed=True)


def K1(hid, rk, sd, l0, i):
    key = skdf(hid, skdf(hid, ROOT, ctxb(RKIDS[rk], l0, -1, -1)), ctxb(RKIDS[rk], l0, 31, -1) + sd_bytes(sd))
    j = 31
    while j > i:
        j -= 1
        key = skdf(hid, key, ctxb(RKIDS[rk], l0, j, -1))
    return key


def K2(hid, rk, sd, l0, i, j):
    key = skdf(hid, K1(hid, rk, sd, l0, i), ctxb(RKIDS[rk], l0, i, 31))
    m = 31
    while m > j:
        m -= 1
        key = skdf(hid, key, ctxb(RKIDS[rk], l0, i, m))
    return key


def _pubkey_bytes():
    from dpapi_ng._gkdi import FFCDHKey

    return FFCDHKey(key_length=2, field_order=65521, generator=17, public_key=pow(17, 1234, 65521)).pack()


class RefDC:
    def __init__(self, hid, dc_rk, now, pub):
        self.hid, self.dc_rk, self.now, self.pub, self.calls = hid, dc_rk, tuple(now), pub, 0

    def envelope(self, target_sd, root_key_id, l0, l1, l2):
        from dpapi_ng._gkdi import FFCDHParameters, GroupKeyEnvelope, KDFParameters

        self.calls += 1
        rk = RKIDS.index(root_key_id) if root_key_id else self.dc_rk
        sd = [sd_bytes(i) for i in range(len(SIDS))].index(bytes(target_sd))
        p0, p1, p2 = self.now if l0 == -1 else (l0, l1, l2)
        if self.pub:
            k1, k2, flags = b"", _pubkey_bytes(), 3
        else:
            k1 = K1(self.hid, rk, sd, p0, p1) if p2 == 31 else (K1(self.hid, rk, sd, p0, p1 - 1) if p1 > 0 else b"")
            k2, flags = K2(self.hid, rk, sd, p0, p1, p2), 2
        return GroupKeyEnvelope(version=1, flags=flags, l0=p0, l1=p1, l2=p2, root_key_identifier=RKIDS[rk],
                                kdf_algorithm="SP800_108_CTR_HMAC", kdf_parameters=KDFParameters(HASH_NAMES[self.hid]).pack(),
                                secret_algorithm="DH",
                                # a public-key reply carries the group the public key lives in (compute_kek checks the peer's key against it)
                                secret_parameters=FFCDHParameters(key_length=2, field_order=65521, generator=17).pack() if self.pub else b"",
                                private_key_length=16, public_key_length=16,
                                domain_name="d.test", forest_name="f.test", l1_key=k1, l2_key=k2)


_BLOBS = {}


def blob_at(hid, sd, rk, l0, l1, l2):
    """A blob really protected at that position under the true root key (fresh cache, patched clock)."""
    key = (hid, sd, rk, l0, l1, l2)
    if key not in _BLOBS:
        import dpapi_ng

        c = dpapi_ng.KeyCache()
        from dpapi_ng._gkdi import KDFParameters

        c.load_key(ROOT, RKIDS[rk], kdf_parameters=KDFParameters(HASH_NAMES[hid]).pack())
        real = time.time_ns
        time.time_ns = lambda: ns_of_pos(l0, l1, l2)
        try:
            _BLOBS[key] = dpapi_ng.ncrypt_protect_secret(PLAIN, SIDS[sd], root_key_identifier=RKIDS[rk], cache=c)
        finally:
            time.time_ns = real
    return _BLOBS[key]


def _observe_protect(blob, hid):
    """What a blob produced by (async_)ncrypt_protect_secret says about the call: the seed key its KEK was derived from, the position
    and the mode; and - private mode - that it really DECRYPTS to the plaintext for a caller who only has the true root key (a fresh
    cache holding it, no DC): otherwise the outcome is the error DoesNotDecrypt, which neither the model nor pred accepts."""
    import dpapi_ng
    from dpapi_ng._blob import DPAPINGBlob
    from dpapi_ng._gkdi import KDFParameters

    b = DPAPINGBlob.unpack(blob)
    kid = b.key_identifier
    pub = bool(kid.flags & 1)
    key = None
    if not pub:
        f = sym.sym_parse(3, b.enc_cek)
        kek = sym.sym_parse(1, f[0]) if f else None
        key = kek[1] if kek else Err("ValueError")
        fresh = dpapi_ng.KeyCache()
        fresh.load_key(ROOT, kid.root_key_identifier, kdf_parameters=KDFParameters(HASH_NAMES[hid]).pack())
        try:
            pt = dpapi_ng.ncrypt_unprotect_secret(blob, server="unreachable", cache=fresh)
        except Exception:  # noqa: BLE001
            pt = None
        if pt != PLAIN:
            key = Err("DoesNotDecrypt")
    return key, kid.l0, kid.l1, kid.l2, pub


def impl_run(arg):
    import dpapi_ng
    import dpapi_ng._client as CL
    from dpapi_ng._gkdi import KDFParameters

    flavour, sds, rkids, hid, rootkey, dc_rk, now, pub, events = arg
    dc = RefDC(hid, dc_rk, now, bool(pub))
    cache = dpapi_ng.KeyCache()
    outs = []
    real_ns = time.time_ns
    real_sync, real_async = CL._sync_get_key, CL._async_get_key
    counter = [0]

    def det_urandom(n):
        counter[0] += 1
        return (counter[0].to_bytes(4, "big") * (n // 4 + 1))[:n]

    real_urandom = os.urandom
    with sym.patched(budget=5000):
        os.urandom = det_urandom
        for key in list(_BLOBS):
            pass
        try:
            if flavour == 0:
                CL._sync_get_key = lambda server, target_sd, root_key_id=None, l0=-1, l1=-1, l2=-1, **kw: dc.envelope(target_sd, root_key_id, l0, l1, l2)
                for ev in events:
                    before = dc.calls
                    if ev[0] == 0:
                        cache.load_key(bytes(ev[2]), RKIDS[ev[1]], kdf_parameters=KDFParameters(HASH_NAMES[ev[3]]).pack())
                    elif ev[0] == 1:
                        _, sd, rk, l0, l1, l2 = ev
                        blob = blob_at(hid, sd, rk, l0, l1, l2)
                        try:
                            pt = dpapi_ng.ncrypt_unprotect_secret(blob, server="dc", cache=cache)
                            res = K2(hid, rk, sd, l0, l1, l2) if pt == PLAIN else Err("WrongPlaintext")
                        except Exception as exc:  # noqa: BLE001
                            from ..core import classify

                            res = classify(exc)
                        outs.append([res, l0, l1, l2, _pub_of(dc, cache, before), dc.calls - before])
                    elif ev[0] == 2:
                        _, sd, rk, l0, l1, l2 = ev
                        time.time_ns = lambda: ns_of_pos(l0, l1, l2)
                        try:
                            blob = dpapi_ng.ncrypt_protect_secret(PLAIN, SIDS[sd], root_key_identifier=None if rk is None else RKIDS[rk],
                                                                  server="dc", cache=cache)
                            key, o0, o1, o2, opub = _observe_protect(blob, hid)
                            outs.append([key if not opub else b"PUB", o0, o1, o2, opub, dc.calls - before])
                        except Exception as exc:  # noqa: BLE001
                            from ..core import classify

                            outs.append([classify(exc), l0, l1, l2, False, dc.calls - before])
                        finally:
                            time.time_ns = real_ns
                return [outs, 0]
            return asyncio.run(_async_run(dc, cache, hid, events, CL, dpapi_ng))
        finally:
            os.urandom = real_urandom
            time.time_ns = real_ns
            CL._sync_get_key, CL._async_get_key = real_sync, real_async


def _pub_of(dc, cache, before):
    return bool(dc.pub and dc.calls > before)


async def _async_run(dc, cache, hid, events, CL, dpapi_ng):
    from dpapi_ng._gkdi import KDFParameters

    outs = []
    pending = []  # (future, env)
    real_ns = time.time_ns

    async def fake_get_key(server, target_sd, root_key_id, l0=-1, l1=-1, l2=-1, **kw):
        env = dc.envelope(target_sd, root_key_id, l0, l1, l2)
        fut = asyncio.get_event_loop().create_future()
        pending.append(fut)
        await fut
        return env

    CL._async_get_key = fake_get_key

    async def settle(task=None):
        for _ in range(6):
            await asyncio.sleep(0)

    tasks = []

    async def run_call(ev, rec):
        calls0 = dc.calls
        if ev[0] == 1:
            _, sd, rk, l0, l1, l2 = ev
            blob = blob_at(hid, sd, rk, l0, l1, l2)
            try:
                pt = await dpapi_ng.async_ncrypt_unprotect_secret(blob, server="dc", cache=cache)
                res = K2(hid, rk, sd, l0, l1, l2) if pt == PLAIN else Err("WrongPlaintext")
            except Exception as exc:  # noqa: BLE001
                from ..core import classify

                res = classify(exc)
            outs.append([res, l0, l1, l2, bool(dc.pub and rec["rpc"]), rec["rpc"]])
        else:
            _, sd, rk, l0, l1, l2 = ev
            try:
                blob = await dpapi_ng.async_ncrypt_protect_secret(PLAIN, SIDS[sd], root_key_identifier=None if rk is None else RKIDS[rk],
                                                                  server="dc", cache=cache)
                key, o0, o1, o2, opub = _observe_protect(blob, hid)
                outs.append([key if not opub else b"PUB", o0, o1, o2, opub, rec["rpc"]])
            except Exception as exc:  # noqa: BLE001
                from ..core import classify

                outs.append([classify(exc), l0, l1, l2, False, rec["rpc"]])

    recs = []
    try:
        for ev in events:
            if ev[0] == 0:
                cache.load_key(bytes(ev[2]), RKIDS[ev[1]], kdf_parameters=KDFParameters(HASH_NAMES[ev[3]]).pack())
            elif ev[0] in (1, 2):
                rec = {"rpc": 0}
                n0 = len(pending)
                if ev[0] == 2:
                    _, sd, rk, l0, l1, l2 = ev
                    time.time_ns = lambda l0=l0, l1=l1, l2=l2: ns_of_pos(l0, l1, l2)
                t = asyncio.ensure_future(run_call(ev, rec))
                await settle()
                time.time_ns = real_ns
                if len(pending) > n0:
                    rec["rpc"] = 1
                tasks.append(t)
            elif ev[0] == 3:
                live = [f for f in pending if not f.done()]
                if ev[1] < len(live):
                    live[ev[1]].set_result(None)
                    await settle()
        live = [f for f in pending if not f.done()]
        n_pending = len(live)
        for f in live:
            f.cancel()
        for t in tasks:
            if not t.done():
                t.cancel()
        await asyncio.sleep(0)
        return [outs, n_pending]
    finally:
        time.time_ns = real_ns


# ------------------------------------------------------------------------------------------------
def pred(arg, out):
    """C10 on the implementation's own behaviour: every completed call uses the true chain key of the
    position it names (so it returns the plaintext / a blob that decrypts), and covered positions
    are served without contacting the DC."""
    flavour, sds, rkids, hid, rootkey, dc_rk, now, pub, events = arg
    if out is None:
        return "no output"
    outs, n_pending = out
    for o in outs:
        key, l0, l1, l2, opub, rpcs = o
        if isinstance(key, Err):
            if key.name == "ValueError" and opub:
                continue  # public-key reply: the caller is not authorised for seed keys; same with a fresh cache
            if key.name == "DoesNotDecrypt":
                return f"the blob a protect call produced at position {(l0, l1, l2)} does not decrypt to the plaintext with a fresh cache holding the root key"
            if key.name == "OutOfFuel":
                return f"a call did not terminate within the KDF budget at position {(l0, l1, l2)}"
            return f"a call at position {(l0, l1, l2)} failed with {key.name}; with a fresh cache it succeeds"
    # no-repeat: an independent replay of the history (sync or async: Start / Finish events) that only tracks, per
    # (root key, SD, L0), the latest position for which seed material has been obtained
    covered, loaded, pend, exp = {}, set(), [], []
    for ev in events:
        if ev[0] == 0:
            loaded.add(ev[1])
        elif ev[0] in (1, 2):
            _, sd, rk, e0, e1, e2 = ev
            if rk is None:
                pend.append((ev, None))
                continue
            t = (rk, sd, e0)
            have = (31, 31) if rk in loaded else covered.get(t)
            if have is not None and (e1, e2) <= have:
                exp.append((0, (e0, e1, e2), have))
                if rk in loaded:
                    covered[t] = (31, 31)
            else:
                pend.append((ev, t))
        elif ev[0] == 3 and ev[1] < len(pend):
            pev, t = pend.pop(ev[1])
            _, sd, rk, e0, e1, e2 = pev
            pos = (e0, e1, e2) if pev[0] == 1 else tuple(now)
            exp.append((1, pos, None))
            if not pub:
                tt = (rk if rk is not None else dc_rk, sd, pos[0])
                if tt not in covered or covered[tt] < (pos[1], pos[2]):
                    covered[tt] = (pos[1], pos[2])
    for (want, pos, have), o in zip(exp, outs):
        if o[5] > want:
            return f"position {pos} was already covered by cached material at {have} but the call contacted the DC again"
    return None


POSITIONS = [(3, 4), (5, 0), (5, 7), (31, 31), (0, 0), (3, 31)]


def mk_case(flavour, hid, dc_rk, now, pub, events):
    return [flavour, [sd_bytes(0), sd_bytes(1)], [r.bytes_le for r in RKIDS], hid, ROOT, dc_rk, list(now), pub, events]


def gen_cases(ctx: Ctx):
    from ..core import setup_impl_path

    setup_impl_path()
    cases = []
    rng = ctx.rng

    def call(kind):
        sd, rk, l0 = rng.randrange(2), rng.randrange(2), rng.choice([361, 362])
        l1, l2 = rng.choice(POSITIONS)
        if kind == 1:
            return [1, sd, rk, l0, l1, l2]
        return [2, sd, rng.choice([rk, rk, None]), l0, l1, l2]

    def sync_hist(evs):
        out = []
        for e in evs:
            out.append(e)
            if e[0] in (1, 2):
                out.append([3, 0])
        return out

    # the D7 shape and friends, always present
    base = [
        [[1, 0, 0, 361, 3, 4], [0, 0, ROOT, 4], [1, 0, 0, 361, 5, 0]],
        [[0, 0, ROOT, 4], [1, 0, 0, 361, 5, 7], [1, 0, 0, 361, 3, 4]],
        [[1, 0, 0, 361, 5, 7], [1, 0, 0, 361, 3, 4], [1, 0, 0, 361, 5, 7], [1, 0, 0, 361, 31, 31]],
        [[2, 0, 0, 361, 5, 7], [1, 0, 0, 361, 3, 4]],
        [[2, 0, None, 361, 5, 7], [1, 0, 0, 361, 5, 7], [2, 0, 0, 361, 5, 0]],
        [[1, 0, 0, 361, 5, 7], [2, 0, 0, 361, 5, 7], [2, 0, 0, 361, 3, 4], [1, 0, 0, 361, 3, 4]],
        [[1, 0, 0, 361, 3, 4], [1, 1, 0, 361, 3, 4], [1, 0, 1, 361, 3, 4], [1, 0, 0, 362, 3, 4], [1, 0, 0, 361, 3, 4]],
    ]
    k = 0
    for evs0 in base:
        for hid in (4, 2):
            evs = [[0, e[1], ROOT, hid] if e[0] == 0 else e for e in evs0]
            cases.append(mk_case(0, hid, 0, (361, 5, 7), 0, sync_hist(evs)))
            cases.append(mk_case(1, hid, 0, (361, 5, 7), 0, sync_hist(evs)))
    cases.append(mk_case(0, 4, 0, (361, 5, 7), 1, sync_hist([[1, 0, 0, 361, 3, 4], [2, 0, None, 361, 5, 7], [0, 0, ROOT, 4], [1, 0, 0, 361, 3, 4]])))
    for _ in range(ctx.n(150, 1500)):
        depth = rng.randrange(2, ctx.n(6, 8))
        evs = []
        for _ in range(depth):
            r = rng.random()
            evs.append([0, rng.randrange(2), ROOT, 4] if r < 0.15 else call(1) if r < 0.7 else call(2))
        hid = rng.choice([1, 2, 3, 4])
        evs = [[0, e[1], ROOT, hid] if e[0] == 0 else e for e in evs]
        now = (rng.choice([361, 362]),) + rng.choice(POSITIONS)
        cases.append(mk_case(0, hid, rng.randrange(2), now, 1 if rng.random() < 0.1 else 0, sync_hist(evs)))
    # async interleavings: up to 3 concurrent calls, every completion order
    for _ in range(ctx.n(40, 400)):
        n = rng.randrange(2, 4)
        starts = [call(rng.choice([1, 1, 2])) for _ in range(n)]
        hid = 4
        pre = [[0, 0, ROOT, hid]] if rng.random() < 0.3 else []
        for order in itertools.permutations(range(n)):
            fin = []
            alive = list(range(n))
            for o in order:
                fin.append([3, alive.index(o)])
                alive.remove(o)
            # Finish indices refer to live pending RPCs; calls that hit the cache never become pending, extra Finish events are no-ops.
            # Afterwards every unprotect is repeated sequentially: what the concurrent calls left in the cache must serve them
            # without a new RPC (the completion order must not matter)
            follow = []
            for st in starts:
                if st[0] == 1:
                    follow += [st, [3, 0]]
            cases.append(mk_case(1, hid, 0, (361, 5, 7), 0, pre + starts + fin + [[3, 0]] * n + follow))
            if len(cases) > ctx.n(900, 9000):
                break
    return cases


def units(ctx: Ctx, only=None):
    cases = [] if getattr(ctx, "replay_only", False) else gen_cases(ctx)
    return [Unit("cache.histories", "cache.run", cases, impl_run, prop_pred=pred,
                 nontrivial=lambda c, o: any(e[0] in (1, 2) for e in c[8]))]


def search(ctx: Ctx):
    from ..core import run_impl
    from ..val import dec, enc

    tried = 0
    for c in gen_cases(ctx):
        tried += 1
        why = pred(c, dec(run_impl(impl_run, c)))
        if why:
            return {"unit": "cache.histories", "input": enc(c), "why": why, "tried": tried, "key": None}
    ctx.notes.append(f"search: {tried} histories satisfy the property on the implementation")
    return None
