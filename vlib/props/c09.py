"""C09 -- encryption names the group key of the interval containing the current time."""
from __future__ import annotations

import time
import uuid

from ..runner import Ctx, Unit

B = 360000000000
EPOCH = 116444736000000000
D0, D1, D2 = 1024 * B, 32 * B, B
RK_ID = uuid.UUID("d778c271-9025-9a82-f6dc-b8960b8ad8c5")
RK = bytes(range(64))

MANIFEST = {
    "text": "Coq theorems over the interval arithmetic regenerated from _get_protection_gke_from_cache on every run: for all t >= 0 the named (L0,L1,L2) are the floor formulas, "
            "the named interval contains t and is the unique such in-range triple; unbounded in t. Tie to the code: the kernels ARE the code's expressions (translator), plus a "
            "correspondence run of ncrypt_protect_secret under a patched clock on boundary tables against the extracted model.",
    "note": "Assumes time.time_ns() is the only clock read; float division is modelled as exactly rounded binary64 (validated against CPython by unit truediv.prim).",
    "technique": "Coq proof (lia over regenerated kernels) + differential correspondence",
}

ASSUMPTIONS = [
    "time.time_ns() is the only clock read (patched in the harness process for the correspondence runs)",
    "the kernel extractor's translation of // % * + and int(a / b) (the latter as exactly rounded binary64 division, validated by unit truediv.prim)",
]
RULE = ("clock values: every offset within +-64 ticks (quick: a spread of 9 offsets incl. +-1..+-10; thorough: all) of L2, L1 and L0 interval "
        "boundaries for many epochs, random instants 1970..2200, the real clock; each case protects a secret through "
        "ncrypt_protect_secret with time.time_ns patched and reads the key identifier back from the blob; all cases are non-trivial; "
        "distinct = distinct clock value")


def spec(t: int):
    return [t // D0, (t // D1) % 32, (t // D2) % 32]


def ns_of_filetime(t: int) -> int:
    return (t - EPOCH) * 100


def impl_interval(ns: int):
    import dpapi_ng
    from dpapi_ng._blob import DPAPINGBlob

    cache = dpapi_ng.KeyCache()
    cache.load_key(RK, RK_ID)
    real = time.time_ns
    time.time_ns = lambda: ns
    try:
        blob = dpapi_ng.ncrypt_protect_secret(b"x", "S-1-5-18", root_key_identifier=RK_ID, cache=cache)
    finally:
        time.time_ns = real
    kid = DPAPINGBlob.unpack(blob).key_identifier
    return [kid.l0, kid.l1, kid.l2]


def impl_ticking(arg):
    """the clock advances by `step` ns on every read; returns the key identifier and the instants read"""
    import dpapi_ng
    from dpapi_ng._blob import DPAPINGBlob

    t0, step = arg
    reads = []

    def clock():
        reads.append(t0 + len(reads) * step)
        return reads[-1]

    cache = dpapi_ng.KeyCache()
    cache.load_key(RK, RK_ID)
    real = time.time_ns
    time.time_ns = clock
    try:
        blob = dpapi_ng.ncrypt_protect_secret(b"x", "S-1-5-18", root_key_identifier=RK_ID, cache=cache)
    finally:
        time.time_ns = real
    kid = DPAPINGBlob.unpack(blob).key_identifier
    impl_ticking.last_reads = list(reads)
    return [kid.l0, kid.l1, kid.l2]


def pred_ticking(arg, out):
    """With a moving clock the identifier must still be the interval of ONE instant between the first and the last clock read of the call."""
    t0, step = arg
    # the instants the call read are re-observed here (deterministic clock), so that the predicate can be evaluated on any stored
    # output, in any order
    again = impl_ticking(arg)
    reads = getattr(impl_ticking, "last_reads", None) or [t0]
    if out is not None and list(out) != list(again):
        return f"the call is not deterministic under the scripted clock: {out} then {again}"
    lo, hi = reads[0] // 100 + EPOCH, reads[-1] // 100 + EPOCH
    cands = {tuple(spec(lo)), tuple(spec(hi))}
    # every L2 boundary between lo and hi starts a new candidate interval
    t = (lo // D2 + 1) * D2
    while t <= hi and len(cands) < 100:
        cands.add(tuple(spec(t)))
        t += D2
    if out is None or tuple(out) not in cands:
        return f"key identifier {out} is the interval of no instant between the first and the last clock read of the call ({sorted(cands)[:3]}...)"
    return None


def ticking_cases(ctx: Ctx):
    cases = []
    first_epoch = EPOCH // D0 + 1
    for div, k0 in ((D0, first_epoch), (D1, (EPOCH + 20000 * D2) // D1 + 1), (D2, (EPOCH + 20000 * D2) // D2 + 1)):
        for k in range(k0, k0 + ctx.n(4, 40)):
            for before in (1, 5, 15, 25):
                for step in (300, 1000, 2500):
                    cases.append([ns_of_filetime(k * div - before), step])
    return cases


def impl_truediv(arg):
    import math

    a, b = arg
    return [int(a / b), math.ceil(a / b)]


def clock_table(ctx: Ctx):
    ts = []
    offs = list(range(-64, 65)) if ctx.thorough else [-64, -10, -3, -2, -1, 0, 1, 2, 64]
    first_epoch = EPOCH // D0  # 1970
    n0 = ctx.n(12, 200)
    for k in range(first_epoch, first_epoch + n0):
        for d in offs:
            ts.append(k * D0 + d)
    base1 = (EPOCH + 54 * 365 * 864000000000) // D1
    for k in range(base1, base1 + ctx.n(20, 3000)):
        for d in offs:
            ts.append(k * D1 + d)
    base2 = (EPOCH + 54 * 365 * 864000000000) // D2
    for k in range(base2, base2 + ctx.n(20, 5000)):
        for d in offs:
            ts.append(k * D2 + d)
    hi = EPOCH + 230 * 365 * 864000000000
    for _ in range(ctx.n(300, 5000)):
        ts.append(ctx.rng.randrange(EPOCH, hi))
    out = [ns_of_filetime(t) for t in ts if t >= EPOCH]
    # the clock counts nanoseconds, an interval boundary is a multiple of 100 ns: every residue class that matters inside one tick,
    # for the ticks next to a boundary (the last 99 ns before a boundary still belong to the old interval)
    sub = (1, 49, 50, 51, 99)
    near = [t for t in ts if t >= EPOCH and (t % D2 in (0, 1, D2 - 1, D2 - 2))]
    for t in near[:: (1 if ctx.thorough else 3)]:
        for r in sub:
            out.append(ns_of_filetime(t) + r)
    out.append(time.time_ns())
    return sorted(set(out))


def units(ctx: Ctx, only=None):
    cases = [] if getattr(ctx, "replay_only", False) else clock_table(ctx)
    td = []
    if not getattr(ctx, "replay_only", False):
        for _ in range(ctx.n(2000, 100000)):
            b = ctx.rng.choice([D0, D1, D2, ctx.rng.randrange(1, 1 << ctx.rng.randrange(1, 70))])
            k = ctx.rng.randrange(0, 1 << ctx.rng.randrange(1, 62))
            a = ctx.rng.choice([k * b + ctx.rng.randrange(-3, 4), ctx.rng.randrange(0, 1 << 62), k])
            if a >= 0:
                td.append([a, b])

    def pred(ns, out):
        t = ns // 100 + EPOCH
        if out != spec(t):
            return f"key identifier {out} but the interval containing t={t} is {spec(t)}"
        return None

    tick = [] if getattr(ctx, "replay_only", False) else ticking_cases(ctx)

    def impl_tick_first(arg):
        return impl_ticking(arg)

    return [
        Unit("interval.sweep", "interval", cases, impl_interval, prop_pred=pred),
        # the model reads the clock once: the unit's model input is the first instant read
        Unit("interval.ticking", "interval.first", tick, impl_tick_first, prop_pred=pred_ticking),
        Unit("truediv.prim", "truediv", td, impl_truediv),
    ]


def search(ctx: Ctx):
    """The interval theorems no longer prove: sweep the implementation itself over every offset
    within +-64 ticks of L0/L1/L2 boundaries against the floor formulas."""
    first_epoch = EPOCH // D0 + 1
    tried = 0
    for div, ks in ((D0, range(first_epoch, first_epoch + 40)),
                    (D1, range((EPOCH + 20000 * D2) // D1, (EPOCH + 20000 * D2) // D1 + 40)),
                    (D2, range((EPOCH + 20000 * D2) // D2, (EPOCH + 20000 * D2) // D2 + 40))):
        for k in ks:
            for d in range(-64, 65):
                t = k * div + d
                tried += 1
                try:
                    got = impl_interval(ns_of_filetime(t))
                except Exception as exc:  # noqa: BLE001
                    got = f"{type(exc).__name__}: {exc}"
                if got != spec(t):
                    return {"unit": "interval.sweep", "input": "i%x" % ns_of_filetime(t), "filetime": t,
                            "expected": spec(t), "observed": got, "tried": tried,
                            "why": "key identifier is not the interval containing the current time",
                            "key": "interval"}
    from ..core import run_impl
    from ..val import dec, enc

    for c in ticking_cases(ctx):
        tried += 1
        why = pred_ticking(c, dec(run_impl(impl_ticking, c)))
        if why:
            return {"unit": "interval.ticking", "input": enc(c), "why": why, "tried": tried, "key": "interval-ticking"}
    ctx.notes.append(f"search: {tried} boundary instants (frozen and ticking clocks) agree with the floor formulas")
    return None


def oracles(ctx: Ctx):
    """histories: several protect calls at different instants on ONE cache (root key loaded); every blob must name the interval of the
    instant IT was protected at, whatever the cache served or stored before (sync and async)"""
    from .. import prothist

    prothist.run_oracle(ctx, prothist.pred_interval, "interval.history")


def _hist_replay():
    from .. import prothist

    return prothist.impl_history, prothist.pred_interval


ORACLE_REPLAY = {"interval.history": ((lambda a: _hist_replay()[0](a)), (lambda a, o: _hist_replay()[1](a, o)))}


def replay(doc):
    ns = int(doc["input"][1:], 16)
    t = ns // 100 + EPOCH
    got = impl_interval(ns)
    print("time_ns", ns, "filetime", t, "expected", spec(t), "observed", got)
    return 0 if got == spec(t) else 1
