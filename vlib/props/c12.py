"""C12 -- DCE/RPC and endpoint-mapper wire codecs are inverse; decoders terminate."""
from __future__ import annotations

import typing as t

from .. import rpc_util as R
from ..runner import Ctx, Unit
from ..val import Err

AREA = "rpc"

MANIFEST = {
    "text": "Coq theorems over a function-for-function Gallina model of _rpc/_pdu.py, _bind.py, _request.py, _verification.py and _epm.py "
            "(padding/offset/mask expressions, enum domains, registry keys and UUID constants regenerated from the source on every run): "
            "PDU.unpack(M.pack m) returns m (raw caches of known floors/commands = what pack emits) and re-packs to the same bytes for every "
            "well-formed message (unbounded list sizes, every padding residue, any auth value), and every decoder returns without exhausting "
            "fuel = len+1 on every byte string with loop ticks bounded linearly. Proved in Coq (Properties/C12.v): the eight PDU round trips, "
            "SecTrailer, floors, EptMapResult, EptMap (C12_rt_ept_map), the four verification-trailer command kinds (C12_rt_command: bitmask1, "
            "pcontext, header2, unknown type with any value; decoded value = same typed fields with the raw value cache pack emits) and "
            "VerificationTrailer with any number of commands ending in SEC_VT_COMMAND_END (C12_rt_verification_trailer); on arbitrary octets, "
            "for every fuel > len: C12_total_pdu (ticks <= len), C12_total_verification_trailer (8 + 4*ticks <= len), C12_total_ept_map "
            "(3*ticks <= len), C12_total_ept_map_result (ticks <= len, 8*towers <= len), C12_total_floors (3*ticks <= consumed octets); "
            "no well-formedness of the octets and no additive constant is needed. Tie: kernels + differential correspondence on structured "
            "round trips, the captured test byte strings and random/mutated byte strings under an interpreter step budget.",
    "note": "pack is modelled on in-range field values (wf predicates); out-of-range values raise OverflowError in Python and are outside the statement. "
            "Messages listed under `partial` are covered by correspondence only.",
    "technique": "Coq proof (fixed-layout slice lemmas, list induction for counted loops, lia over regenerated padding kernels) + differential correspondence",
}

ASSUMPTIONS = [
    "CPython memoryview/bytes slicing, int.from_bytes/to_bytes, IntEnum/IntFlag lookup, uuid.UUID(bytes_le=) and utf-8 codecs behave as modelled in coq/Prelude (validated by the correspondence units)",
    "subscript expressions (view[24 + 20*n:], view[len(lhs)+len(rhs)+5:], view[4+len(value):], view[-(auth_len+8):]) are hand-written in the model: the kernel selectors cannot reach them; they are tied by correspondence",
    "the interpreter step budget (sys.settrace line events, 3000 + 40*len) is a measurement supporting the tick model, not a proof about CPython",
]
RULE = ("structured round trips per message type from boundary tables (list sizes 0..8, transfer syntaxes 0..4, every residue of the variable-length parts "
        "mod 4/8, auth values 0..64, object UUID on/off, every enum member) plus seeded random fields; captured byte strings of tests/_rpc and tests/test_epm.py "
        "through every decoder; random and mutated byte strings (truncations, bit flips, count-field edits); non-trivial = decoded successfully or a distinct "
        "error class; distinct = distinct canonical input text per unit")

PARTIAL: t.List[str] = [
    "tick bounds are stated for successful decodes (the models return ticks only with Ok); on a raising path the C12_total_* theorems give "
    "fuel sufficiency only (no OutOfFuel for any fuel > length, i.e. each individual loop makes <= length iterations before the raise)",
    "C12_rt_ept_map carries the explicit hypothesis in_range 4 (len (tower_bytes tower)) (the 4-octet tower length field pack writes): "
    "wf_ept_map of Model/Epm.v does not state it, and a tower of >= 2^32 octets raises OverflowError in Python",
    "out-of-range field values: the round-trip theorems are stated on in-range values (wf_*); what pack does outside them (OverflowError of "
    "int.to_bytes) is stated by the flow ties C12_flow_*_pack (chk (<X>_ranges x) ..), not by the round trips",
    "EDGE auth value of length 0: wf_lengths requires 0 < auth_len when a trailer is present, so the round trips cover auth values of 1.. octets "
    "and 'no trailer'; DCE/RPC reads auth_length = 0 as 'no auth trailer', and so does PDU.unpack: a trailer with an empty auth value is NOT "
    "returned. Pinned by C12_edge_trailer_request/_response/_fault (the 8 trailer octets come back as the tail of stub_data, the decoded PDU "
    "re-packs to the same octets) and by the unit rpc.edge.empty_auth, which also pins Bind/BindAck/AlterContext* by correspondence only "
    "(decoded = the message without trailer, re-packing drops the 8 octets; no Coq theorem for these four)",
    "EDGE nil object UUID / all-zero entry handle: wf_ept_map and wf_entry_handle exclude them because their encoding IS the NDR encoding of "
    "'absent'; EptMap.unpack / EptMapResult.unpack return None for both (C12_edge_nil_object, C12_edge_zero_handle; unit rpc.edge.nil_uuid)",
    "EDGE BindNak with a security trailer: wf_bind_nak forbids it because BindNak.pack does not emit one and BindNak._unpack returns "
    "sec_trailer=None: the trailer is dropped (C12_edge_bind_nak_trailer; unit rpc.edge.bindnak_trailer; norm_pdu no longer masks it)",
    "EDGE empty command list: wf_commands requires >= 1 command (the last one carries SEC_VT_COMMAND_END); VerificationTrailer([]).pack() is "
    "the bare signature and unpack rejects it with ValueError (C12_edge_vt_empty; unit rpc.edge.vt_empty)",
    "model ticks are never compared with the implementation: the units drop them (the values compared are bytes / decoded fields / error "
    "class); the only link between the proved tick bounds and CPython is the measured interpreter step budget 3000 + 40*len",
    "PDU.unpack's own body (view[16:frag_len], view[-(auth_len+8):], the _PACKET_TYPE_REGISTRY dispatch) has no flow tie: the translator "
    "refuses the computed callee; Model/RpcDispatch.pdu_unpack / Pdu.pdu_split stand for it, tied by the kernel k_pdu_has_trailer, the registry "
    "constants c_PDU_registry / c_PT_* and the rpc.*.pdu correspondence units only",
]


# ---------------------------------------------------------------------------------------------------
# implementation side
# ---------------------------------------------------------------------------------------------------
def _dec(unpack_name: str):
    """decoder unit: bytes -> value, under the step budget"""

    def run(b):
        rpc, epm, _pdu = R.L()
        b = bytes(b)
        table = {
            "pdu": (lambda: _pdu.PDU.unpack(b), R.v_pdu),
            "header": (lambda: rpc.PDUHeader.unpack(b), R.v_hdr),
            "sectrailer": (lambda: rpc.SecTrailer.unpack(b), R.v_st),
            "cmd": (lambda: rpc.Command.unpack(b), R.v_cmd),
            "vt": (lambda: rpc.VerificationTrailer.unpack(b), lambda v: [R.v_cmd(c) for c in v.commands]),
            "floor": (lambda: epm.Floor.unpack(b), R.v_floor),
            "eptmap": (lambda: epm.EptMap.unpack(b), R.v_ept_map),
            "eptres": (lambda: epm.EptMapResult.unpack(b), R.v_ept_map_result),
        }
        fn, conv = table[unpack_name]
        return conv(R.run_budgeted(fn, R.step_budget(len(b))))

    return run


def impl_pdu_rt(arg):
    rpc, epm, _pdu = R.L()
    return R.roundtrip(R.o_pdu(arg), _pdu.PDU.unpack, R.v_pdu)


def impl_st_rt(arg):
    rpc, epm, _pdu = R.L()
    return R.roundtrip(R.o_st(arg), rpc.SecTrailer.unpack, R.v_st)


def impl_cmd_rt(arg):
    rpc, epm, _pdu = R.L()
    return R.roundtrip(R.o_cmd(arg), rpc.Command.unpack, R.v_cmd)


def impl_vt_rt(arg):
    rpc, epm, _pdu = R.L()
    return R.roundtrip(rpc.VerificationTrailer([R.o_cmd(c) for c in arg]), rpc.VerificationTrailer.unpack,
                       lambda v: [R.v_cmd(c) for c in v.commands])


def impl_floor_rt(arg):
    rpc, epm, _pdu = R.L()
    return R.roundtrip(R.o_floor(arg), epm.Floor.unpack, R.v_floor)


def impl_eptmap_rt(arg):
    rpc, epm, _pdu = R.L()
    return R.roundtrip(R.o_ept_map(arg), epm.EptMap.unpack, R.v_ept_map)


def impl_eptres_rt(arg):
    rpc, epm, _pdu = R.L()
    return R.roundtrip(R.o_ept_map_result(arg), epm.EptMapResult.unpack, R.v_ept_map_result)


def impl_tower(arg):
    rpc, epm, _pdu = R.L()
    t_ = epm.build_tcpip_tower(R.o_sy(arg[0]), R.o_sy(arg[1]), arg[2], arg[3])
    return [[R.v_floor(f) for f in t_], len(t_).to_bytes(2, "little") + b"".join(f.pack() for f in t_)]


def impl_btfn(arg):
    rpc, epm, _pdu = R.L()
    return R.v_sy(rpc.bind_time_feature_negotiation(rpc.BindTimeFeatureNegotiation(arg)))


# ---------------------------------------------------------------------------------------------------
# independent oracles (written from the wire formats, not from the library)
# ---------------------------------------------------------------------------------------------------
def norm_floor(v):
    kind = v[0]
    if kind == 0:
        return list(v)
    if kind == 1:
        return [1, 7, b"", v[4].to_bytes(2, "big"), v[4]]
    if kind == 2:
        return [2, 9, b"", v[4].to_bytes(4, "big"), v[4]]
    if kind == 3:
        return [3, 11, b"", v[4].to_bytes(2, "little"), v[4]]
    return [4, 13, bytes(v[4]) + v[5].to_bytes(2, "little"), v[6].to_bytes(2, "little"), v[4], v[5], v[6]]


def _sy_bytes(s):
    return bytes(s[0]) + s[1].to_bytes(2, "little") + s[2].to_bytes(2, "little")


def norm_cmd(v):
    kind = v[0]
    if kind == 0:
        return list(v)
    if kind == 1:
        return [1, 1, v[2], v[4].to_bytes(4, "little")] + list(v[4:])
    if kind == 2:
        return [2, 2, v[2], _sy_bytes(v[4]) + _sy_bytes(v[5])] + list(v[4:])
    dr = v[5]
    val = bytes([v[4], 0, 0, 0, (dr[0] << 4) | dr[1], dr[2], 0, 0]) + v[6].to_bytes(4, "little") + v[7].to_bytes(2, "little") + v[8].to_bytes(2, "little")
    return [3, 3, v[2], val] + list(v[4:])


def _canon(x):
    if isinstance(x, (bytes, bytearray)):
        return bytes(x)
    if isinstance(x, (list, tuple)):
        return [_canon(y) for y in x]
    return x


def pred_rt(norm):
    """round-trip property on the implementation's own behaviour: decode succeeds, fields are the
    (normalised) fields sent, re-encoding gives the same bytes"""

    def pred(arg, out):
        if out is None or isinstance(out, Err):
            return f"pack raised {out}"
        if len(out) == 2:
            if isinstance(out[1], Err) and out[1].name == "OutOfFuel":
                return "decoding the encoded message did not finish within the step budget"
            return f"decoding the encoded message raised {out[1]}"
        b, m2, b2 = out
        if isinstance(b2, Err) or bytes(b2) != bytes(b):
            return "re-encoding the decoded message gives different bytes"
        if _canon(m2) != _canon(norm(arg)):
            return "decoded field values differ from the message that was encoded"
        return None

    return pred


def norm_pdu(v):
    """the main round-trip units send BindNak without a trailer (gen_pdus); a BindNak WITH a trailer is the edge unit
    rpc.edge.bindnak_trailer"""
    return v


# ---------------------------------------------------------------------------------------------------
# edges of the wf predicates (C12_edge_*): the pinned behaviour, evaluated on the implementation's output
# ---------------------------------------------------------------------------------------------------
def _edge_ok(out):
    if out is None or isinstance(out, Err):
        return f"pack raised {out}"
    if len(out) == 2:
        return f"decoding the encoded message raised {out[1]}"
    return None


def pred_edge_empty_auth(arg, out):
    """trailer with an empty auth value, header auth_len = 0: not read back; request/response/fault keep the 8 octets as
    the tail of stub_data (same bytes when re-packed), the counted messages ignore them (re-packing drops them)"""
    why = _edge_ok(out)
    if why:
        return why
    b, m2, b2 = out
    tag, m = arg
    # a codec that round-trips this edge faithfully (same fields or the trailer normalised away, and byte-stable) satisfies the
    # property outright; otherwise exactly the behaviour pinned by the C12_edge_* theorems is expected
    if not isinstance(b2, Err) and bytes(b2) == bytes(b):
        norm = list(m)
        norm[1] = None
        if _canon(m2) in (_canon([tag, list(m)]), _canon([tag, norm])):
            return None
    want = list(m)
    want[1] = None
    if tag in (0, 2, 3):
        want[-1] = bytes(m[-1]) + bytes(b)[-8:]
        wb = bytes(b)
    else:
        wb = bytes(b)[:-8]
    if _canon(m2) != _canon([tag, want]):
        return "decoded PDU is not the message without trailer (stub_data extended by the 8 trailer octets for request/response/fault)"
    if isinstance(b2, Err) or bytes(b2) != wb:
        return "re-encoding the decoded PDU does not give the pinned octets"
    return None


def pred_edge_nil_uuid(norm_none):
    def pred(arg, out):
        why = _edge_ok(out)
        if why:
            return why
        b, m2, b2 = out
        if _canon(m2) != _canon(norm_none(arg)):
            return "a nil object UUID / all-zero entry handle did not decode to None"
        if isinstance(b2, Err) or bytes(b2) != bytes(b):
            return "re-encoding the decoded message gives different bytes"
        return None
    return pred


def pred_edge_bindnak(arg, out):
    why = _edge_ok(out)
    if why:
        return why
    b, m2, b2 = out
    tag, m = arg
    want = list(m)
    want[1] = None
    if _canon(m2) not in (_canon([tag, want]), _canon([tag, list(m)])):
        return "decoded BindNak is neither the message nor the message without its trailer"
    if isinstance(b2, Err) or bytes(b2) != bytes(b):
        return "re-encoding the decoded BindNak gives different bytes"
    return None


def pred_edge_vt_empty(arg, out):
    if out is None or isinstance(out, Err) or len(out) != 2:
        return "VerificationTrailer([]) did not pack, or its encoding was decoded"
    if bytes(out[0]) != b"\x8a\xe3\x13\x71\x02\xf4\x36\x71":
        return "VerificationTrailer([]).pack() is not the bare signature"
    if not isinstance(out[1], Err):
        return f"unpack of the bare signature gave {out[1]} instead of an error"
    return None


def _zero_none(x, zero):
    return None if x is not None and _canon(x) == zero else x


def gen_edge_empty_auth(ctx: Ctx):
    rng = ctx.rng
    out = []
    for tag in (0, 2, 3, 11, 12, 14, 15):
        for v in gen_pdus(ctx, tag, 200):
            if v[1][1] is None and len(out) < 10_000:
                v = [v[0], list(v[1])]
                v[1][0] = list(v[1][0])
                v[1][1] = [rng.choice(R.SEC_PROVIDERS), rng.randrange(7), rng.choice([0, 1, 255]), rng.randrange(2 ** 32), b""]
                out.append(R.with_frag_len(v))
    return out


def gen_edge_nil_eptmap(ctx: Ctx):
    out = []
    for i, v in enumerate(gen_eptmaps(ctx)[:60]):
        v = list(v)
        if i % 3 != 1:
            v[0] = bytes(16)
        if i % 3 != 0:
            v[2] = [0, bytes(16)]
        out.append(v)
    return out


def gen_edge_nil_eptres(ctx: Ctx):
    return [[[0, bytes(16)], v[1], v[2]] for v in gen_eptres(ctx)[:60]]


def gen_edge_bindnak(ctx: Ctx):
    rng = ctx.rng
    out = []
    for v in gen_pdus(ctx, 13, 30):
        v = [v[0], list(v[1])]
        v[1][1] = [rng.choice(R.SEC_PROVIDERS), rng.randrange(7), 0, rng.randrange(2 ** 32), R.rbytes(rng, rng.choice([0, 1, 16]))]
        out.append(R.with_frag_len(v))
    return out


def pred_budget(arg, out):
    if isinstance(out, Err) and out.name == "OutOfFuel":
        return f"decoder did not finish within {R.step_budget(len(arg))} interpreter steps on {len(arg)} octets"
    return None


def bucket(text: str) -> str:
    """ok values are compared exactly; errors by bucket deliberate / internal / budget"""
    if text.startswith("e"):
        name = text[1:]
        if name == "OutOfFuel":
            return "budget-exceeded"
        return "deliberate-error" if name in ("ValueError", "NotImplementedError", "NotEnoughData", "InvalidTag", "InvalidUnwrap") else "internal-error"
    return text


# ---------------------------------------------------------------------------------------------------
# generators
# ---------------------------------------------------------------------------------------------------
STUB_LENS = [0, 1, 2, 3, 4, 5, 7, 8, 15, 16, 17, 31, 32, 64, 255, 256]
NON_ASCII = ["", "1", "49", "135", "4915", "49152", "é", "€1", "\U0001F600", "a\x00b", "ncacn_ip_tcp:1"]


def gen_pdus(ctx: Ctx, tag: int, n: int) -> t.List[t.Any]:
    rng = ctx.rng
    out = []
    for i in range(n):
        auth = R.AUTH_LENS[i % 65] if i < 130 else rng.choice([0, 0, 16, rng.randrange(1, 65)])
        flags = rng.randrange(256)
        if tag == 0:
            obj_on = (i // 2) % 2 == 0
            flags = (flags | 0x80) if obj_on else (flags & 0x7F)
            hdr = R.g_hdr(rng, tag, flags, auth)
            m = [hdr, R.g_st(rng, auth), rng.randrange(2 ** 32), rng.randrange(2 ** 16), rng.randrange(2 ** 16),
                 R.g_uuid(rng) if obj_on else None, R.rbytes(rng, STUB_LENS[i % len(STUB_LENS)])]
        elif tag == 2:
            hdr = R.g_hdr(rng, tag, flags, auth)
            m = [hdr, R.g_st(rng, auth), rng.randrange(2 ** 32), rng.randrange(2 ** 16), rng.choice([0, 1, 255]),
                 R.rbytes(rng, STUB_LENS[i % len(STUB_LENS)])]
        elif tag == 3:
            hdr = R.g_hdr(rng, tag, flags, auth)
            m = [hdr, R.g_st(rng, auth), rng.randrange(2 ** 32), rng.randrange(2 ** 16), rng.choice([0, 1, 255]),
                 rng.choice([0, 5, 0x1C010003, 2 ** 32 - 1]), rng.choice([0, 1, 2, 255]), R.rbytes(rng, STUB_LENS[i % len(STUB_LENS)])]
        elif tag in (11, 14):
            nctx = i % 9
            ctxs = []
            for j in range(nctx):
                nts = (i // 9 + j) % 5
                ctxs.append([rng.choice([0, 1, j, 65535]), R.g_sy(rng), [R.g_sy(rng) for _ in range(nts)]])
            hdr = R.g_hdr(rng, tag, flags, auth)
            m = [hdr, R.g_st(rng, auth), rng.choice([0, 5840, 65535]), rng.choice([0, 5840, 65535]), rng.choice([0, 1, 2 ** 32 - 1]), ctxs]
        elif tag in (12, 15):
            k = i % 24
            if k < 13:
                sec_addr = "".join(chr(0x30 + (c % 10)) for c in range(k))       # byte lengths 0, 2..13 (+NUL): every residue mod 4
            else:
                sec_addr = NON_ASCII[(k - 13) % len(NON_ASCII)]
            nres = (i // 3) % 9
            results = [[rng.randrange(4), rng.choice([0, 1, 2, 65535]), R.g_uuid(rng), rng.choice([0, 1, 2 ** 32 - 1])] for _ in range(nres)]
            hdr = R.g_hdr(rng, tag, flags, auth)
            m = [hdr, R.g_st(rng, auth), rng.choice([0, 5840, 65535]), rng.choice([0, 5840, 65535]), rng.choice([0, 0x1234, 2 ** 32 - 1]),
                 sec_addr, results]
        elif tag == 13:
            nv = i % 9
            hdr = R.g_hdr(rng, tag, flags, 0)
            m = [hdr, None, rng.choice([0, 4, 65535]), [[rng.choice([0, 5, 255]), rng.choice([0, 1, 255])] for _ in range(nv)]]
        else:
            raise ValueError(tag)
        out.append(R.with_frag_len([tag, m]))
    return out


def gen_sectrailers(ctx: Ctx):
    rng = ctx.rng
    out = []
    for prov in R.SEC_PROVIDERS:
        for lvl in range(7):
            out.append([prov, lvl, rng.choice([0, 255]), rng.randrange(2 ** 32), R.rbytes(rng, rng.choice([0, 1, 16]))])
    for n in range(0, 65):
        out.append([10, 6, n % 16, n, R.rbytes(rng, n)])
    return out


def gen_floor(rng, kind, k=0):
    if kind == 0:
        proto = rng.choice([p for p in range(256) if p not in (7, 9, 11, 13)])
        return [0, proto, R.rbytes(rng, k % 9), R.rbytes(rng, (k // 9) % 9)]
    if kind == 1:
        return [1, 7, b"", b"", rng.choice([0, 135, 49152, 65535, rng.randrange(65536)])]
    if kind == 2:
        return [2, 9, b"", b"", rng.choice([0, 1, 2 ** 32 - 1, rng.randrange(2 ** 32)])]
    if kind == 3:
        return [3, 11, b"", b"", rng.choice([0, 1, 65535])]
    return [4, 13, b"", b"", R.g_uuid(rng), rng.choice([0, 1, 2, 65535]), rng.choice([0, 1, 65535])]


def gen_floors(ctx: Ctx):
    rng = ctx.rng
    out = [gen_floor(rng, 0, k) for k in range(81)]
    for proto in (0, 1, 8, 10, 12, 14, 255):
        out.append([0, proto, b"", b""])
    for kind in (1, 2, 3, 4):
        out += [gen_floor(rng, kind) for _ in range(12)]
    out.append([0, 0x1F, R.rbytes(rng, 300), R.rbytes(rng, 1000)])
    return out


def gen_tower(rng, residue_len: int, tcp_at: t.Optional[int], nfloors: int):
    """a tower of nfloors floors whose generic payloads make the encoded tower length vary"""
    fl = []
    for j in range(nfloors):
        if tcp_at is not None and j == tcp_at:
            fl.append(gen_floor(rng, 1))
        else:
            kind = rng.choice([0, 0, 2, 3, 4])
            fl.append(gen_floor(rng, kind, rng.randrange(81)))
    if residue_len:
        fl.append([0, 0x21, R.rbytes(rng, residue_len), b""])
    return fl


def gen_commands(ctx: Ctx):
    rng = ctx.rng
    out = []
    for flags in (0, 0x4000, 0x8000, 0xC000):
        out.append([1, 1, flags, b"", rng.choice([0, 1, 2 ** 32 - 1])])
        out.append([2, 2, flags, b"", R.g_sy(rng), R.g_sy(rng)])
        for pt in R.PACKET_TYPES[::3]:
            out.append([3, 3, flags, b"", pt, R.g_dr(rng), rng.randrange(2 ** 32), rng.randrange(2 ** 16), rng.randrange(2 ** 16)])
        for ct in (0, 4, 5, 0x3FFF, rng.randrange(4, 0x4000)):
            for n in (0, 1, 2, 3, 4, 5, 8, 40):
                out.append([0, ct, flags, R.rbytes(rng, n)])
    return out


def gen_vts(ctx: Ctx):
    rng = ctx.rng
    cmds = [c for c in gen_commands(ctx)]
    out = []
    for n in range(1, 9):
        for _ in range(ctx.n(6, 100)):
            lst = []
            for j in range(n):
                c = list(rng.choice(cmds))
                c[2] = (c[2] & 0x8000) | (0x4000 if j == n - 1 else 0)
                lst.append(c)
            out.append(lst)
    return out


def gen_eptmaps(ctx: Ctx):
    rng = ctx.rng
    out = []
    for i in range(ctx.n(120, 3000)):
        nfl = i % 9
        tower = gen_tower(rng, i % 8, (i // 8) % (nfl + 1) if nfl else None, nfl)
        obj = R.g_uuid(rng) if i % 2 else None
        handle = [rng.choice([0, 1, 2 ** 32 - 1]), R.g_uuid(rng)] if (i // 2) % 2 else None
        out.append([obj, tower, handle, rng.choice([0, 1, 4, 500, 2 ** 32 - 1])])
    return out


def known_tower(rng, residue: int):
    """a tower of known floors only whose encoded length is = residue (mod 8): 2 + 7*tcp + 9*ip"""
    for ntcp in range(8):
        for nip in range(8):
            if (2 + 7 * ntcp + 9 * nip) % 8 == residue and ntcp + nip > 0:
                return [gen_floor(rng, 1) for _ in range(ntcp)] + [gen_floor(rng, 2) for _ in range(nip)]
    raise AssertionError(residue)


def gen_eptres(ctx: Ctx):
    rng = ctx.rng
    out = []
    # boundary table: two/three towers of known floors, first tower length in every residue class mod 8
    for res in range(8):
        for res2 in (1, 4):
            out.append([None, [known_tower(rng, res), known_tower(rng, res2)], 0])
        out.append([None, [known_tower(rng, res), known_tower(rng, (res + 3) % 8), known_tower(rng, res)], 0])
        out.append([None, [known_tower(rng, res)], 0])
    k = 0
    for nt in range(0, 9):
        for res in range(8):
            for rep in range(ctx.n(2, 40)):
                k += 1
                towers = []
                for j in range(nt):
                    nfl = (k + j) % 6
                    towers.append(gen_tower(rng, (res + j * rep) % 8, (k % (nfl + 1)) if (nfl and j == nt // 2) else None, nfl))
                handle = [rng.choice([0, 1]), R.g_uuid(rng)] if k % 3 == 0 else None
                out.append([handle, towers, rng.choice([0, 0, 0x16C9A0D6, 2 ** 32 - 1])])
    return out


def mutate(rng, b: bytes) -> bytes:
    b = bytearray(b)
    op = rng.randrange(6)
    if op == 0 and b:
        return bytes(b[: rng.randrange(len(b))])
    if op == 1 and b:
        for _ in range(rng.randrange(1, 4)):
            b[rng.randrange(len(b))] ^= 1 << rng.randrange(8)
        return bytes(b)
    if op == 2 and b:
        i = rng.randrange(len(b))
        b[i] = rng.choice([0, 1, 0x7F, 0x80, 0xFF])
        return bytes(b)
    if op == 3:
        return bytes(b) + R.rbytes(rng, rng.randrange(1, 9))
    if op == 4 and len(b) > 2:
        i = rng.randrange(len(b) - 1)
        b[i:i + 2] = rng.choice([b"\xff\xff", b"\x00\x00", b"\x00\x01", b"\x01\x00"])
        return bytes(b)
    if b:
        i = rng.randrange(len(b))
        del b[i:i + rng.randrange(1, 5)]
    return bytes(b)


def gen_arbitrary(ctx: Ctx, seeds: t.Sequence[bytes], n: int, maxlen: int = 160) -> t.List[bytes]:
    rng = ctx.rng
    out = [b"", b"\x00", b"\x00" * 4, b"\x00" * 16, b"\xff" * 16, b"\x00" * 64, b"\xff" * 64]
    for ln in range(0, 60):
        out.append(R.rbytes(rng, ln))
    for _ in range(n):
        if seeds and rng.random() < 0.75:
            b = rng.choice(seeds)
            for _ in range(rng.randrange(1, 3)):
                b = mutate(rng, b)
            out.append(b)
        else:
            out.append(R.rbytes(rng, rng.randrange(maxlen)))
    if ctx.thorough:
        for ln in (1024, 4096, 65535):
            out.append(R.rbytes(rng, ln))
            out.append(b"\x00" * ln)
    return out


PDU_NAMES = {0: "request", 2: "response", 3: "fault", 11: "bind", 12: "bind_ack", 13: "bind_nak", 14: "alter_context", 15: "alter_context_resp"}


def _packed(rt_impl, cases, limit=40):
    out = []
    for c in cases[:limit]:
        try:
            r = rt_impl(c)
            out.append(bytes(r[0]))
        except Exception:  # noqa: BLE001
            pass
    return out


def units(ctx: Ctx, only=None):
    replaying = getattr(ctx, "replay_only", False)
    us: t.List[Unit] = []

    def want(name):
        return only is None or only == name

    def add(name, model_unit, gen, impl, **kw):
        if not want(name):
            return
        us.append(Unit(name, model_unit, [] if replaying else gen(), impl, **kw))

    npdu = ctx.n(150, 5000)
    pdu_cases: t.Dict[int, list] = {}
    for tag, nm in PDU_NAMES.items():
        def g(tag=tag):
            pdu_cases[tag] = gen_pdus(ctx, tag, npdu)
            return pdu_cases[tag]
        add(f"rpc.roundtrip.{nm}", "rpc.pdu.roundtrip", g, impl_pdu_rt, prop_pred=pred_rt(norm_pdu))
    add("rpc.roundtrip.sectrailer", "rpc.sectrailer.roundtrip", lambda: gen_sectrailers(ctx), impl_st_rt, prop_pred=pred_rt(lambda v: v))
    add("rpc.roundtrip.command", "rpc.cmd.roundtrip", lambda: gen_commands(ctx), impl_cmd_rt, prop_pred=pred_rt(norm_cmd))
    add("rpc.roundtrip.vt", "rpc.vt.roundtrip", lambda: gen_vts(ctx), impl_vt_rt, prop_pred=pred_rt(lambda v: [norm_cmd(c) for c in v]))
    add("rpc.roundtrip.floor", "epm.floor.roundtrip", lambda: gen_floors(ctx), impl_floor_rt, prop_pred=pred_rt(norm_floor))
    add("rpc.roundtrip.eptmap", "epm.map.roundtrip", lambda: gen_eptmaps(ctx), impl_eptmap_rt,
        prop_pred=pred_rt(lambda v: [v[0], [norm_floor(f) for f in v[1]], v[2], v[3]]))
    add("rpc.roundtrip.eptmapresult", "epm.result.roundtrip", lambda: gen_eptres(ctx), impl_eptres_rt,
        prop_pred=pred_rt(lambda v: [v[0], [[norm_floor(f) for f in t_] for t_ in v[1]], v[2]]))
    add("rpc.edge.empty_auth", "rpc.pdu.roundtrip", lambda: gen_edge_empty_auth(ctx), impl_pdu_rt, prop_pred=pred_edge_empty_auth)
    add("rpc.edge.nil_uuid.eptmap", "epm.map.roundtrip", lambda: gen_edge_nil_eptmap(ctx), impl_eptmap_rt,
        prop_pred=pred_edge_nil_uuid(lambda v: [_zero_none(v[0], bytes(16)), [norm_floor(f) for f in v[1]], _zero_none(v[2], [0, bytes(16)]), v[3]]))
    add("rpc.edge.nil_uuid.eptmapresult", "epm.result.roundtrip", lambda: gen_edge_nil_eptres(ctx), impl_eptres_rt,
        prop_pred=pred_edge_nil_uuid(lambda v: [_zero_none(v[0], [0, bytes(16)]), [[norm_floor(f) for f in t_] for t_ in v[1]], v[2]]))
    add("rpc.edge.bindnak_trailer", "rpc.pdu.roundtrip", lambda: gen_edge_bindnak(ctx), impl_pdu_rt, prop_pred=pred_edge_bindnak)
    add("rpc.edge.vt_empty", "rpc.vt.roundtrip", lambda: [[]], impl_vt_rt, prop_pred=pred_edge_vt_empty)
    add("rpc.tower", "epm.tower", lambda: [[R.g_sy(ctx.rng), R.g_sy(ctx.rng), p, a] for p in (0, 135, 65535) for a in (0, 1, 2 ** 32 - 1)], impl_tower)
    add("rpc.btfn", "rpc.btfn", lambda: [0, 1, 2, 3], impl_btfn)

    decoders = [("pdu", "rpc.pdu.unpack"), ("header", "rpc.header.unpack"), ("sectrailer", "rpc.sectrailer.unpack"),
                ("cmd", "rpc.cmd.unpack"), ("vt", "rpc.vt.unpack"), ("floor", "epm.floor.unpack"),
                ("eptmap", "epm.map.unpack"), ("eptres", "epm.result.unpack")]
    cap = [] if replaying else R.captured_bytes()
    seeds: t.Dict[str, t.List[bytes]] = {}
    if not replaying:
        pdu_seed = []
        for tag in PDU_NAMES:
            pdu_seed += _packed(impl_pdu_rt, pdu_cases.get(tag) or gen_pdus(ctx, tag, 20), 20)
        seeds = {
            "pdu": pdu_seed + cap, "header": [b[:16] for b in pdu_seed[:30]], "sectrailer": _packed(impl_st_rt, gen_sectrailers(ctx), 30),
            "cmd": _packed(impl_cmd_rt, gen_commands(ctx), 60), "vt": _packed(impl_vt_rt, gen_vts(ctx), 40) + cap,
            "floor": _packed(impl_floor_rt, gen_floors(ctx), 60), "eptmap": _packed(impl_eptmap_rt, gen_eptmaps(ctx), 40) + cap,
            "eptres": _packed(impl_eptres_rt, gen_eptres(ctx), 60) + cap,
        }
    for nm, mu in decoders:
        add(f"rpc.captured.{nm}", mu, lambda: list(cap), _dec(nm), prop_pred=pred_budget, bucket=bucket)
        add(f"rpc.arbitrary.{nm}", mu, lambda nm=nm: gen_arbitrary(ctx, seeds.get(nm, []), ctx.n(250, 6000)), _dec(nm),
            prop_pred=pred_budget, bucket=bucket)
    return us


def oracles(ctx: Ctx):
    """measurement: interpreter steps of the decoders on growing inputs stay under the linear budget"""
    rpc, epm, _pdu = R.L()
    worst = 0.0
    for n in (0, 64, 512, 4096) + ((65535,) if ctx.thorough else ()):
        for data in (b"\x00" * n, b"\xff" * n, bytes([5, 0, 12, 3, 16, 0, 0, 0]) + (n & 0xFFFF).to_bytes(2, "little") + b"\x00" * n):
            for fn in (_pdu.PDU.unpack, rpc.VerificationTrailer.unpack, epm.EptMap.unpack, epm.EptMapResult.unpack):
                steps = R.count_steps(lambda: fn(data), cap=R.step_budget(len(data)) + 1)
                ctx.oracle_runs += 1
                worst = max(worst, steps / R.step_budget(len(data)))
                if steps > R.step_budget(len(data)):
                    ctx.violation("failing-input", "oracle:step-budget",
                                  {"unit": "rpc.arbitrary." + fn.__qualname__, "input": "b" + data[:64].hex() + ("..." if len(data) > 64 else ""),
                                   "why": f"{fn.__qualname__} took more than {R.step_budget(len(data))} steps on {len(data)} octets"},
                                  key=None)
    ctx.extra["worst_step_ratio"] = round(worst, 3)


def search(ctx: Ctx):
    """A proof obligation of C12 no longer checks: evaluate the property itself (round trip; termination
    under the step budget) on the implementation over the boundary tables."""
    from ..core import run_impl
    from ..val import dec, enc

    tried = 0
    for u in units(ctx):
        if u.prop_pred is None:
            continue
        for c in u.cases:
            tried += 1
            out = dec(run_impl(u.impl, c))
            why = u.prop_pred(c, out)
            if why:
                text = enc(c)
                return {"unit": u.name, "input": text, "why": why, "observed": repr(out)[:300], "tried": tried, "key": None}
    ctx.notes.append(f"search: {tried} cases satisfy the round-trip / termination property on the implementation")
    return None
