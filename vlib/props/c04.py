"""C04 -- a modified blob never decrypts to different plaintext."""
from __future__ import annotations

from .. import e2e, hostile, sym
from ..runner import Ctx, Unit
from ..val import Err
from .c05 import bucket

AREA = "e2e"
MANIFEST = {
    "text": "Coq theorem (coq/Properties/C04.v) about the composition model Model/Client.v: for an ideal crypto record (IdealLaws: unwrap/decrypt succeed only on images of wrap/"
            "encrypt under the same key, which are injective) and the explicit no-forgery premise (no new valid key-wrap image under a key derivable from the root key, no new valid "
            "GCM image under the blob's CEK), ANY byte string B' presented instead of a library-made blob B either fails or decrypts to B's plaintext: the library hands the wrapped "
            "CEK, the ciphertext with its tag, the nonce taken from the parameters and the key identifier / SID fields that enter key derivation to the primitives, so their integrity "
            "covers the blob. Tie: every single-bit flip, insertions/deletions/truncations and multi-site mutations of library-made blobs (each configuration, both layouts) through the "
            "public API vs the model under the symbolic crypto (ideal by construction), and the same campaign with the real crypto (never a different plaintext).",
    "note": "Integrity of AES key wrap and AES-GCM (INT-CTXT) is an idealised premise, not proved; the theorem establishes the routing of fields. The premise NoForgery is about the "
            "modified blob itself: (i) if its wrapped-key field unwraps under the KEK that get_kek derives FROM THE MODIFIED BLOB'S OWN key identifier, it is the original wrapped key, (ii) if "
            "its content decrypts under the original CEK it is the original content. It therefore EXCLUDES, besides breaks of the primitives, every modification that makes the receiver "
            "derive a KEK the modifier knows. Two such modifications exist and are outside the theorem: in public-key mode (key identifier flag bit 0) the KEK depends only on the "
            "sender's ephemeral private key and the group PUBLIC key, so anyone who holds the group public key can make a valid blob (that is what protect does; no sender is authenticated), "
            "and a DH public value of small order confines the shared secret to a few values. The audit that pointed this out found a genuine defect (D16: the DH parameters and public value "
            "were taken from the blob, so 0 / 1 / p-1 or a modifier-chosen group gave a KEK without ANY key material; repaired in /repo 3712d46) and a residual that cannot be repaired without "
            "the subgroup order (known finding F1 in known_findings.txt: a public value of order 7 or 13 in the default group; one of 7 candidate blobs decrypts). The theorems quantify over "
            "blobs made by protect_offline naming the root key (nonce mode); public-key-mode ORIGINALS are covered by the correspondence corpus only. C04_benign_fields is a sufficiency "
            "statement for key identifier version, flag bits other than bit 0 and the names; that the ICV length INTEGER is benign is shown by examples and "
            "the campaign, not by a theorem; there is no 'only these fields' theorem.",
    "technique": "Coq proof under explicit ideal-primitive premises + exhaustive bit-flip correspondence",
}
ASSUMPTIONS = ["IdealLaws: AES-KW / AES-GCM decrypt only images of their encryption under the same key (INT-CTXT idealisation)",
               "NoForgery (premise about the modified blob): it carries no new valid wrap image under the KEK derived from ITS OWN key identifier and no new valid GCM image under the original CEK - this excludes modifiers who can predict that KEK (holders of the group public key in public-key mode; small-order DH public values: known finding F1)"]
PARTIAL = [
    "the theorems are about originals made by protect_offline naming the root key (nonce mode); originals in public-key mode (DH / ECDH) are covered by the tamper corpus, not by a theorem",
    "public-key mode authenticates no sender: a modifier holding the group public key, or using a DH public value of small order (known finding F1), makes the receiver derive a KEK the "
    "modifier knows; such modified blobs falsify the NoForgery premise, i.e. the theorem says nothing about them, and for F1 the property as written fails on the code",
    "C04_benign_fields: sufficiency only, for key identifier version / flag bits other than bit 0 / names; no theorem for the ICV length INTEGER or for 'only these fields'",
]
RULE = ("per configuration (4 hashes, positions, in-envelope and trailing layout): every single-bit flip (quick: every 3rd), byte insert/delete/substitute, truncations, two-site "
        "mutations; outcome = same plaintext | error bucket | needs-network; non-trivial = distinct outcome per distinct input; plus the real-crypto campaign on one blob")


def corpus(ctx: Ctx):
    out = []
    for hid, pos, trailing in ((4, (361, 17, 13), False), (2, (361, 31, 31), True), (1, (362, 0, 0), False)):
        out.append(([e2e.root_spec(hid)], hostile.valid_blob(hid=hid, pos=pos, trailing=trailing)))
    return out


def gen_cases(ctx: Ctx):
    cases = []
    corp = corpus(ctx)
    # structure-aware field substitutions (consistent lengths), with fields of a second valid blob carrying another plaintext
    other4 = hostile.valid_blob(hid=4, pos=(361, 17, 13), data=b"ANOTHER plaintext, protected separately", seed=99)
    for m in hostile.field_substitutions(corp[0][1], other4):
        cases.append([corp[0][0], m])
    for m in hostile.structural_mutations(corp[0][1]):
        cases.append([corp[0][0], m])
    for k, m in enumerate(hostile.param_byte_sweep(corp[0][1])):
        if ctx.thorough or k % 3 == 0:
            cases.append([corp[0][0], m])
    for n, (roots, blob) in enumerate(corp):
        step = 1 if ctx.thorough else (3 if n == 0 else 17)
        k = 0
        cases.append([roots, blob])
        for byte in range(len(blob)):
            for bit in range(8):
                k += 1
                if k % step:
                    continue
                m = bytearray(blob)
                m[byte] ^= 1 << bit
                cases.append([roots, bytes(m)])
        for _ in range(ctx.n(60, 600)):
            i, j = ctx.rng.randrange(len(blob)), ctx.rng.randrange(len(blob))
            m = bytearray(blob)
            m[i] ^= 1 << ctx.rng.randrange(8)
            m[j] ^= 1 << ctx.rng.randrange(8)
            cases.append([roots, bytes(m)])
            cases.append([roots, blob[:i] + bytes([ctx.rng.randrange(256)]) + blob[i:]])
            cases.append([roots, blob[:i] + blob[i + 1 :]])
            cases.append([roots, blob[:i]])
    return cases


def pred(arg, out):
    if isinstance(out, Err) or out is None:
        return None
    if bytes(out) != hostile.PLAIN:
        return "a modified blob decrypted to DIFFERENT plaintext: " + bytes(out)[:24].hex()
    return None


def units(ctx: Ctx, only=None):
    cases = [] if getattr(ctx, "replay_only", False) else gen_cases(ctx)
    # sweep=False: under the symbolic crypto a flipped bit inside a serialised ciphertext term is the serialisation of another valid
    # term, so "never another plaintext" is a property of the REAL primitives (oracle tamper.real), not of this world
    return [Unit("tamper.sym", "e2e.unprotect", cases, e2e.impl_unprotect, prop_pred=pred, bucket=bucket, sweep=False)]


def oracles(ctx: Ctx):
    from ..core import run_impl
    from ..val import dec, enc

    roots = [e2e.root_spec(4)]
    blob = hostile.valid_blob(hid=4, symbolic=False)
    n = 0
    same = 0
    step = 1 if ctx.thorough else 4
    k = 0
    for byte in range(len(blob)):
        for bit in range(8):
            k += 1
            if k % step:
                continue
            m = bytearray(blob)
            m[byte] ^= 1 << bit
            n += 1
            out = dec(run_impl(lambda a: e2e.impl_unprotect(a, symbolic=False), [roots, bytes(m)]))
            why = pred(None, out)
            if why:
                ctx.violation("failing-input", "oracle:tamper.real", {"unit": "tamper.real", "input": enc([roots, bytes(m)]), "why": why, "flip": [byte, bit]},
                              key="tamper.real")
                return
            if not isinstance(out, Err):
                same += 1
    other = hostile.valid_blob(hid=4, symbolic=False, data=b"ANOTHER plaintext, protected separately", seed=99)
    for m in list(hostile.param_byte_sweep(blob, both_layouts=ctx.thorough)) + list(hostile.field_substitutions(blob, other)):
        n += 1
        out = dec(run_impl(lambda a: e2e.impl_unprotect(a, symbolic=False), [roots, m]))
        why = pred(None, out)
        if why:
            ctx.violation("failing-input", "oracle:tamper.real", {"unit": "tamper.real", "input": enc([roots, m]), "why": why}, key="tamper.real")
            return
    # two blobs protected right after the HOST seeded the non-cryptographic `random` module with the same constant: fields of one
    # substituted into the other must still fail (the CEK and nonce must not come from a seedable generator)
    import random as _random

    try:
        import dpapi_ng as _d

        _random.seed(424242)
        a_blob = _d.ncrypt_protect_secret(hostile.PLAIN, hostile.SID, root_key_identifier=e2e.RKID, cache=e2e.mk_cache(roots))
        _random.seed(424242)
        b_blob = _d.ncrypt_protect_secret(b"ANOTHER plaintext, protected after the same seed", hostile.SID, root_key_identifier=e2e.RKID, cache=e2e.mk_cache(roots))
        for m in hostile.field_substitutions(a_blob, b_blob):
            n += 1
            out = dec(run_impl(lambda a: e2e.impl_unprotect(a, symbolic=False), [roots, m]))
            why = pred(None, out)
            if why:
                ctx.violation("failing-input", "oracle:tamper.real", {"unit": "tamper.real", "input": enc([roots, m]),
                                                                      "why": why + " (fields of a second blob, both protected after random.seed(constant) by the host)"},
                              key="tamper.real.seeded")
                return
    except Exception as exc:  # noqa: BLE001
        ctx.notes.append(f"tamper.real: seeded-host substitution family not built ({type(exc).__name__})")
    # key-aware forgeries (another plaintext under the same CEK, shortened tag, matching ICV length)
    fb, cek, iv = hostile.valid_blob_with_cek(hid=4)
    forged = 0
    if cek is not None:
        for what, m in hostile.key_aware_forgeries(fb, cek, iv, b"FORGED plaintext of another length!"):
            n += 1
            forged += 1
            out = dec(run_impl(lambda a: e2e.impl_unprotect(a, symbolic=False), [roots, m]))
            why = pred(None, out)
            if why:
                ctx.violation("failing-input", "oracle:tamper.real", {"unit": "tamper.real", "input": enc([roots, m]), "why": why + " (" + what + ")"},
                              key="tamper.real")
                return
    else:
        ctx.notes.append("tamper.real: the CEK could not be observed at _client.cek_generate; key-aware forgeries skipped")
    # alterations by a party that holds NO secret of the group: the blob re-targeted to public-key mode with a DH key blob of the
    # modifier's choosing (degenerate public values, the modifier's own group)
    from dpapi_ng._gkdi import FFCDHParameters

    rk = e2e.mk_cache(roots)._root_keys[e2e.RKID]
    gp = FFCDHParameters.unpack(rk.secret_parameters)
    keyless = 0
    for what, m in hostile.keyless_public_key_forgeries(blob, "sha512", gp.field_order, gp.generator, gp.key_length):
        n += 1
        keyless += 1
        out = dec(run_impl(lambda a: e2e.impl_unprotect(a, symbolic=False), [roots, m]))
        why = pred(None, out)
        if why:
            ctx.violation("failing-input", "oracle:tamper.real", {"unit": "tamper.real", "input": enc([roots, m]), "why": why + " (keyless: " + what + ")"},
                          key="tamper.real.keyless")
            return
    ctx.extra["keyless_forgeries"] = keyless
    # the same with a public value of small order r | p - 1 (7 and 13 for the RFC 5114 2.3 group load_key defaults to): one of the r
    # candidates decrypts. Listed in known_findings.txt (key tamper.real.subgroup): not repairable without the subgroup order
    sub = 0
    for r in (7, 13):
        for what, m in hostile.small_subgroup_forgeries(blob, "sha512", gp.field_order, gp.generator, gp.key_length, r):
            n += 1
            sub += 1
            out = dec(run_impl(lambda a: e2e.impl_unprotect(a, symbolic=False), [roots, m]))
            why = pred(None, out)
            if why:
                ctx.violation("failing-input", "oracle:tamper.real", {"unit": "tamper.real", "input": enc([roots, m]), "why": why + " (keyless: " + what + ")"},
                              key="tamper.real.subgroup")
                break
    ctx.extra["small_subgroup_forgeries"] = sub
    if keyless == 0 or sub == 0:
        ctx.violation("no-failing-input-found", "oracle:tamper.real",
                      {"why": f"the forgery families could not be built any more (keyless {keyless}, small-subgroup {sub}): the blob or key classes changed shape"},
                      key="tamper.real.families")
    ctx.oracle_runs += n
    ctx.extra["tamper_real"] = {"flips": n, "still_same_plaintext": same, "key_aware_forgeries": forged}


def _impl_real(a):
    return e2e.impl_unprotect(a, symbolic=False)


ORACLE_REPLAY = {"tamper.real": (_impl_real, pred)}


def search(ctx: Ctx):
    from ..core import run_impl
    from ..val import dec, enc

    tried = 0
    for c in gen_cases(ctx):
        tried += 1
        why = pred(c, dec(run_impl(e2e.impl_unprotect, c)))
        if why:
            return {"unit": "tamper.sym", "input": enc(c)[-3000:], "why": why, "tried": tried, "key": None}
    ctx.notes.append(f"search: {tried} modified blobs fail or return the original plaintext")
    return None
