"""C01 -- protect then unprotect returns the plaintext for every input, config and time."""
from __future__ import annotations

from .. import e2e, hostile, sym
from ..runner import Ctx, Unit
from ..val import Err

AREA = "e2e"
MANIFEST = {
    "text": "Coq theorems (coq/Properties/C01.v) about the executable composition model Model/Client.v (protect_offline / unprotect_offline / encrypt_blob / decrypt_blob over the "
            "blob codec of C06, the SID->SD builder of C08, the interval arithmetic of C09, the key chain of C02, the KEK derivation of C03 and the cache): for every crypto record "
            "satisfying the stated laws (key-wrap and GCM round trips, ECDH commutation), every plaintext, every well-formed SID, every clock value and every root key loaded, "
            "unprotect (protect x) = x, also after moving the ciphertext behind the envelope (LAPS layout) and with another cache holding the same root key. Tie: the model's protect "
            "output equals the implementation's blob byte for byte under the symbolic crypto, and the round trip is replayed through the public sync and async API for plaintext lengths "
            "0..70000, SID shapes, 4 hashes x {nonce, DH, ECDH_P256, ECDH_P384}, clock boundary tables and both layouts; the same with the real crypto.",
    "note": "Exact hypotheses of C01_roundtrip_offline: CryptoLaws c; the true root key loaded and any cached entry of the triple conforming to MS-GKDI (cache_ok - with a non-conforming cached envelope the round trip is FALSE, witness C01_nonconforming_cache_entry); well-formed SID; 0 <= time_ns (protect SUCCESS additionally needs L0 <= 2^31-1, i.e. time_ns < 7.9e25); draws of 32/12/32 octets; wrapped key and ciphertext shorter than 2^32; a KDF that never returns the empty string. Public-key modes (C01_roundtrip_pubkey, _pubkey_ecdh) are stated for encrypt_blob/decrypt_blob with the DC's envelopes; in DH mode the envelopes (the DC's and any cached one: cache_ok.eo_sparams) carry the root key's DH parameters and an ephemeral or group public value in {0, 1, p-1} is refused by the receiver since the repair of D16; the agreement theorems assume valid group elements (probability of a degenerate draw in the RFC 5114 group: 2^-256). Conditional on CryptoLaws (the `cryptography` primitives are modelled, not verified). Public-key modes need a DC reply: the harness supplies conforming envelopes (seed-key and public-key shapes) in place of the RPC (the RPC conversation itself is property C17).",
    "technique": "Coq proof by composition of the per-layer theorems under explicit crypto laws + byte-exact end-to-end correspondence",
}
ASSUMPTIONS = ["CryptoLaws: aes_key_unwrap(k, aes_key_wrap(k, x)) = x; AESGCM decrypt(encrypt(p)) = p; ECDH commutes; KDFs are functions",
               "the root key loaded into the cache is the one the blob was protected with"]
RULE = ("plaintext lengths {0,1,15,16,17,31,32,33,255,256,65535,65536,70000} x SID shapes (1..15 sub-authorities, values 0 and 2^32-1) x 4 hashes x clock values at and "
        "around L0/L1/L2 boundaries x in-envelope / trailing layout x sync / async (quick: a covering subset); DC-envelope round trips for nonce / DH / ECDH_P256 / ECDH_P384 x 4 hashes x "
        "positions incl. L2 = 31 and (0,0); non-trivial = all; distinct = distinct case text")

B = 360000000000
SIDS = ["S-1-5-18", "S-1-1-0", "S-1-5-21-2185496602-3367037166-1388177638-1103",
        "S-1-5-" + "-".join(["4294967295"] * 14), "S-1-0-0", "S-9-281474976710655-0-4294967295",
        "S-1-5-21-" + "-".join(str(i) for i in range(13))]
LENS = [0, 1, 15, 16, 17, 31, 32, 33, 255, 256]
BIG = [65535, 65536, 70000]


def clock_table():
    out = []
    for l0 in (361, 362):
        base = l0 * 1024 * B
        for t in (base - 1, base, base + 1, base + 32 * B - 1, base + 32 * B, base + B - 1, base + B, base + 17 * 32 * B + 13 * B + 5):
            out.append((t - hostile.EPOCH) * 100)
    return out


def draws(k, plen=32):
    return [bytes((k + i) % 256 for i in range(32)), bytes((k * 3 + i) % 256 for i in range(12)), bytes((k * 7 + i + 1) % 256 for i in range(plen))]


def pred_rt(arg, out):
    data = bytes(arg[2])
    if out is None or isinstance(out, Err):
        return f"protect failed: {out}"
    wire, pt = out
    if isinstance(pt, Err):
        return f"unprotect of the library's own blob failed with {pt.name}"
    if bytes(pt) != data:
        return "unprotect returned different bytes than were protected"
    return None


def gen_offline(ctx: Ctx):
    cases = []
    clocks = clock_table()
    k = 0
    for hid in (1, 2, 3, 4):
        roots = [e2e.root_spec(hid)]
        for n in LENS + (BIG if ctx.thorough else ([70000] if hid == 4 else [])):
            data = bytes((i * 31 + n) % 256 for i in range(n))
            for sid in SIDS:
                k += 1
                if n >= 65535:
                    if sid is not SIDS[2]:
                        continue
                elif not ctx.thorough and (k % 5) and n != 0:
                    continue
                ns = clocks[k % len(clocks)]
                cases.append([roots, draws(k), data, sid, e2e.RKID.bytes_le, ns, k % 4])
    for ns in clocks:
        for tr in (0, 1, 2, 3):
            k += 1
            cases.append([[e2e.root_spec(4)], draws(k), b"boundary", SIDS[2], e2e.RKID.bytes_le, ns, tr])
    return cases


def gen_env(ctx: Ctx):
    from dpapi_ng._blob import ProtectionDescriptor

    cases = []
    k = 0
    with sym.patched():
        for mode in ("seed", "DH", "ECDH_P256", "ECDH_P384"):
            for hid in (1, 2, 3, 4):
                for pos in ((361, 5, 7), (361, 5, 31), (361, 0, 0), (362, 31, 31), (361, 31, 0)):
                    for sid in (SIDS[2], SIDS[3]) if ctx.thorough else (SIDS[2],):
                        sd = ProtectionDescriptor.parse(sid).get_target_sd()
                        pe, ue = e2e.dc_envelopes(hid, sd, pos, mode)
                        for tr in (0, 1, 2, 3):
                            k += 1
                            if not ctx.thorough and k % 5:
                                continue
                            cases.append([pe, ue, draws(k, 32 if mode == "seed" else 8), bytes(range(k % 40)), sid, tr])
    return cases


def pred_env(arg, out):
    data = bytes(arg[3])
    if out is None or isinstance(out, Err):
        return f"protect failed: {out}"
    wire, pt = out
    if isinstance(pt, Err) or bytes(pt) != data:
        return f"blob protected with the DC's envelope does not decrypt to the plaintext with the authorised caller's envelope ({pt if isinstance(pt, Err) else 'different bytes'})"
    return None


def units(ctx: Ctx, only=None):
    if getattr(ctx, "replay_only", False):
        return [Unit("client.roundtrip.sym", "e2e.roundtrip", [], e2e.impl_roundtrip, prop_pred=pred_rt),
                Unit("client.roundtrip.env", "e2e.roundtrip_env", [], e2e.impl_roundtrip_env, prop_pred=pred_env)]
    return [Unit("client.roundtrip.sym", "e2e.roundtrip", gen_offline(ctx), e2e.impl_roundtrip, prop_pred=pred_rt),
            Unit("client.roundtrip.env", "e2e.roundtrip_env", gen_env(ctx), e2e.impl_roundtrip_env, prop_pred=pred_env)]


def real_cases(ctx: Ctx):
    """round trips with the REAL crypto (no model): offline nonce mode and DC envelopes of every mode"""
    from dpapi_ng._blob import ProtectionDescriptor

    out = []
    k = 0
    clocks = clock_table()
    for hid in (1, 2, 3, 4):
        for n in (0, 1, 16, 33, 70000 if hid == 4 else 300):
            k += 1
            out.append(("off", [[e2e.root_spec(hid)], None, bytes((i * 7) % 256 for i in range(n)), SIDS[k % len(SIDS)], e2e.RKID.bytes_le, clocks[k % len(clocks)], k % 4]))
    sd = ProtectionDescriptor.parse(SIDS[2]).get_target_sd()
    for mode in ("seed", "DH", "ECDH_P256", "ECDH_P384"):
        for hid in (1, 2, 3, 4) if ctx.thorough else (4, 2):
            for pos in ((361, 5, 7), (361, 5, 31)):
                k += 1
                pe, ue = e2e.dc_envelopes(hid, sd, pos, mode)
                out.append(("env", [pe, ue, None, b"real crypto round trip", SIDS[2], k % 4]))
    return out


def oracles(ctx: Ctx):
    from ..core import run_impl
    from ..val import dec, enc

    n = 0
    for kind, arg in real_cases(ctx):
        n += 1
        if kind == "off":
            out = dec(run_impl(lambda a: e2e.impl_roundtrip(a, symbolic=False), arg))
            why = pred_rt(arg, out)
        else:
            out = dec(run_impl(lambda a: e2e.impl_roundtrip_env(a, symbolic=False), arg))
            why = pred_env(arg, out)
        if why:
            ctx.violation("failing-input", "oracle:client.roundtrip.real", {"unit": "client.roundtrip.real", "kind": kind, "input": enc(arg), "why": why},
                          key="roundtrip.real:" + why[:40])
            break
    # "at whatever wall-clock time the protect call happens": a clock that ADVANCES on every read and crosses an L0 / L1 / L2
    # boundary during the protect call (a frozen test clock can never show two reads disagreeing)
    tn = 0
    for arg in ticking_cases(ctx):
        tn += 1
        out = dec(run_impl(impl_roundtrip_ticking, arg))
        if isinstance(out, Err) or bytes(out) != TICK_DATA:
            ctx.violation("failing-input", "oracle:client.roundtrip.ticking",
                          {"unit": "client.roundtrip.ticking", "input": enc(arg), "replay_unit": "ticking",
                           "why": f"protect while the clock moves from t0 by {arg[1]} ns per read (t0 = {arg[0]} ns): unprotect gives "
                                  f"{out if isinstance(out, Err) else 'different bytes'} instead of the plaintext"},
                          key="roundtrip.ticking")
            break
    # plaintext sizes at which the DER length of the content (and of every enclosing element) needs one more octet: 2^16 and 2^24
    # (the second is 16 MiB: real crypto only, both layouts, sync)
    bn = 0
    for size in BIG_SIZES if ctx.thorough else BIG_SIZES[-2:]:
        for trailing in (0, 1):
            bn += 1
            out = dec(run_impl(impl_roundtrip_big, [size, trailing]))
            why = _pred_big([size, trailing], out)
            if why:
                ctx.violation("failing-input", "oracle:client.roundtrip.big",
                              {"unit": "client.roundtrip.big", "input": enc([size, trailing]), "why": why}, key="roundtrip.big")
                break
    # histories: several protect calls at different instants on ONE cache, then every blob of the history is unprotected with that
    # cache and with a fresh one (what an earlier or later protect leaves in the cache must not cost any blob its round trip)
    from .. import prothist

    prothist.run_oracle(ctx, prothist.pred_roundtrip, "client.roundtrip.history")
    ctx.oracle_runs += n + tn + bn
    ctx.extra["ticking_roundtrips"] = tn
    ctx.extra["big_roundtrips"] = bn


TICK_DATA = b"protected while the clock ticks"
BIG_SIZES = [65535 - 16, 65536, 2 ** 24 - 17, 2 ** 24 - 16, 2 ** 24 + 5]


def impl_roundtrip_big(arg):
    """real crypto, root key loaded: protect a plaintext of `size` octets (pattern i % 251), optionally re-laid out with the ciphertext
    trailing the envelope, unprotect; returns [length, sha256 of the result] (the plaintext itself would be 16 MiB of text)"""
    import hashlib

    import dpapi_ng
    from dpapi_ng._blob import DPAPINGBlob

    size, trailing = arg
    data = bytes(i % 251 for i in range(4096)) * (size // 4096 + 1)
    data = data[:size]
    cache = e2e.mk_cache([e2e.root_spec(4)])
    blob = dpapi_ng.ncrypt_protect_secret(data, SIDS[0], root_key_identifier=e2e.RKID, cache=cache)
    if trailing:
        blob = DPAPINGBlob.unpack(blob).pack(blob_in_envelope=False)
    out = dpapi_ng.ncrypt_unprotect_secret(blob, cache=e2e.mk_cache([e2e.root_spec(4)]))
    return [len(out), hashlib.sha256(out).digest() == hashlib.sha256(data).digest()]


def _pred_big(arg, out):
    size, trailing = arg
    if isinstance(out, Err) or out is None:
        return f"a plaintext of {size} octets ({'trailing' if trailing else 'in-envelope'} layout) does not round-trip: {out}"
    if list(out) != [size, 1] and list(out) != [size, True]:
        return f"a plaintext of {size} octets comes back as {out[0]} octets, equal = {out[1]}"
    return None


def _pred_ticking(arg, out):
    if isinstance(out, Err) or out is None or bytes(out) != TICK_DATA:
        return f"unprotect gives {out if isinstance(out, Err) else 'different bytes'} instead of the plaintext"
    return None


def impl_roundtrip_ticking(arg):
    """real crypto, root key loaded, sync (flavour 0) or async (1): protect under a clock that advances `step` ns per read, then unprotect"""
    import asyncio
    import time

    import dpapi_ng

    t0, step, flavour = arg
    reads = []

    def clock():
        reads.append(t0 + len(reads) * step)
        return reads[-1]

    cache = e2e.mk_cache([e2e.root_spec(4)])
    real = time.time_ns
    time.time_ns = clock
    try:
        if flavour:
            blob = asyncio.run(dpapi_ng.async_ncrypt_protect_secret(TICK_DATA, SIDS[0], root_key_identifier=e2e.RKID, cache=cache))
        else:
            blob = dpapi_ng.ncrypt_protect_secret(TICK_DATA, SIDS[0], root_key_identifier=e2e.RKID, cache=cache)
    finally:
        time.time_ns = real
    cache2 = e2e.mk_cache([e2e.root_spec(4)])
    return dpapi_ng.ncrypt_unprotect_secret(blob, cache=cache2)


def ticking_cases(ctx: Ctx):
    from .c09 import D0, D1, D2, EPOCH, ns_of_filetime

    cases = []
    k = 0
    for div, k0 in ((D0, EPOCH // D0 + 1), (D1, (EPOCH + 20000 * D2) // D1 + 1), (D2, (EPOCH + 20000 * D2) // D2 + 1)):
        for kk in range(k0, k0 + ctx.n(3, 30)):
            for before in (1, 5, 15, 25):
                for step in (300, 1000, 2500):
                    k += 1
                    cases.append([ns_of_filetime(kk * div - before), step, k % 2])
    return cases


def _hist_replay():
    from .. import prothist

    return prothist.impl_history, prothist.pred_roundtrip


ORACLE_REPLAY = {"client.roundtrip.history": ((lambda a: _hist_replay()[0](a)), (lambda a, o: _hist_replay()[1](a, o))),
                 "client.roundtrip.ticking": (lambda a: impl_roundtrip_ticking(a), _pred_ticking),
                 "client.roundtrip.big": (lambda a: impl_roundtrip_big(a), _pred_big)}


def search(ctx: Ctx):
    from ..core import run_impl
    from ..val import dec, enc

    tried = 0
    for c in gen_offline(ctx):
        tried += 1
        why = pred_rt(c, dec(run_impl(e2e.impl_roundtrip, c)))
        if why:
            return {"unit": "client.roundtrip.sym", "input": enc(c)[-3000:], "why": why, "tried": tried, "key": None}
    for c in gen_env(ctx):
        tried += 1
        why = pred_env(c, dec(run_impl(e2e.impl_roundtrip_env, c)))
        if why:
            return {"unit": "client.roundtrip.env", "input": enc(c)[-3000:], "why": why, "tried": tried, "key": None}
    ctx.notes.append(f"search: {tried} round trips return the plaintext")
    return None
