"""C19 -- every encryption uses fresh CEK, nonce and key-identifier randomness."""
from __future__ import annotations

import os
import time

from .. import e2e, hostile, sym
from ..runner import Ctx, Unit
from ..val import Err

AREA = "e2e"
MANIFEST = {
    "text": "Coq theorems (coq/Properties/C19.v) about the composition model Model/Client.v, in which the three os.urandom draws of a protect call are explicit arguments: the blob "
            "carries the second draw as the GCM nonce, the third as the key-identifier nonce (nonce mode; ephemeral private key in public-key mode), the first is the CEK used for both "
            "the content encryption and the key wrap, each unmodified and used nowhere else; over any sequence of N protect calls fed from a stream the windows of the stream are "
            "pairwise disjoint, so with distinct draws no (key, nonce) pair repeats and equal plaintexts give different ciphertexts (ideal GCM). Tie: the real library is run with "
            "os.urandom replaced by a recording stream over sequences of protect calls (equal and different arguments, cache reuse): the number, order and sizes of the draws and the "
            "resulting blob bytes equal the model's; shape kernels pin the generate_key / urandom call sites.",
    "note": "The symbolic instance sym does not satisfy IdealLaws literally (4-byte length prefixes wrap at 2^32: sym_not_ideal); the examples use the guarded instance symg (= sym on byte strings shorter than 2^32) for which symg_laws / symg_ideal are proved. A global distinctness hypothesis on fixed-length draws is unsatisfiable, so C19_fresh_sequence has a bounded variant restricted to the draws a history actually makes. That disjoint windows of the OS RNG are distinct byte strings is an assumption about os.urandom (RNG quality is outside the model). Distinctness of ephemeral PUBLIC keys needs injectivity of x -> g^x on the drawn range: partial.",
    "technique": "Coq proof (data-flow of explicit draws through the composition model; induction over call sequences) + recorded-RNG correspondence",
}
PARTIAL = ["C19_pubkey_partial: distinctness of the ephemeral PUBLIC keys of two calls needs injectivity of x -> g^x (resp. x -> x.G) on the drawn range; proved: the ephemeral private keys are distinct fresh draws",
           "the history theorems (protect_many, C19_fresh_sequence, C19_fresh_blobs) range over OFFLINE protect calls that name the root key (nonce mode, three draws of 32 / 12 / 32 octets per call): "
           "calls without a root key id (always a cache miss offline), online calls and public-key-mode calls inside a history are not in the theorems; for a single call in public-key mode "
           "C19_pubkey_partial and C19_draw_sites apply, and sequences in both modes (incl. private key lengths 9 / 255 / 521) are exercised on the implementation by fresh.stream / fresh.stream.pub",
           "C19_windows / C19_windows_disjoint hold by construction of protect_many (the draw cursor advances by 3): that the LIBRARY never reuses or memoises a draw is what the fresh.stream units and the "
           "regenerated draw-site kernels (k_cek_generate_draws, k_encrypt_blob_flow, flow ties of cek_generate / _encrypt_blob / new_kek) carry"]
ASSUMPTIONS = ["os.urandom returns independent fresh bytes on every call (distinct windows are distinct)",
               "AESGCM.generate_key(256) is os.urandom(32)"]
RULE = ("sequences of 2..40 (thorough 200) protect calls on one cache with equal and different arguments (plaintext, SID, root key given or not, clock), every os.urandom call "
        "served from a recorded counter stream; non-trivial = all; distinct = distinct sequence text. Plus N = 300 (thorough 2000) calls with the real RNG: all CEK-wraps, nonces, key infos distinct")


def stream(i: int, n: int) -> bytes:
    return (b"R" + i.to_bytes(3, "big")) * (n // 4) + bytes([i % 251]) * (n % 4)


def gen_cases(ctx: Ctx):
    cases = []
    roots = [e2e.root_spec(4)]
    ns0 = hostile.ns_of_pos(361, 17, 13)
    ctr = 0
    for seq_len in ([2, 3, 5, 8, 40] if not ctx.thorough else [2, 3, 5, 8, 40, 200]):
        for variant in range(ctx.n(3, 6)):
            calls = []
            for j in range(seq_len):
                same = variant == 0
                data = b"same plaintext" if same else bytes([j % 256]) * (j % 40)
                sid = hostile.SID if (same or j % 3) else "S-1-5-18"
                ns = ns0 if same else ns0 + j * 36000000000000 * (variant % 2)
                draws = [stream(ctr, 32), stream(ctr + 1, 12), stream(ctr + 2, 32)]
                ctr += 3
                calls.append([draws, data, sid, e2e.RKID.bytes_le, ns])
            cases.append([roots, calls])
    return cases


def pred(arg, out):
    """The property on the implementation's own output (symbolic crypto makes every field readable)."""
    from dpapi_ng._asn1 import ASN1Reader
    from dpapi_ng._blob import DPAPINGBlob

    roots, calls = arg
    if out is None or isinstance(out, Err) or len(out) != len(calls):
        return f"protect sequence failed: {str(out)[:80]}"
    seen_cek, seen_nonce, seen_ki, seen_pair = set(), set(), set(), set()
    for (draws, data, sid, rkid, ns), blob in zip(calls, out):
        if isinstance(blob, Err):
            return f"a protect call failed or reused randomness ({blob.name})"
        b = DPAPINGBlob.unpack(bytes(blob))
        nonce = ASN1Reader(b.enc_content_parameters).read_sequence().read_octet_string()
        wrapped = sym.sym_parse(3, b.enc_cek)
        content = sym.sym_parse(4, b.enc_content)
        if not wrapped or not content:
            return "blob fields are not the symbolic images expected"
        cek = wrapped[1]
        ki = b.key_identifier.key_info
        if bytes(nonce) != bytes(draws[1]) or bytes(cek) != bytes(draws[0]) or bytes(ki) != bytes(draws[2]):
            return "CEK / GCM nonce / key-identifier nonce are not the fresh draws of this call, used unmodified"
        if content[0] != cek or content[1] != bytes(nonce):
            return "content was not encrypted under this call's CEK and nonce"
        if cek in seen_cek or bytes(nonce) in seen_nonce or bytes(ki) in seen_ki or (cek, bytes(nonce)) in seen_pair:
            return "a CEK, nonce or key identifier nonce was used twice"
        seen_cek.add(cek)
        seen_nonce.add(bytes(nonce))
        seen_ki.add(bytes(ki))
        seen_pair.add((cek, bytes(nonce)))
    return None


def gen_pub_cases(ctx: Ctx):
    """sequences of protect calls by a caller who only receives the group PUBLIC key (DH small group / ECDH): the third draw is the ephemeral private key"""
    from dpapi_ng._blob import ProtectionDescriptor

    cases = []
    ctr = 1000
    with sym.patched():
        sd = ProtectionDescriptor.parse(hostile.SID).get_target_sd()
        for mode, priv_len in (("DH", 64), ("ECDH_P256", 64), ("ECDH_P384", 64), ("ECDH_P384", 521), ("DH", 9), ("ECDH_P256", 255)):
            penv, _ = e2e.dc_envelopes(4, sd, (361, 31, 30), mode, priv_len=priv_len)
            for seq_len in (2, 3, 6):
                calls = []
                for j in range(seq_len):
                    draws = [stream(ctr, 32), stream(ctr + 1, 12), stream(ctr + 2, -(-priv_len // 8))]
                    ctr += 3
                    calls.append([draws, b"same plaintext", hostile.SID])
                cases.append([penv, calls])
    return cases


def pred_pub(arg, out):
    from dpapi_ng._asn1 import ASN1Reader
    from dpapi_ng._blob import DPAPINGBlob

    penv, calls = arg
    if out is None or isinstance(out, Err) or len(out) != len(calls):
        return f"protect sequence failed: {str(out)[:80]}"
    seen_ki, seen_nonce, seen_cek = set(), set(), set()
    for (draws, data, sid), blob in zip(calls, out):
        if isinstance(blob, Err):
            return f"a protect call failed or reused randomness ({blob.name})"
        b = DPAPINGBlob.unpack(bytes(blob))
        nonce = bytes(ASN1Reader(b.enc_content_parameters).read_sequence().read_octet_string())
        ki = bytes(b.key_identifier.key_info)
        wrapped = sym.sym_parse(3, b.enc_cek)
        cek = wrapped[1] if wrapped else None
        if nonce != bytes(draws[1]) or cek != bytes(draws[0]):
            return "CEK / GCM nonce are not the fresh draws of this call"
        if ki in seen_ki:
            return "the ephemeral public key in the key identifier repeats across protect calls"
        if nonce in seen_nonce or cek in seen_cek:
            return "a CEK or nonce was used twice"
        seen_ki.add(ki)
        seen_nonce.add(nonce)
        seen_cek.add(cek)
    return None


def units(ctx: Ctx, only=None):
    replaying = getattr(ctx, "replay_only", False)
    cases = [] if replaying else gen_cases(ctx)
    pub = [] if replaying else gen_pub_cases(ctx)
    return [Unit("fresh.stream", "e2e.protect_seq", cases, e2e.impl_protect_seq, prop_pred=pred),
            Unit("fresh.stream.pub", "e2e.encrypt_seq", pub, e2e.impl_encrypt_seq, prop_pred=pred_pub)]


def oracles(ctx: Ctx):
    """real RNG, real crypto: N protect calls with identical arguments -> all nonces / key infos / wrapped CEKs / ciphertexts distinct (a test)"""
    import dpapi_ng
    from dpapi_ng._asn1 import ASN1Reader
    from dpapi_ng._blob import DPAPINGBlob

    cache = e2e.mk_cache([e2e.root_spec(4)])
    n = ctx.n(300, 2000)
    seen = {"nonce": set(), "ki": set(), "enc_cek": set(), "content": set()}
    import random as _random

    for j in range(n):
        if j % 2:
            # a host application that seeds the (non-cryptographic) `random` module must not influence the library's draws
            _random.seed(20240229)
        b = DPAPINGBlob.unpack(dpapi_ng.ncrypt_protect_secret(b"same", hostile.SID, root_key_identifier=e2e.RKID, cache=cache))
        vals = {"nonce": bytes(ASN1Reader(b.enc_content_parameters).read_sequence().read_octet_string()), "ki": bytes(b.key_identifier.key_info),
                "enc_cek": bytes(b.enc_cek), "content": bytes(b.enc_content)}
        for k, v in vals.items():
            if v in seen[k]:
                ctx.violation("failing-input", "oracle:fresh.real", {"unit": "fresh.real", "why": f"{k} repeated within {n} protect calls with identical arguments (every second call after random.seed(constant) by the host)"},
                              key="fresh.real:" + k)
                return
            seen[k].add(v)
    ctx.oracle_runs += n


def search(ctx: Ctx):
    from ..core import run_impl
    from ..val import dec, enc

    tried = 0
    for c in gen_cases(ctx):
        tried += 1
        why = pred(c, dec(run_impl(e2e.impl_protect_seq, c)))
        if why:
            return {"unit": "fresh.stream", "input": enc(c)[-3000:], "why": why, "tried": tried, "key": None}
    for c in gen_pub_cases(ctx):
        tried += 1
        why = pred_pub(c, dec(run_impl(e2e.impl_encrypt_seq, c)))
        if why:
            return {"unit": "fresh.stream.pub", "input": enc(c)[-3000:], "why": why, "tried": tried, "key": None}
    ctx.notes.append(f"search: {tried} protect sequences use fresh draws unmodified")
    return None
