"""C18 -- endpoint-mapper replies: right port if well-formed, bounded work for any reply."""
from __future__ import annotations

import types
import typing as t

from .. import rpc_util as R
from ..runner import Ctx, Unit
from ..val import Err
from . import c12

AREA = "rpc"

MANIFEST = {
    "text": "Coq theorems over the Gallina model of _epm.py and _client._process_ept_map_result (padding kernels, referent skip, count guard and status test "
            "regenerated from the source): for the reply produced by an independent NDR64 reference marshaller (Spec/Ndr64Epm.v: running-offset alignment, "
            "C706 tower encoding) from any tower list and status, the client decodes every tower and floor as sent and returns the port of the first TCP floor "
            "in tower order, ValueError for a non-zero status or no TCP floor; for every byte string the decoder returns without exhausting fuel len+1, "
            "its ticks are at most len+1 and it keeps at most len/8 towers. Tie: kernels + correspondence (model vs library on reference replies built by a "
            "second, Python reference encoder; hostile counts under an interpreter step budget).",
    "note": "The reference encoder is calibrated on the captured Windows reply of tests/test_epm.py (byte-identical). Referent identifiers are not interpreted by the client.",
    "technique": "Coq proof (alignment invariant over the running NDR64 buffer, list induction, lia over regenerated kernels) + differential correspondence",
}

ASSUMPTIONS = c12.ASSUMPTIONS[:1] + [
    "NDR64 layout of ept_map's out parameters as read from MS-RPCE 2.2.5 / C706 (context handle 20 octets, 8-octet conformance/offset/count/pointers, deferred pointees, conformant twr_t)",
    "the interpreter step budget (sys.settrace line events, 3000 + 40*len) is a measurement supporting the tick model, not a proof about CPython",
]
RULE = ("reference replies for 0..6 towers x every tower-length residue mod 8 x TCP floor position (none/first/middle/last tower and floor) x unknown floor protocols x "
        "status in {0, 0x16c9a0d6, 1, 2^32-1} x entry handle on/off, plus seeded random towers; hostile replies: tower counts 2^40, 2^63, 2^64-1 and counts just over what fits, "
        "floor counts up to 65535, truncations and mutations of valid replies; non-trivial = a port was returned or a distinct error class; distinct = distinct input text")

PARTIAL: t.List[str] = [
    "C18_linear bounds ticks and kept towers for replies that decode (Ok); for replies that raise, the theorem gives fuel sufficiency "
    "(no loop exceeds length + 1 iterations, count guard first) and the step budget of epm.hostile measures the rest",
]


# ---------------------------------------------------------------------------------------------------
# independent NDR64 reference encoder in Python (running buffer, alignment from the real offset)
# ---------------------------------------------------------------------------------------------------
def _align(buf: bytearray, k: int) -> None:
    while len(buf) % k:
        buf.append(0)


def ref_floor(p: int, lhs: bytes, rhs: bytes) -> bytes:
    return (1 + len(lhs)).to_bytes(2, "little") + bytes([p]) + lhs + len(rhs).to_bytes(2, "little") + rhs


def ref_tower(floors) -> bytes:
    return len(floors).to_bytes(2, "little") + b"".join(ref_floor(p, bytes(l), bytes(r)) for p, l, r in floors)


def ref_reply(handle, max_towers: int, towers, status: int) -> bytes:
    buf = bytearray()
    if handle is None:
        buf += b"\x00" * 20
    else:
        buf += handle[0].to_bytes(4, "little") + bytes(handle[1])
    _align(buf, 4)
    buf += len(towers).to_bytes(4, "little")
    for v in (max_towers, 0, len(towers)):
        _align(buf, 8)
        buf += v.to_bytes(8, "little")
    for i in range(len(towers)):
        _align(buf, 8)
        buf += (3 + i).to_bytes(8, "little")
    for tw in towers:
        octets = ref_tower(tw)
        _align(buf, 8)
        buf += len(octets).to_bytes(8, "little")
        _align(buf, 4)
        buf += len(octets).to_bytes(4, "little")
        buf += octets
    _align(buf, 4)
    buf += status.to_bytes(4, "little")
    return bytes(buf)


def expected_port(towers, status):
    if status != 0:
        return Err("ValueError")
    for tw in towers:
        for p, lhs, rhs in tw:
            if p == 7:
                return int.from_bytes(bytes(rhs), "big")
    return Err("ValueError")


def expected_floor(p, lhs, rhs):
    lhs, rhs = bytes(lhs), bytes(rhs)
    if p == 7:
        return [1, 7, lhs, rhs, int.from_bytes(rhs, "big")]
    if p == 9:
        return [2, 9, lhs, rhs, int.from_bytes(rhs, "big")]
    if p == 11:
        return [3, 11, lhs, rhs, int.from_bytes(rhs, "little")]
    if p == 13:
        return [4, 13, lhs, rhs, lhs[:16], int.from_bytes(lhs[16:18], "little"), int.from_bytes(rhs, "little")]
    return [0, p, lhs, rhs]


# ---------------------------------------------------------------------------------------------------
# implementation side
# ---------------------------------------------------------------------------------------------------
def _process(b: bytes):
    from dpapi_ng._client import _process_ept_map_result

    from ..core import classify

    try:
        return R.run_budgeted(lambda: _process_ept_map_result(types.SimpleNamespace(stub_data=b)), R.step_budget(len(b)))
    except Exception as exc:  # noqa: BLE001
        return classify(exc)


def impl_reply(arg):
    rpc, epm, _pdu = R.L()
    from ..core import classify

    handle, max_towers, towers, status = arg
    b = ref_reply(handle, max_towers, towers, status)
    try:
        fields = R.v_ept_map_result(R.run_budgeted(lambda: epm.EptMapResult.unpack(b), R.step_budget(len(b))))
    except Exception as exc:  # noqa: BLE001
        fields = classify(exc)
    return [b, _process(b), fields]


def impl_process(b):
    r = _process(bytes(b))
    if isinstance(r, Err):
        if r.name == "OutOfFuel":
            raise R.BudgetExceeded()
        raise {"ValueError": ValueError, "IndexError": IndexError, "KeyError": KeyError, "TypeError": TypeError,
               "OverflowError": OverflowError}.get(r.name, RuntimeError)(r.name)
    return r


def pred_reply(arg, out):
    handle, max_towers, towers, status = arg
    if out is None or isinstance(out, Err):
        return f"raised {out}"
    b, port, fields = out
    if bytes(b) != ref_reply(handle, max_towers, towers, status):
        return None  # harness problem, not the library's
    want = expected_port(towers, status)
    if isinstance(port, Err) and port.name == "OutOfFuel":
        return "processing the reference reply did not finish within the step budget"
    if port != want:
        return f"client returned {port!r} for a reply whose first TCP floor / status say {want!r}"
    if isinstance(fields, Err):
        return f"EptMapResult.unpack raised {fields} on the reference reply"
    exp = [None if handle is None else [handle[0], bytes(handle[1])],
           [[expected_floor(*f) for f in tw] for tw in towers], status]
    if c12._canon(fields) != c12._canon(exp):
        return "towers / floors are not decoded as sent"
    return None


# ---------------------------------------------------------------------------------------------------
# generators
# ---------------------------------------------------------------------------------------------------
def g_sfloor(rng, kind):
    if kind == "tcp":
        return [7, b"", rng.choice([135, 49152, 65535, 0, rng.randrange(65536)]).to_bytes(2, "big")]
    if kind == "ip":
        return [9, b"", R.rbytes(rng, 4)]
    if kind == "rpc":
        return [11, b"", bytes([rng.choice([0, 1]), 0])]
    if kind == "uuid":
        return [13, R.rbytes(rng, 16) + rng.choice([0, 1, 2]).to_bytes(2, "little"), b"\x00\x00"]
    proto = rng.choice([p for p in range(256) if p not in (7, 9, 11, 13)])
    return [proto, R.rbytes(rng, rng.randrange(6)), R.rbytes(rng, rng.randrange(6))]


def g_stower(rng, residue, tcp_pos, nfloors):
    """tower with nfloors floors (tcp at tcp_pos or nowhere) and a filler floor choosing the length residue mod 8"""
    fl = []
    for j in range(nfloors):
        fl.append(g_sfloor(rng, "tcp") if tcp_pos == j else g_sfloor(rng, rng.choice(["ip", "rpc", "uuid", "unk", "unk"])))
    base = len(ref_tower(fl))
    for pad in range(8):
        if (base + 5 + pad) % 8 == residue:
            fl.append([0x21, R.rbytes(rng, pad), b""])
            break
    return fl


def gen_replies(ctx: Ctx):
    rng = ctx.rng
    out = []
    statuses = [0, 0, 0, 0x16C9A0D6, 1, 2 ** 32 - 1]
    k = 0
    for nt in range(0, 7):
        for res in range(8):
            for tcp_tower in ([None] + list(range(nt)))[: ctx.n(3, 8)] if nt else [None]:
                k += 1
                towers = []
                for j in range(nt):
                    nfl = (k + j) % 5
                    pos = (k % (nfl or 1)) if (tcp_tower == j and nfl) else None
                    towers.append(g_stower(rng, (res + j) % 8, pos, nfl))
                handle = [rng.choice([0, 1]), R.g_uuid(rng)] if k % 4 == 0 else None
                out.append([handle, rng.choice([nt, 4, 500]), towers, statuses[k % len(statuses)]])
    # the captured Windows shape: three towers uuid,uuid,rpc,tcp,ip
    std = lambda port: [g_sfloor(rng, "uuid"), g_sfloor(rng, "uuid"), g_sfloor(rng, "rpc"), [7, b"", port.to_bytes(2, "big")], g_sfloor(rng, "ip")]
    out.append([None, 4, [std(49664), std(49664), std(49664)], 0])
    # TCP floors with odd rhs lengths (port is whatever big-endian integer the octets spell)
    for rhs in (b"", b"\x01", b"\x00\x87", b"\x01\x02\x03"):
        out.append([None, 1, [[[7, b"", rhs]]], 0])
    for _ in range(ctx.n(60, 3000)):
        nt = rng.randrange(7)
        towers = [g_stower(rng, rng.randrange(8), rng.choice([None, 0, 1, 2]), rng.randrange(6)) for _ in range(nt)]
        out.append([None if rng.random() < .7 else [rng.randrange(2 ** 32), R.g_uuid(rng)], rng.randrange(501), towers,
                    rng.choice(statuses)])
    return out


def gen_hostile(ctx: Ctx):
    rng = ctx.rng
    base52 = b"\x00" * 20 + (1).to_bytes(4, "little") + (4).to_bytes(8, "little") + b"\x00" * 8
    out = []
    for cnt in (2 ** 40, 2 ** 63, 2 ** 64 - 1, 2 ** 32, 2 ** 16, 1000, 2, 1, 0):
        out.append(base52 + cnt.to_bytes(8, "little") + b"\x00" * 4)                  # the 52-byte reply of the property text
        out.append(base52 + cnt.to_bytes(8, "little") + b"\x00" * 8 * min(cnt, 64) + b"\x00" * 4)
    valid = [ref_reply(*c) for c in gen_replies(ctx)[:: max(1, ctx.n(6, 1))]]
    for b in valid[:80]:
        n = len(b)
        for cnt in (n // 8, n // 8 + 1, (n - 48) // 8, (n - 48) // 8 + 1, 2 ** 40):
            out.append(b[:40] + max(cnt, 0).to_bytes(8, "little") + b[48:])
        if n > 62:
            out.append(b[:60] + b"\xff\xff" + b[62:])                                 # floor count 65535 of the first tower
        out.append(b[: n // 2])
        out.append(b[: n - 3])
        out.append(c12.mutate(rng, b))
        out.append(c12.mutate(rng, c12.mutate(rng, b)))
    for _ in range(ctx.n(100, 3000)):
        out.append(R.rbytes(rng, rng.randrange(0, 200)))
    out += [b"", b"\x00" * 47, b"\x00" * 48, b"\xff" * 48, b"\xff" * 52, b"\x00" * 52]
    return out


def units(ctx: Ctx, only=None):
    replaying = getattr(ctx, "replay_only", False)
    us = []
    if only in (None, "epm.reply"):
        us.append(Unit("epm.reply", "epm.reply", [] if replaying else gen_replies(ctx), impl_reply, prop_pred=pred_reply))
    if only in (None, "epm.hostile"):
        us.append(Unit("epm.hostile", "epm.process", [] if replaying else gen_hostile(ctx), impl_process,
                       prop_pred=c12.pred_budget, bucket=c12.bucket))
    if only in (None, "epm.result.arbitrary"):
        us.append(Unit("epm.result.arbitrary", "epm.result.unpack", [] if replaying else gen_hostile(ctx)[:: ctx.n(3, 1)],
                       c12._dec("eptres"), prop_pred=c12.pred_budget, bucket=c12.bucket))
    return us


def oracles(ctx: Ctx):
    """calibration of the reference encoder on the captured Windows reply: re-encoding its decoded towers is byte-identical"""
    rpc, epm, _pdu = R.L()
    n = 0
    for b in R.captured_bytes():
        if len(b) < 100 or b[:20] != b"\x00" * 20:
            continue
        try:
            m = epm.EptMapResult.unpack(b)
        except Exception:  # noqa: BLE001
            continue
        if not m.towers:
            continue
        towers = [[[f.protocol.value, bytes(f.lhs), bytes(f.rhs)] for f in tw] for tw in m.towers]
        mx = int.from_bytes(b[24:32], "little")
        again = ref_reply(None, mx, towers, m.status)
        ctx.oracle_runs += 1
        n += 1
        if again != b:
            ctx.violation("no-failing-input-found", "oracle:reference-encoder-calibration",
                          {"why": "the Python NDR64 reference does not reproduce the captured Windows ept_map reply", "input": "b" + b.hex()[:200]})
    ctx.extra["reference_calibrated_on_captured_replies"] = n


def search(ctx: Ctx):
    from ..core import run_impl
    from ..val import dec, enc

    tried = 0
    for u in units(ctx):
        for c in u.cases:
            tried += 1
            out = dec(run_impl(u.impl, c))
            why = u.prop_pred(c, out) if u.prop_pred else None
            if why:
                return {"unit": u.name, "input": enc(c), "why": why, "observed": repr(out)[:300], "tried": tried, "key": None}
    ctx.notes.append(f"search: {tried} replies satisfy the property on the implementation")
    return None
