"""C14 -- replies reassemble identically under any TCP segmentation; EOF is an error."""
from __future__ import annotations

import asyncio
import itertools

from .. import sym
from ..runner import Ctx, Unit
from ..val import Err

AREA = "client"
MANIFEST = {
    "text": "Coq theorems over an executable model of the receive loops of SyncRpcClient._send_pdu / AsyncRpcClient._send_pdu: for EVERY segmentation schedule (unbounded), "
            "every reply with an acceptable header and frag_len = size, and every trailing stream content, exactly the reply's bytes are reassembled in at most len(reply) reads; "
            "if the stream ends after k < len(reply) bytes (k = 0 included) the result is EOFError after at most k+1 reads (sync) / IncompleteReadError (async). "
            "Tie to the code: differential runs of the real clients over a scripted socket / a real asyncio.StreamReader fed chunk by chunk (all partitions into <= 3 chunks at every offset, EOF at every offset).",
    "note": "The model of the loops is hand-written; tie by correspondence plus regenerated kernels: the sync header loop written with the regenerated guard / requested size IS the model's read-exactly loop (C14_header_loop_is_model), the async sizes and the statement skeletons of both functions are regenerated (C14_kernels); the buffers are filled through memoryview aliases, which the whole-function flow semantics cannot express, so there is no flow tie for these two functions. Assumes socket.recv/recv_into return 1..n bytes or 0 only at EOF, and StreamReader.readexactly returns exactly n bytes or raises IncompleteReadError; OS/asyncio delivery is not modelled.",
    "technique": "Coq proof (induction on bytes still missing, any schedule) + exhaustive small-partition correspondence",
}
ASSUMPTIONS = [
    "socket.recv(n)/recv_into(view) return between 1 and n bytes, or nothing only at end of stream",
    "asyncio.StreamReader.readexactly(n) returns exactly n bytes or raises IncompleteReadError",
]
RULE = ("four reply kinds (bind_ack, alter_context_resp, response, fault) of several sizes; all partitions into <= 3 chunks at every byte offset (thinned for the larger "
        "sizes in the quick tier), random finer partitions, EOF at every offset incl. 0 under coarse and fine schedules, a following PDU in the stream, malformed headers; "
        "non-trivial = every case; distinct = distinct (stream, schedule)")


class Budget(Exception):
    pass


class ScriptSock:
    def __init__(self, data: bytes, sched, budget: int):
        self.data, self.pos, self.sched, self.reads, self.budget = bytes(data), 0, list(sched), 0, budget
        self.sent = []

    def sendall(self, b):
        self.sent.append(bytes(b))

    def _take(self, n):
        self.reads += 1
        if self.reads > self.budget:
            raise sym.BudgetExceeded("read budget exceeded (client spins on a closed connection)")
        if self.pos >= len(self.data):
            return b""
        chunk = max(1, self.sched.pop(0)) if self.sched else n
        k = min(n, chunk)
        out = self.data[self.pos : self.pos + k]
        self.pos += len(out)
        return out

    def recv(self, n, *a):
        return self._take(n)

    def recv_into(self, view, *a):
        d = self._take(len(view))
        view[: len(d)] = d
        return len(d)

    def shutdown(self, *a):
        pass

    def close(self):
        pass


def _request_pdu(client):
    req, _ = client._create_request(0, 0, b"")
    return req


def impl_sync(arg):
    from dpapi_ng._rpc._client import SyncRpcClient
    from dpapi_ng._rpc._request import Response

    stream, sched = arg
    sock = ScriptSock(stream, sched, budget=4 * len(stream) + 40)

    class Probe(SyncRpcClient):
        def _process_response(self, response, pdu_header, resp_type, encrypt_offsets=None):
            return bytes(response)

    c = Probe(sock)
    try:
        raw = c._send_pdu(_request_pdu(c), Response)
        return [raw, sock.reads, len(sock.data) - sock.pos]
    except Exception as exc:  # noqa: BLE001
        from ..core import classify

        return [classify(exc), sock.reads, -1]


class _Writer:
    def write(self, b):
        pass

    async def drain(self):
        pass

    def close(self):
        pass

    async def wait_closed(self):
        pass


def _chunks(stream: bytes, sched):
    out, pos, sched = [], 0, list(sched)
    while pos < len(stream):
        k = max(1, sched.pop(0)) if sched else len(stream) - pos
        out.append(stream[pos : pos + k])
        pos += k
    return out


def impl_async(arg):
    from dpapi_ng._rpc._client import AsyncRpcClient
    from dpapi_ng._rpc._request import Response

    stream, sched = arg

    class Probe(AsyncRpcClient):
        def _process_response(self, response, pdu_header, resp_type, encrypt_offsets=None):
            return bytes(response)

    async def run():
        reader = asyncio.StreamReader()
        c = Probe(reader, _Writer())

        async def feeder():
            for ch in _chunks(bytes(stream), sched):
                reader.feed_data(ch)
                await asyncio.sleep(0)
            reader.feed_eof()

        ft = asyncio.ensure_future(feeder())
        try:
            raw = await asyncio.wait_for(c._send_pdu(_request_pdu(c), Response), 5)
            await ft
            return [raw, len(reader._buffer)]
        except asyncio.TimeoutError:
            return [Err("OutOfFuel"), -1]
        except Exception as exc:  # noqa: BLE001
            from ..core import classify

            ft.cancel()
            return [classify(exc), -1]

    return asyncio.run(run())


def impl_sync2(arg):
    """two consecutive exchanges on one connection"""
    from dpapi_ng._rpc._client import SyncRpcClient
    from dpapi_ng._rpc._request import Response

    from ..core import classify

    stream, sched = arg
    sock = ScriptSock(stream, sched, budget=6 * len(stream) + 60)

    class Probe(SyncRpcClient):
        def _process_response(self, response, pdu_header, resp_type, encrypt_offsets=None):
            return bytes(response)

    c = Probe(sock)
    out = []
    for _ in range(2):
        try:
            out.append(c._send_pdu(_request_pdu(c), Response))
        except Exception as exc:  # noqa: BLE001
            out.append(classify(exc))
            break
    if len(out) == 1:
        out.append(None)
    ok = not any(isinstance(o, Err) for o in out)
    return [out[0], out[1], (len(sock.data) - sock.pos) if ok else -1]


def impl_async2(arg):
    from dpapi_ng._rpc._client import AsyncRpcClient
    from dpapi_ng._rpc._request import Response

    from ..core import classify

    stream, sched = arg

    class Probe(AsyncRpcClient):
        def _process_response(self, response, pdu_header, resp_type, encrypt_offsets=None):
            return bytes(response)

    async def run():
        reader = asyncio.StreamReader()
        c = Probe(reader, _Writer())

        async def feeder():
            for ch in _chunks(bytes(stream), sched):
                reader.feed_data(ch)
                await asyncio.sleep(0)
            reader.feed_eof()

        ft = asyncio.ensure_future(feeder())
        out = []
        for _ in range(2):
            try:
                out.append(await asyncio.wait_for(c._send_pdu(_request_pdu(c), Response), 5))
            except asyncio.TimeoutError:
                out.append(Err("OutOfFuel"))
                break
            except Exception as exc:  # noqa: BLE001
                out.append(classify(exc))
                break
        try:
            await ft
        except Exception:  # noqa: BLE001
            pass
        if len(out) == 1:
            out.append(None)
        ok = not any(isinstance(o, Err) for o in out)
        return [out[0], out[1], len(reader._buffer) if ok else -1]

    return asyncio.run(run())


def gen_cases2(ctx: Ctx):
    rs = replies()
    names = sorted(rs)
    cases = []
    for a in names:
        for b in names:
            s = rs[a] + rs[b]
            n = len(s)
            cases.append([s, []])
            cases.append([s, [1] * n])
            cases.append([s, [len(rs[a]) + 3, 5]])      # the first read delivers the start of the second reply too
            cases.append([s, [len(rs[a]) - 1, 2, 7]])
            for _ in range(ctx.n(2, 20)):
                cases.append([s + bytes(ctx.rng.randrange(256) for _ in range(ctx.rng.randrange(0, 4))),
                              [ctx.rng.randrange(1, 40) for _ in range(ctx.rng.randrange(0, 12))]])
            for k in (0, 1, 15, 16, 17, len(rs[b]) - 1):
                cases.append([rs[a] + rs[b][:k], [9, 9, 9]])
    return cases


def pred2(arg, out):
    stream, sched = arg
    rs = replies()
    for a in rs.values():
        if bytes(stream[: len(a)]) != a:
            continue
        rest = bytes(stream[len(a):])
        if out is None or isinstance(out[0], Err) or bytes(out[0]) != a:
            return "first reply not reassembled"
        for b in rs.values():
            if rest[: len(b)] == b:
                if isinstance(out[1], Err) or out[1] is None or bytes(out[1]) != b:
                    return f"second reply on the same connection not reassembled ({out[1]})"
                return None
            if b[: len(rest)] == rest and len(rest) < len(b):
                if not isinstance(out[1], Err):
                    return "truncated second reply accepted"
                if out[1].name == "OutOfFuel":
                    return "connection closed during the second reply: the client keeps reading"
                return None
    return None


def replies():
    import uuid

    from dpapi_ng._rpc import _bind as B
    from dpapi_ng._rpc import _pdu as P
    from dpapi_ng._rpc import _request as R

    def hdr(pt, auth_len=0, flags=3):
        return P.PDUHeader(version=5, version_minor=0, packet_type=pt, packet_flags=P.PacketFlags(flags), data_rep=P.DataRep(),
                           frag_len=0, auth_len=auth_len, call_id=1)

    def fin(b):
        b = bytearray(b)
        b[8:10] = len(b).to_bytes(2, "little")
        return bytes(b)

    ndr64 = B.SyntaxId(uuid.UUID("71710533-beba-4937-8319-b5dbef9ccc36"), 1, 0)
    out = {}
    out["response28"] = fin(R.Response(header=hdr(P.PacketType.RESPONSE), sec_trailer=None, alloc_hint=4, context_id=0, cancel_count=0, stub_data=b"\x01\x02\x03\x04").pack())
    out["response124"] = fin(R.Response(header=hdr(P.PacketType.RESPONSE), sec_trailer=None, alloc_hint=100, context_id=0, cancel_count=0, stub_data=bytes(range(100))).pack())
    out["fault32"] = fin(P.Fault(header=hdr(P.PacketType.FAULT), sec_trailer=None, alloc_hint=0, context_id=0, cancel_count=0, status=5, flags=P.FaultFlags.NONE, stub_data=b"").pack())
    res = [B.ContextResult(result=B.ContextResultCode.ACCEPTANCE, reason=0, syntax=ndr64.uuid, syntax_version=1)]
    out["bind_ack"] = fin(B.BindAck(header=hdr(P.PacketType.BIND_ACK), sec_trailer=None, max_xmit_frag=5840, max_recv_frag=5840, assoc_group=1,
                                    sec_addr="49668", results=res).pack())
    out["alter_resp"] = fin(B.AlterContextResponse(header=hdr(P.PacketType.ALTER_CONTEXT_RESP), sec_trailer=None, max_xmit_frag=5840, max_recv_frag=5840,
                                                   assoc_group=1, sec_addr="", results=res).pack())
    return out


def big_reply():
    from dpapi_ng._rpc import _pdu as P
    from dpapi_ng._rpc import _request as R

    big = bytearray(R.Response(header=P.PDUHeader(version=5, version_minor=0, packet_type=P.PacketType.RESPONSE, packet_flags=P.PacketFlags(3), data_rep=P.DataRep(),
                                                  frag_len=0, auth_len=0, call_id=1),
                               sec_trailer=None, alloc_hint=1500, context_id=0, cancel_count=0, stub_data=bytes(i % 251 for i in range(1500))).pack())
    big[8:10] = len(big).to_bytes(2, "little")
    return bytes(big)


def gen_cases(ctx: Ctx):
    rs = replies()
    cases = []
    for name, rep in rs.items():
        n = len(rep)
        step = 1 if (ctx.thorough or n <= 32) else (2 if n <= 64 else 5)
        cuts = list(range(0, n + 1, step))
        for a in cuts:
            cases.append([rep, [a] if a else []])
            for b in cuts:
                if a < b:
                    cases.append([rep, [a, b - a] if a else [b]])
        # EOF at every offset, coarse and fine schedule
        for k in range(0, n):
            cases.append([rep[:k], []])
            cases.append([rep[:k], [1] * k])
            cases.append([rep[:k], [7, 9, 16, 1, 1]])
        # another PDU follows in the stream
        cases.append([rep + rs["response28"], [5, 11, 3]])
        cases.append([rep + rep[:10], [1000]])
        for _ in range(ctx.n(20, 400)):
            sched = [ctx.rng.randrange(1, 9) for _ in range(ctx.rng.randrange(0, n))]
            cases.append([rep + bytes(ctx.rng.randrange(256) for _ in range(ctx.rng.randrange(0, 5))), sched])
    # a longer reply arriving one octet at a time (more than a thousand reads for one PDU), and in 3-octet reads
    big = big_reply()
    cases.append([big, [1] * len(big)])
    cases.append([big + rs["response28"], [3] * (len(big) // 3 + 4)])
    cases.append([big[:-1], [1] * len(big)])
    # malformed headers: unknown packet type, bad drep, frag_len < 16, frag_len beyond the stream, random bytes
    base = bytearray(rs["response28"])
    for (off, val) in [(2, 16), (2, 20), (2, 255), (4, 0x20), (4, 0x12), (5, 4), (8, 15), (8, 0), (8, 200), (9, 1)]:
        m = bytearray(base)
        m[off] = val
        cases.append([bytes(m), [3, 13, 40]])
        cases.append([bytes(m), []])
    for _ in range(ctx.n(100, 3000)):
        m = bytes(ctx.rng.randrange(256) for _ in range(ctx.rng.randrange(0, 60)))
        cases.append([m, [ctx.rng.randrange(1, 20) for _ in range(ctx.rng.randrange(0, 6))]])
    return cases


def pred_sync(arg, out):
    """The property on the implementation itself: a complete well-formed reply decodes to the same
    PDU as in one piece; a truncated one is an error within the read budget."""
    stream, sched = arg
    rs = dict(replies())
    rs["big"] = big_reply()
    for rep in rs.values():
        if bytes(stream[: len(rep)]) == rep:
            if out is None or isinstance(out[0], Err):
                return f"complete reply but the client raised {out[0] if out else None}"
            if bytes(out[0]) != rep:
                return "reassembled bytes differ from the reply"
            return None
        if rep[: len(stream)] == bytes(stream) and len(stream) < len(rep):
            if out is None or not isinstance(out[0], Err):
                return "truncated reply accepted"
            if out[0].name == "OutOfFuel":
                return "connection closed mid-PDU: the client keeps reading (read budget exceeded) instead of raising"
            # the property asks for "an error, promptly": the class is not prescribed (the model's EOFError / IncompleteRead are what
            # the source raises today; another class shows up as a model/implementation disagreement, not as a failing input)
            return None
    return None


def units(ctx: Ctx, only=None):
    cases = [] if getattr(ctx, "replay_only", False) else gen_cases(ctx)
    acases = cases if ctx.thorough else cases[::4]
    c2 = [] if getattr(ctx, "replay_only", False) else gen_cases2(ctx)
    return [
        Unit("recv.sync", "recv.sync", cases, impl_sync, prop_pred=pred_sync),
        Unit("recv.async", "recv.async", acases, impl_async, prop_pred=pred_sync),
        Unit("recv.sync2", "recv.sync2", c2, impl_sync2, prop_pred=pred2),
        Unit("recv.async2", "recv.async2", c2, impl_async2, prop_pred=pred2),
    ]


def search(ctx: Ctx):
    from ..core import run_impl
    from ..val import dec, enc

    tried = 0
    for c in gen_cases(ctx):
        for name, fn in (("recv.sync", impl_sync), ("recv.async", impl_async)):
            tried += 1
            why = pred_sync(c, dec(run_impl(fn, c)))
            if why:
                return {"unit": name, "input": enc(c), "why": why, "tried": tried, "key": None}
    for c in gen_cases2(ctx):
        for name, fn in (("recv.sync2", impl_sync2), ("recv.async2", impl_async2)):
            tried += 1
            why = pred2(c, dec(run_impl(fn, c)))
            if why:
                return {"unit": name, "input": enc(c), "why": why, "tried": tried, "key": None}
    ctx.notes.append(f"search: {tried} (stream, schedule) runs satisfy the property on the implementation")
    return None
