"""C02 -- derived group keys equal the MS-GKDI chain from any covering seed material."""
from __future__ import annotations

import itertools

from .. import sym
from ..impl_util import hash_of_id, mk_env
from ..runner import Ctx, Unit
from ..val import Err

MANIFEST = {
    "text": "Coq theorems over the statement-level translation of compute_l2_key regenerated from _gkdi.py on every run, for an arbitrary KDF and key type: from every conforming envelope "
            "covering an in-range request the result is the MS-GKDI chain key K2(l1,l2) (all 2^20 position pairs, all shapes, any root key/SD/L0/hash; fuel 32 suffices = termination); "
            "a non-covering or out-of-range request is ValueError for every fuel (neither a key nor a loop). Tie: the control skeleton is translated from the source; compute_kdf_context / "
            "compute_l1_key / kdf argument shapes by correspondence under the symbolic KDF (output bytes are derivation terms).",
    "note": "kdf is universally quantified; the statement translator of compute_l2_key is trusted and validated by the correspondence unit chain.l2.",
    "technique": "Coq proof (loop invariants over regenerated control skeleton) + differential correspondence under symbolic crypto",
}

ASSUMPTIONS = [
    "kdf is an arbitrary function (theorems quantify over it); the correspondence runs use the symbolic KDF so output bytes are derivation terms",
    "statement translator of vlib/kernels.py (assign/if/while/raise/return, kdf(...) call shape) for compute_l2_key",
]
RULE = ("(envelope position, requested position) pairs biased to the edges (L2'=31, L1'=0, equal, adjacent, non-covering, out-of-range) x envelope "
        "shapes (L2 key absent at 31, L1 key absent at L1'=0) x 4 hashes, thorough: the full 32^4 lattice; non-trivial = a key was derived or a "
        "distinct error class was raised; distinct = distinct canonical case text")

LABEL = "KDS service\0".encode("utf-16-le")


def ctx_bytes(rkid, l0, a, b):
    return bytes(rkid) + l0.to_bytes(4, "little", signed=True) + a.to_bytes(4, "little", signed=True) + b.to_bytes(4, "little", signed=True)


def skdf(hid, key, context):
    return sym.symterm(1, [bytes([hid]), key, LABEL, context, (64).to_bytes(4, "big")])


def spec_l2(hid, r1, r2, e1, e2, l0, rkid, k1, k2):
    """Independent reading of MS-GKDI 2.2.4 / 3.1.4.1.2: the key the envelope determines, or None."""
    if not (0 <= r1 <= 31 and 0 <= r2 <= 31):
        return None
    if not (e1 > r1 or (e1 == r1 and e2 >= r2)):
        return None
    if e1 == r1 and e2 != 31:
        key, j = bytes(k2), e2
    else:
        # need K1(r1): from the L1 key, which is K1(e1) when e2 == 31 else K1(e1 - 1)
        i = e1 if e2 == 31 else e1 - 1
        key1 = bytes(k1)
        while i > r1:
            i -= 1
            key1 = skdf(hid, key1, ctx_bytes(rkid, l0, i, -1))
        key, j = skdf(hid, key1, ctx_bytes(rkid, l0, r1, 31)), 31
    while j > r2:
        j -= 1
        key = skdf(hid, key, ctx_bytes(rkid, l0, r1, j))
    return key


def impl_l2(arg):
    from dpapi_ng._gkdi import compute_l2_key

    hid, r1, r2, e1, e2, l0, rkid, k1, k2 = arg
    env = mk_env(l0, e1, e2, rkid, k1, k2)
    with sym.patched(budget=150):
        return compute_l2_key(hash_of_id(hid), r1, r2, env)


def impl_l1(arg):
    import uuid

    from dpapi_ng._gkdi import compute_l1_key

    hid, sd, rkid, l0, rk = arg
    with sym.patched():
        return compute_l1_key(bytes(sd), uuid.UUID(bytes_le=bytes(rkid)), l0, bytes(rk), hash_of_id(hid))


# ---- the top of the chain, independently of the model (MS-GKDI 3.1.4.1.2; Coq counterpart: Spec/GkdiRootSpec.v) -------------
def ref_i32(v):
    """signed 32-bit little endian, two's complement (no int.to_bytes(signed=True): that is what the library calls)"""
    if not -2 ** 31 <= v < 2 ** 31:
        raise OverflowError(v)
    return bytes(((v % 2 ** 32) >> (8 * k)) & 255 for k in range(4))


def ref_ctx(rkid, l0, a, b):
    return bytes(rkid) + ref_i32(l0) + ref_i32(a) + ref_i32(b)


def spec_l1(hid, sd, rkid, l0, rk):
    """The L1 key at index 31 from the root key bytes under the symbolic KDF, or None when L0 has no encoding."""
    try:
        seed = skdf(hid, bytes(rk), ref_ctx(rkid, l0, -1, -1))
        return skdf(hid, seed, ref_ctx(rkid, l0, 31, -1) + bytes(sd))
    except OverflowError:
        return None


def _real_kdf(hid, key, context):
    from ..hostile import _sp800_108_ctr_hmac
    from ..impl_util import HASH_NAMES

    return _sp800_108_ctr_hmac(HASH_NAMES[hid].lower(), bytes(key), LABEL, bytes(context), 64)


def ref_real_l1(hid, sd, rkid, l0, rk):
    """hmac/hashlib only: SP800-108 counter-mode HMAC from the root key bytes."""
    seed = _real_kdf(hid, rk, ref_ctx(rkid, l0, -1, -1))
    return _real_kdf(hid, seed, ref_ctx(rkid, l0, 31, -1) + bytes(sd))


def ref_real_key(hid, sd, rkid, l0, rk, l1, l2):
    k = ref_real_l1(hid, sd, rkid, l0, rk)
    for n in range(30, l1 - 1, -1):
        k = _real_kdf(hid, k, ref_ctx(rkid, l0, n, -1))
    k = _real_kdf(hid, k, ref_ctx(rkid, l0, l1, 31))
    for m in range(30, l2 - 1, -1):
        k = _real_kdf(hid, k, ref_ctx(rkid, l0, l1, m))
    return k


def impl_real(arg):
    """the library with the real `cryptography` primitives: L1(31) from the root key, then the key at (r1, r2) from the (31, 31) envelope"""
    import uuid

    from dpapi_ng._gkdi import compute_l1_key, compute_l2_key

    hid, sd, rkid, l0, rk, r1, r2 = arg
    l1 = compute_l1_key(bytes(sd), uuid.UUID(bytes_le=bytes(rkid)), l0, bytes(rk), hash_of_id(hid))
    return [l1, compute_l2_key(hash_of_id(hid), r1, r2, mk_env(l0, 31, 31, rkid, l1, b""))]


def pred_real(arg, out):
    hid, sd, rkid, l0, rk, r1, r2 = arg
    want = [ref_real_l1(hid, sd, rkid, l0, rk), ref_real_key(hid, sd, rkid, l0, rk, r1, r2)]
    if isinstance(out, Err) or out is None:
        return f"the library failed ({repr(out)[:80]}) where MS-GKDI defines a key"
    got = [bytes(x) for x in out]
    if got[0] != want[0]:
        return "L1 key at index 31 differs from KDF(L0 seed, 'KDS service', ctx(L0,31,-1) || SD) computed with hmac/hashlib from the root key bytes"
    if got[1] != want[1]:
        return f"key at ({r1}, {r2}) differs from the SP800-108 chain computed with hmac/hashlib from the root key bytes"
    return None


def pred_l1(arg, out):
    """chain.l1 runs under the symbolic KDF: the output must be the derivation term of the specification; and the same
    arguments with the real primitives must give the hmac/hashlib reference."""
    hid, sd, rkid, l0, rk = arg
    want = spec_l1(hid, sd, rkid, l0, rk)
    if want is None:
        if isinstance(out, Err):
            return None  # any refusal: the class is not part of the property (today OverflowError from int.to_bytes)
        return f"L0 = {l0} has no signed 32-bit encoding but the library returned {repr(out)[:80]}"
    if isinstance(out, Err) or out is None or bytes(out) != want:
        return "L1(31) is not KDF(KDF(root key, label, ctx(L0,-1,-1)), label, ctx(L0,31,-1) || SD) (symbolic KDF)"
    if len(rk) == 0:
        return None  # HMAC with an empty key: refused by the real primitive, nothing to compare
    from ..core import run_impl
    from ..val import dec

    return pred_real([hid, sd, rkid, l0, rk, 31, 31], dec(run_impl(impl_real, [hid, sd, rkid, l0, rk, 31, 31])))


def real_cases(ctx: Ctx):
    out = []
    edge = [(31, 31), (31, 0), (0, 31), (0, 0), (30, 30), (5, 7), (31, 30), (30, 31)]
    l0s = [361, 0, 1, -1, 2 ** 31 - 1, -2 ** 31]
    n = ctx.n(40, 400)
    for k in range(n):
        r1, r2 = edge[k % len(edge)] if k < 2 * len(edge) else (ctx.rng.randrange(32), ctx.rng.randrange(32))
        sd = bytes(ctx.rng.randrange(256) for _ in range(ctx.rng.choice([0, 1, 20, 76, 100])))
        rk = bytes(ctx.rng.randrange(256) for _ in range(ctx.rng.choice([1, 32, 64, 64, 200])))
        out.append([1 + k % 4, sd, bytes(ctx.rng.randrange(256) for _ in range(16)), l0s[(k // 4) % len(l0s)], rk, r1, r2])
    return out


ORACLE_REPLAY = {"chain.real": (impl_real, pred_real)}


def oracles(ctx: Ctx) -> None:
    """The property predicates on the implementation also where model and implementation agree: the symbolic chain.l1 cases
    against the specification's derivation term, and the real primitives against hmac/hashlib from the root key bytes."""
    if getattr(ctx, "replay_only", False):
        return
    from ..core import run_impl
    from ..val import dec, enc

    bad = 0
    if not ctx.corr.get("chain.l1", {}).get("disagreements"):
        for c in getattr(ctx, "_c02_l1cases", []):
            ctx.oracle_runs += 1
            why = pred_l1(c, dec(run_impl(impl_l1, c)))
            if why and bad < 2:
                bad += 1
                ctx.violation("failing-input", "oracle:chain.l1", {"unit": "chain.l1", "input": enc(c), "why": why}, key=f"chain.l1:{enc(c)[:80]}")
    bad = 0
    for c in real_cases(ctx):
        ctx.oracle_runs += 1
        why = pred_real(c, dec(run_impl(impl_real, c)))
        if why and bad < 2:
            bad += 1
            ctx.violation("failing-input", "oracle:chain.real", {"unit": "chain.real", "input": enc(c), "why": why}, key=f"chain.real:{enc(c)[:80]}")
    ctx.notes.append("oracle chain.real: library with real primitives = hmac/hashlib SP800-108 chain from the root key bytes")


def pred_l2(arg, out):
    want = spec_l2(*arg)
    if want is None:
        if isinstance(out, Err) and out.name in ("ValueError",):
            return None
        if isinstance(out, Err) and out.name == "OutOfFuel":
            return "seed material does not cover the request but the library loops (KDF budget exceeded) instead of reporting an error"
        return f"seed material does not cover the request / request out of range, but the library returned {repr(out)[:100]} instead of an error"
    if out != want:
        return "derived key differs from the MS-GKDI chain key"
    return None


def positions(ctx: Ctx):
    edge = [0, 1, 2, 15, 30, 31]
    pts = set()
    for e1, e2, r1, r2 in itertools.product(edge, edge, edge, edge):
        pts.add((e1, e2, r1, r2))
    for _ in range(ctx.n(1500, 0)):
        pts.add(tuple(ctx.rng.randrange(32) for _ in range(4)))
    if ctx.thorough:
        for t in itertools.product(range(32), repeat=4):
            pts.add(t)
    # out of range / hostile requests
    for e1, e2 in [(31, 31), (5, 5), (0, 0), (0, 31), (31, 0)]:
        for r1, r2 in [(32, 0), (0, 32), (-1, 0), (0, -1), (31, 32), (40, 40), (5, 6), (6, 0), (2 ** 31 - 1, 0), (0, 2 ** 31 - 1)]:
            pts.add((e1, e2, r1, r2))
    return sorted(pts)


def units(ctx: Ctx, only=None):
    replaying = getattr(ctx, "replay_only", False)
    cases = []
    l1cases = []
    if not replaying:
        rk = bytes(range(1, 17))
        pts = positions(ctx)
        for n, (e1, e2, r1, r2) in enumerate(pts):
            hid = 1 + n % 4
            k1 = bytes([0x11, e1 & 255, e2 & 255]) + bytes(ctx.rng.randrange(256) for _ in range(5))
            k2 = bytes([0x22, e1 & 255, e2 & 255]) + bytes(ctx.rng.randrange(256) for _ in range(5))
            shape = n % 3
            if e2 == 31 and shape == 1:
                k2 = b""
            if e1 == 0 and e2 != 31 and shape == 2:
                k1 = b""
            l0 = [361, 0, 2 ** 31 - 1, 1][n % 4]
            cases.append([hid, r1, r2, e1, e2, l0, rk, k1, k2])
        for n in range(ctx.n(60, 600)):
            sd = bytes(ctx.rng.randrange(256) for _ in range(ctx.rng.choice([0, 1, 20, 76, 100])))
            l0 = ctx.rng.choice([0, 1, 361, 2 ** 31 - 1, -1, ctx.rng.randrange(2 ** 31)])
            l1cases.append([1 + n % 4, sd, bytes(ctx.rng.randrange(256) for _ in range(16)), l0,
                            bytes(ctx.rng.randrange(256) for _ in range(ctx.rng.choice([0, 32, 64])))])
        l1cases.append([4, b"", bytes(16), 2 ** 31, b"x"])  # OverflowError on both sides
        # the same (root key id, L0) with different root key bytes, hashes and SDs back to back: a result must depend on
        # all of its inputs, not on what an earlier call in the same process happened to use
        same_id = bytes(range(16, 32))
        for l0 in (361, 362):
            for rootkey in (b"A" * 64, b"B" * 64, b"A" * 64):
                for hid in (4, 1, 2, 3, 4):
                    for sd in (b"", b"sd-one", b"sd-two"):
                        l1cases.append([hid, sd, same_id, l0, rootkey])
    if not replaying:
        # likewise for compute_l2_key: one envelope identity, different key material / hashes, repeated
        rkx = bytes(range(32, 48))
        for rep in range(2):
            for hid in (4, 2):
                for k1 in (b"\x01" * 8, b"\x02" * 8):
                    cases.append([hid, 3, 30, 5, 7, 361, rkx, k1, b"\x09" * 8 if rep else b"\x08" * 8])
                    cases.append([hid, 5, 6, 5, 7, 361, rkx, k1, b"\x09" * 8 if rep else b"\x08" * 8])
    ctx._c02_l1cases = l1cases  # type: ignore[attr-defined]
    return [
        Unit("chain.l2", "chain.l2", cases, impl_l2, prop_pred=pred_l2),
        Unit("chain.l1", "chain.l1", l1cases, impl_l1, prop_pred=pred_l1),
    ]


def search(ctx: Ctx):
    """A C02 obligation no longer proves: evaluate the property itself on the implementation
    (independent chain oracle, KDF budget) over the edge lattice and hostile requests."""
    tried = 0
    rk = bytes(range(1, 17))
    for (e1, e2, r1, r2) in positions(ctx):
        for shape in (0, 1):
            k1, k2 = bytes([1, e1 & 255, e2 & 255]), bytes([2, e1 & 255, e2 & 255])
            if shape == 1:
                if e2 == 31:
                    k2 = b""
                elif e1 == 0:
                    k1 = b""
                else:
                    continue
            arg = [4, r1, r2, e1, e2, 361, rk, k1, k2]
            tried += 1
            from ..core import run_impl
            from ..val import dec, enc

            out = dec(run_impl(impl_l2, arg))
            why = pred_l2(arg, out)
            if why:
                return {"unit": "chain.l2", "input": enc(arg), "expected": "the chain key, or ValueError when not covered",
                        "observed": repr(out)[:300], "why": why, "tried": tried,
                        "key": "noncover-loop" if "loops" in why else None}
    ctx.notes.append(f"search: {tried} (envelope, request, shape) cases satisfy the property on the implementation")
    # the seed material compute_l2_key works from comes out of the KeyCache: a cache that keeps a hollow or non-covering envelope makes the
    # library derive a key that is not the chain key although compute_l2_key itself is right - the KeyCache history search of C10
    try:
        from . import c10

        found = c10.search(ctx)
        if found:
            found["why"] = "through the KeyCache (seed material handed to the derivation is not what covers the request): " + str(found.get("why"))
            return found
    except Exception as exc:  # noqa: BLE001
        ctx.notes.append(f"search: KeyCache history search unavailable ({type(exc).__name__})")
    return None
