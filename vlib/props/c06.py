"""C06 -- emitted blobs are canonical CMS in Windows' layout; encode/decode are inverse."""
from __future__ import annotations

import glob
import json
import os

from ..runner import Ctx, Unit
from ..val import Err, dec, enc
from . import c07

AREA = "asn1"

MANIFEST = {
    "text": "Coq theorems over function-for-function models of _pkcs7.py and _blob.py (on the C07 model of _asn1.py; KeyIdentifier from Model/KeyId.v): for every well-formed blob value and "
            "both layouts DPAPINGBlob.pack equals encode(cms_tree) -- the RFC 5652 ContentInfo/EnvelopedData tree with exactly one KEKRecipientInfo, versions 2 and 4, the KEK identifier carrying "
            "the protection-descriptor attribute, written independently with literal DER OID octets -- followed by the trailing ciphertext in the LAPS layout; the strict DER reader of C07 reads it "
            "back as exactly that tree; unpack(pack(x)) = x for both layouts and pack(unpack(pack(x))) = pack(x); _encrypt_blob's parameters are SEQUENCE{OCTET STRING nonce, INTEGER 16} under "
            "AES256-GCM with AES256-wrap without parameters. Tie: OIDs, versions, tag numbers, 16 and 12 regenerated from the source; differential correspondence on structured blobs, the 17 "
            "captured Windows blobs (decode identically, re-encode to identical bytes), _encrypt_blob outputs under patched crypto, KEKIdentifier optional fields and a malformed stream.",
    "note": "An optional parameters / content field that is present but empty is written as absent (the code tests truthiness), so wf requires None or non-empty; KEKIdentifier.unpack raises "
            "NotEnoughData when neither date nor other follows the key identifier (not reachable from DPAPINGBlob.pack, which always writes `other`). ContentInfo.unpack and KEKRecipientInfo.unpack "
            "are given the peeked header, so the outer tag / constructed bit is not compared (modelled as is).",
    "technique": "Coq proof (tree equality with an independent CMS template, C07 reader lemmas composed along the tree) + kernels + differential correspondence incl. captured Windows vectors",
}
ASSUMPTIONS = [
    "C07 model of _asn1.py and its assumptions; KeyIdentifier.pack/unpack as modelled in coq/Model/KeyId.v (round trip proved in Proofs/GkdiKeyId.v, area gkdi)",
    "OIDs are arc lists on the model side; dotted-decimal strings are produced/parsed by the harness",
]
RULE = ("structured blob values: key_info sizes 0..800, content lengths from the DER boundary table (0,1,127,128,255,256,65535,65536,..), parameters absent/present, both layouts, 32-bit "
        "field boundaries {0,1,2^31,2^32-1}, Unicode names incl. non-BMP; the 17 captured Windows blobs; mutated blobs compared by outcome bucket; every case with produced bytes or a distinct "
        "error class is non-trivial; distinct = distinct canonical case text per unit")
PARTIAL = [
    "strict DER read-back (strict_parse of the ContentInfo part = [template tree]) is proved (a) for everything the library itself emits: AES256-wrap "
    "without parameters + AES256-GCM with the DER GCM parameters, in BOTH layouts (C06_emitted_strict_parse; C06_emitted_template is its in-envelope "
    "case; C06_emitted_nonce for _encrypt_blob outputs with a 12-octet draw, under wf_emit = the crypto outputs are bytes objects below 4 GiB), and "
    "(b) for every wf blob value without algorithm parameters (C06_strict_parse, additional hypothesis wfb_blob: root key id, key_info, enc_cek and "
    "enc_content are octet strings, i.e. every element in 0..255). NOT proved for blob values carrying caller-supplied opaque parameters (they need "
    "not be DER): for them C06_is_cms gives pack = encode(cms_tree) with the parameters spliced in as raw octets, and the check's independent strict "
    "reader re-parses every generated case whose parameters are DER",
    "the 12-octet nonce rests on the stated assumption that os.urandom(12) returns 12 octets: C06_emitted_nonce takes len(draw) = k_gcm_nonce_len as a "
    "hypothesis; C06_nonce_source (kernels k_cek_generate_draws / k_encrypt_blob_flow of area e2e) says this draw is the only source of the nonce",
]

OID_WRAP = [2, 16, 840, 1, 101, 3, 4, 1, 45]
OID_GCM = [2, 16, 840, 1, 101, 3, 4, 1, 46]
OID_ENVELOPED = [1, 2, 840, 113549, 1, 7, 3]
OID_DATA = [1, 2, 840, 113549, 1, 7, 1]
OID_MS = [1, 3, 6, 1, 4, 1, 311, 74, 1]
OID_SID = [1, 3, 6, 1, 4, 1, 311, 74, 1, 1]


def _oid(arcs):
    return ".".join(str(a) for a in arcs)


def _arcs(s):
    return [int(x) for x in s.split(".")]


def _mk_kid(kv):
    import uuid

    from dpapi_ng._blob import KeyIdentifier

    v, fl, l0, l1, l2, rk, ki, dn, fn = kv
    return KeyIdentifier(version=v, flags=fl, l0=l0, l1=l1, l2=l2, root_key_identifier=uuid.UUID(bytes_le=bytes(rk)),
                         key_info=bytes(ki), domain_name=dn, forest_name=fn)


def _kid_val(k):
    return [k.version, k.flags, k.l0, k.l1, k.l2, k.root_key_identifier.bytes_le, k.key_info, k.domain_name, k.forest_name]


def _mk_blob(f):
    from dpapi_ng._blob import DPAPINGBlob, SIDDescriptor

    kv, sid, cek, a1, p1, content, a2, p2 = f
    return DPAPINGBlob(key_identifier=_mk_kid(kv), protection_descriptor=SIDDescriptor(sid), enc_cek=bytes(cek), enc_cek_algorithm=_oid(a1),
                       enc_cek_parameters=None if p1 is None else bytes(p1), enc_content=bytes(content), enc_content_algorithm=_oid(a2),
                       enc_content_parameters=None if p2 is None else bytes(p2))


def _blob_val(b):
    return [_kid_val(b.key_identifier), b.protection_descriptor.value, b.enc_cek, _arcs(b.enc_cek_algorithm), b.enc_cek_parameters,
            b.enc_content, _arcs(b.enc_content_algorithm), b.enc_content_parameters]


def impl_pack_unpack(arg):
    from dpapi_ng._blob import DPAPINGBlob

    *fields, env = arg
    try:
        data = bytes(_mk_blob(fields).pack(bool(env)))
    except Exception as exc:  # noqa: BLE001
        return [c07._classify(exc), None]
    try:
        back = _blob_val(DPAPINGBlob.unpack(data))
    except Exception as exc:  # noqa: BLE001
        back = c07._classify(exc)
    return [data, back]


def impl_unpack(data):
    from dpapi_ng._blob import DPAPINGBlob

    b = DPAPINGBlob.unpack(bytes(data))
    out = [_blob_val(b)]
    for env in (True, False):
        try:
            out.append(bytes(b.pack(env)))
        except Exception as exc:  # noqa: BLE001
            out.append(c07._classify(exc))
    return out


def impl_emitted(arg):
    """_client._encrypt_blob with the crypto calls replaced in the harness: observes how the library
    assembles the blob (algorithms, parameters, layout) for given ciphertexts."""
    import dpapi_ng._client as C
    from dpapi_ng._blob import SIDDescriptor

    kv, sid, iv, enc_cek, enc_content = arg
    kid = _mk_kid(kv)

    class _Key:
        def new_kek(self):
            return b"K" * 32, kid

    saved = (C.cek_generate, C.content_encrypt, C.cek_encrypt)
    seen = {}

    def f_gen(alg):
        seen["gen"] = str(alg.value if hasattr(alg, "value") else alg)
        return b"C" * 32, bytes(iv)

    def f_content(alg, params, cek, blob):
        seen["content"] = (str(alg.value if hasattr(alg, "value") else alg), bytes(params))
        return bytes(enc_content)

    def f_cek(alg, params, kek, cek):
        seen["cek"] = (str(alg.value if hasattr(alg, "value") else alg), params)
        return bytes(enc_cek)

    C.cek_generate, C.content_encrypt, C.cek_encrypt = f_gen, f_content, f_cek
    try:
        return bytes(C._encrypt_blob(b"plaintext", _Key(), SIDDescriptor(sid)))
    finally:
        C.cek_generate, C.content_encrypt, C.cek_encrypt = saved


def impl_kekid(arg):
    import dpapi_ng._asn1 as A
    import dpapi_ng._pkcs7 as P

    ki, date, other = arg
    try:
        o = None if other is None else P.OtherKeyAttribute(key_attr_id=_oid(other[0]), key_attr=None if other[1] is None else bytes(other[1]))
        w = A.ASN1Writer()
        P.KEKIdentifier(key_identifier=bytes(ki), date=date, other=o).pack(w)
        data = bytes(w.get_data())
    except Exception as exc:  # noqa: BLE001
        return [c07._classify(exc), None]
    try:
        r = A.ASN1Reader(data)
        k = P.KEKIdentifier.unpack(r)
        back = [[k.key_identifier, k.date, None if k.other is None else [_arcs(k.other.key_attr_id), k.other.key_attr]], r.get_remaining_data()]
    except Exception as exc:  # noqa: BLE001
        back = c07._classify(exc)
    return [data, back]


# ------------------------------------------------------------------------------------------------
# Independent template (RFC 5652 shape of the Windows vectors), built with the C07 oracle encoders
# ------------------------------------------------------------------------------------------------
def T(cls, cons, num, c):
    return (cls, cons, num, c)


def SEQ(*c):
    return T(0, True, 16, list(c))


def SET(*c):
    return T(0, True, 17, list(c))


def OID(arcs):
    return T(0, False, 6, c07.der_oid_content(arcs))


def INT(z):
    return T(0, False, 2, c07.der_int_content(z))


def OCT(b):
    return T(0, False, 4, bytes(b))


def UTF8(s):
    return T(0, False, 12, s.encode("utf-8"))


def spec_keyid(kv):
    v, fl, l0, l1, l2, rk, ki, dn, fn = kv
    bd = (dn + "\0").encode("utf-16-le")
    bf = (fn + "\0").encode("utf-16-le")
    u32 = lambda x: x.to_bytes(4, "little")  # noqa: E731
    return u32(v) + b"KDSK" + u32(fl) + u32(l0) + u32(l1) + u32(l2) + bytes(rk) + u32(len(ki)) + u32(len(bd)) + u32(len(bf)) + bytes(ki) + bd + bf


def spec_tree(fields, env, raw_params=True):
    """The expected tree; algorithm parameters are opaque octets spliced into the SEQUENCE."""
    kv, sid, cek, a1, p1, content, a2, p2 = fields
    pd = SEQ(OID(OID_SID), SEQ(SEQ(SEQ(UTF8("SID"), UTF8(sid)))))

    def alg(arcs, params):
        return ("ALG", arcs, params)

    return ("CMS", spec_keyid(kv), pd, bytes(cek), alg(a1, p1), alg(a2, p2), bytes(content) if env else b"")


def spec_bytes(fields, env):
    _, keyid, pd, cek, (_, a1, p1), (_, a2, p2), content = spec_tree(fields, env)
    fl = c07._flatten

    def algb(arcs, params):
        body = fl(OID(arcs)) + (bytes(params) if params else b"")
        return c07.der_tlv(0, True, 16, body)

    other = c07.der_tlv(0, True, 16, fl(OID(OID_MS)) + fl(pd))
    kekid = c07.der_tlv(0, True, 16, fl(OCT(keyid)) + other)
    kekri = c07.der_tlv(2, True, 2, fl(INT(4)) + kekid + algb(a1, p1) + fl(OCT(cek)))
    eci = c07.der_tlv(0, True, 16, fl(OID(OID_DATA)) + algb(a2, p2) + (c07.der_tlv(2, False, 0, content) if content else b""))
    ed = c07.der_tlv(0, True, 16, fl(INT(2)) + c07.der_tlv(0, True, 17, kekri) + eci)
    ci = c07.der_tlv(0, True, 16, fl(OID(OID_ENVELOPED)) + c07.der_tlv(2, True, 0, ed))
    return ci + (b"" if env else bytes(fields[5]))


def _wf(fields):
    kv, sid, cek, a1, p1, content, a2, p2 = fields
    v, fl, l0, l1, l2, rk, ki, dn, fn = kv
    if not all(0 <= x < 2 ** 32 for x in (v, fl, l0, l1, l2)) or len(rk) != 16:
        return False
    for s in (dn, fn, sid):
        if any(0xD800 <= ord(ch) <= 0xDFFF for ch in s):
            return False
    for a in (a1, a2):
        if not (len(a) >= 2 and 0 <= a[0] <= 2 and 0 <= a[1] <= 39 and all(x >= 0 for x in a)):
            return False
    if p1 == b"" or p2 == b"":
        return False
    return True


def pred_pack_unpack(arg, out):
    *fields, env = arg
    if not _wf(fields):
        return None
    want = spec_bytes(fields, bool(env))
    if out[0] != want:
        return f"pack() differs from the CMS template at byte {_first_diff(out[0], want)} (got {len(out[0]) if isinstance(out[0], bytes) else out[0]} bytes, template {len(want)})"
    # strict DER: the ContentInfo part (without trailing ciphertext) parses as one value when parameters are DER
    ci_len = len(want) - (0 if env else len(fields[5]))
    try:
        tree = c07.strict_parse(want[:ci_len])
        if len(tree) != 1:
            return "packed blob is not a single DER value"
    except c07.DerError as exc:
        if all(_is_der(p) for p in (fields[4], fields[7])):
            return f"independent strict DER reader rejects the packed blob: {exc}"
    exp = [list(fields[0][:5]) + [bytes(fields[0][5]), bytes(fields[0][6]), fields[0][7], fields[0][8]], fields[1], bytes(fields[2]), list(fields[3]),
           None if fields[4] is None else bytes(fields[4]), bytes(fields[5]), list(fields[6]), None if fields[7] is None else bytes(fields[7])]
    if out[1] != exp:
        return f"unpack(pack(x)) != x: {out[1]!r:.200}"
    return None


def _is_der(p):
    if p is None:
        return True
    try:
        c07.strict_parse(bytes(p))
        return True
    except c07.DerError:
        return False


def _first_diff(a, b):
    if not isinstance(a, (bytes, bytearray)):
        return -1
    for i, (x, y) in enumerate(zip(a, b)):
        if x != y:
            return i
    return min(len(a), len(b))


def pred_windows(data, out):
    if isinstance(out, Err) or out is None:
        return f"captured Windows blob rejected: {out}"
    fields, p_env, p_trail = out
    if bytes(data) not in (p_env, p_trail):
        return "decoding a captured Windows blob and re-encoding it does not reproduce its bytes in either layout"
    env = bytes(data) == p_env
    if spec_bytes(fields, env) != bytes(data):
        return "captured blob differs from the CMS template instantiated with its decoded fields"
    return None


def pred_emitted(arg, out):
    kv, sid, iv, enc_cek, enc_content = arg
    if isinstance(out, Err) or out is None:
        return f"_encrypt_blob raised {out}"
    params = c07.der_tlv(0, True, 16, c07.der_tlv(0, False, 4, bytes(iv)) + c07.der_tlv(0, False, 2, c07.der_int_content(16)))
    want = spec_bytes([kv, sid, enc_cek, OID_WRAP, None, enc_content, OID_GCM, params], True)
    if out != want:
        return f"emitted blob differs from the Windows template (AES256-wrap, no parameters; AES256-GCM, SEQ{{OCTET nonce, INT 16}}) at byte {_first_diff(out, want)}"
    return None


def pred_unpack_bucket(data, out):
    if isinstance(out, Err) and out.name not in c07.DELIBERATE:
        return f"DPAPINGBlob.unpack ends with the internal error {out.name}"
    return None


# ------------------------------------------------------------------------------------------------
# Generators
# ------------------------------------------------------------------------------------------------
def windows_blobs():
    out = [open("/repo/tests/data/dpapi_ng_blob", "rb").read()]
    for f in sorted(glob.glob("/repo/tests/data/kdf_*.json")):
        d = json.load(open(f))
        for k in ("Data", "Data1"):
            if k in d:
                out.append(bytes.fromhex(d[k]))
    return out


NAMES = ["domain.test", "", "a", "dömäin.tést", "日本.example", "\U0001F511.forest", "x" * 300, "\U00010000\U0010FFFF", "\ufeff", "\ufeffdomain.test", "dom\ufeffain\ufffe", "\uffff", "a\x00b"]
SIDS = ["S-1-5-21-3337337973-3297078028-437386066-512", "S-1-1-0", "", "S-1-5-١", "\U0001F600", "S" * 200]
U32 = [0, 1, 2 ** 31, 2 ** 32 - 1, 361, 16, 3]
CONTENT_LENS = [0, 1, 2, 16, 126, 127, 128, 129, 255, 256, 257, 1000, 65535, 65536, 65537, 70000]
PARAMS = [None, bytes.fromhex("3011040c9e5b2e17c23f04fc3525e118020110"), b"\x05\x00", b"\x30\x00", b"\x01", b"\xff" * 130]


def gen_blobs(ctx: Ctx):
    rng = ctx.rng
    out = []
    n = 0

    def mk(i, clen, env, ki_len=None, p1=None, p2=PARAMS[1], a1=OID_WRAP, a2=OID_GCM, u=None):
        kv = [U32[(i + 4) % 7] if u is None else u, U32[(i + 1) % 7] if u is None else u, U32[i % 7] if u is None else u, U32[(i + 2) % 7] if u is None else u,
              U32[(i + 3) % 7] if u is None else u, bytes((i + j) & 0xFF for j in range(16)),
              bytes((7 * j + i) & 0xFF for j in range(ki_len if ki_len is not None else [0, 1, 65, 104, 556, 800][i % 6])), NAMES[i % len(NAMES)], NAMES[(i + 3) % len(NAMES)]]
        return [kv, SIDS[i % len(SIDS)], bytes((3 * j + i) & 0xFF for j in range([40, 0, 1, 127, 128][i % 5])), a1, p1,
                bytes((j ^ i) & 0xFF for j in range(clen)), a2, p2, 1 if env else 0]

    for clen in CONTENT_LENS:
        for env in (True, False):
            n += 1
            out.append(mk(n, clen, env))
    for p1 in PARAMS:
        for p2 in PARAMS:
            n += 1
            out.append(mk(n, 33, n % 2 == 0, p1=p1, p2=p2))
    for u in U32:
        n += 1
        out.append(mk(n, 5, True, u=u))
    for ki in (0, 1, 127, 128, 255, 256, 556, 800):
        n += 1
        out.append(mk(n, 100, n % 2 == 0, ki_len=ki))
    # present-but-empty optional fields (outside wf: written as absent), other algorithm OIDs, refused OIDs
    out.append(mk(1, 10, True, p1=b"", p2=b""))
    out.append(mk(2, 10, False, a1=[1, 2, 3], a2=[2, 39, 2 ** 40, 0]))
    out.append(mk(3, 10, True, a1=[2, 40, 1]))
    out.append(mk(4, 10, True, a2=[1]))
    bad = mk(5, 10, True)
    bad[0][0] = 2 ** 32
    out.append(bad)
    bad = mk(6, 10, True)
    bad[0][7] = "\ud800"
    out.append(bad)
    bad = mk(7, 10, True)
    bad[1] = "\udfff"
    out.append(bad)
    for _ in range(ctx.n(250, 15000)):
        n += 1
        clen = rng.choice(CONTENT_LENS[:13] + [rng.randrange(0, 3000)]) if not ctx.thorough else rng.choice(CONTENT_LENS + [rng.randrange(0, 70000)])
        if ctx.thorough and clen > 3000 and rng.random() < 0.8:
            clen = rng.randrange(0, 3000)
        b = mk(rng.randrange(10 ** 6), clen, rng.random() < 0.5, ki_len=rng.randrange(0, 801), p1=rng.choice(PARAMS), p2=rng.choice(PARAMS))
        b[0][7] = c07._rand_str(rng, rng.choice([0, 3, 11, 40]))
        b[0][8] = c07._rand_str(rng, rng.choice([0, 3, 11, 40]))
        b[1] = rng.choice(SIDS + [c07._rand_str(rng, 12)])
        for j in range(5):
            b[0][j] = rng.choice(U32 + [rng.getrandbits(32)])
        out.append(b)
    return out


def gen_emitted(ctx: Ctx):
    out = []
    for i, clen in enumerate(CONTENT_LENS[:13] + [16 + 5, 16 + 1000]):
        kv = [1, [0, 1, 2, 3][i % 4], 361 + i, i % 32, (i * 7) % 32, bytes(range(i, i + 16)), bytes((j + i) & 0xFF for j in range([0, 65, 104, 556][i % 4])),
              NAMES[i % len(NAMES)], NAMES[(i + 1) % len(NAMES)]]
        out.append([kv, SIDS[i % 4], bytes((i * 11 + j) & 0xFF for j in range(12)), bytes((i + 2 * j) & 0xFF for j in range(40)), bytes((i + 3 * j) & 0xFF for j in range(clen))])
    for _ in range(ctx.n(40, 1500)):
        i = ctx.rng.randrange(1000)
        kv = [1, ctx.rng.randrange(4), ctx.rng.getrandbits(31), ctx.rng.randrange(32), ctx.rng.randrange(32), bytes(ctx.rng.getrandbits(8) for _ in range(16)),
              bytes(ctx.rng.getrandbits(8) for _ in range(ctx.rng.choice([0, 65, 104, 556]))), c07._rand_str(ctx.rng, 9), c07._rand_str(ctx.rng, 5)]
        out.append([kv, ctx.rng.choice(SIDS[:2]), bytes(ctx.rng.getrandbits(8) for _ in range(ctx.rng.choice([12, 12, 12, 0, 16]))),
                    bytes(ctx.rng.getrandbits(8) for _ in range(40)), bytes(ctx.rng.getrandbits(8) for _ in range(ctx.rng.randrange(16, 400)))])
    return out


def gen_kekid(ctx: Ctx):
    out = []
    dates = [None, "", "20230101000000Z", "19991231235959.5Z"]
    others = [None, [OID_MS, None], [OID_MS, b""], [OID_MS, b"\x30\x00"], [[1, 2, 3], b"\x05\x00\x04\x01\x00"], [[2, 39, 2 ** 35], b"\xff"]]
    for ki in (b"", b"\x01", bytes(200)):
        for d in dates:
            for o in others:
                out.append([ki, d, o])
    return out


def gen_malformed_blobs(ctx: Ctx):
    rng = ctx.rng
    seeds = windows_blobs()[:6]
    out = [b"", b"\x30", b"\x30\x00", b"\x30\x03\x06\x01\x2a", bytes.fromhex("300b06092a864886f70d010703"), bytes.fromhex("300d06092a864886f70d010703a000"),
           bytes.fromhex("301106092a864886f70d010703a0043002" + "0200")]
    for s in seeds:
        # truncations at every structural offset near the start, then random mutations
        for cut in list(range(0, 60)) + [len(s) - 1, len(s) // 2]:
            out.append(s[:cut])
        for _ in range(ctx.n(60, 1200)):
            b = bytearray(s)
            for _ in range(rng.choice([1, 1, 1, 2, 3])):
                pos = rng.randrange(len(b)) if rng.random() < 0.5 else rng.randrange(min(len(b), 120))
                r = rng.random()
                if r < 0.55:
                    b[pos] = rng.choice([0, 1, 0x7F, 0x80, 0x81, 0x82, 0x84, 0xFF, 0x02, 0x04, 0x06, 0x30, 0x31, 0xA0, 0xA2, b[pos] ^ (1 << rng.randrange(8))])
                elif r < 0.7:
                    del b[pos]
                elif r < 0.85:
                    b[pos:pos] = bytes([rng.choice([0, 0x80, 0xFF, 0x30, 0x02])])
                else:
                    b = b[:pos]
                if not b:
                    break
            out.append(bytes(b))
    return out


def units(ctx: Ctx, only=None):
    replaying = getattr(ctx, "replay_only", False)

    def g(f):
        return [] if replaying else f(ctx)

    us = [
        Unit("blob.pack_unpack", "blob.pack_unpack", g(gen_blobs), impl_pack_unpack, prop_pred=pred_pack_unpack),
        Unit("blob.windows", "blob.unpack", [] if replaying else windows_blobs(), impl_unpack, prop_pred=pred_windows),
        Unit("blob.emitted", "blob.emitted", g(gen_emitted), impl_emitted, prop_pred=pred_emitted),
        Unit("pkcs7.kekid", "pkcs7.kekid", g(gen_kekid), impl_kekid, prop_pred=lambda a, o: None),
        Unit("blob.malformed", "blob.unpack", g(gen_malformed_blobs), impl_unpack, prop_pred=pred_unpack_bucket, bucket=c07.bucket),
    ]
    _LAST_UNITS[:] = us
    return us


_LAST_UNITS: list = []


def oracles(ctx: Ctx):
    """Green path: evaluate the property predicate (independent encoder / strict reader / template) on the
    implementation's own output for every generated case, not only where model and implementation differ."""
    from ..core import run_impl

    for u in _LAST_UNITS:
        if u.prop_pred is None or u.name in ('pkcs7.kekid',):
            continue
        bad = 0
        for c in u.cases:
            o = run_impl(u.impl, c)
            ctx.oracle_runs += 1
            try:
                why = u.prop_pred(c, dec(o) if not o.startswith("!") else None)
            except Exception as exc:  # noqa: BLE001
                why = f"property predicate raised {type(exc).__name__}: {exc}"
            if why:
                bad += 1
                if bad <= 2:
                    ctx.violation("failing-input", f"oracle:{u.name}", {"unit": u.name, "model_unit": u.model_unit, "input": enc(c)[:20000],
                                                                     "observed_impl": o[:2000], "why": why}, key=f"{u.name}:{enc(c)[:80]}")


def search(ctx: Ctx):
    from ..core import run_impl

    tried = 0
    for name, cases, impl, pred in (
        ("blob.windows", windows_blobs(), impl_unpack, pred_windows),
        ("blob.pack_unpack", gen_blobs(ctx)[:120], impl_pack_unpack, pred_pack_unpack),
        ("blob.emitted", gen_emitted(ctx)[:15], impl_emitted, pred_emitted),
    ):
        for c in cases:
            tried += 1
            o = run_impl(impl, c)
            why = pred(c, dec(o))
            if why:
                return {"unit": name, "input": enc(c)[:4000], "observed": o[:300], "why": why, "tried": tried, "key": None}
    ctx.notes.append(f"search: {tried} blob cases satisfy the property on the implementation")
    return None
