"""C16 -- key material is accepted only from replies sealed by the security context."""
from __future__ import annotations

import asyncio

from .. import toyctx
from ..runner import Ctx, Unit
from ..val import Err
from .c14 import ScriptSock, _Writer

AREA = "client"
MANIFEST = {
    "text": "Coq theorems over an executable model of RpcClient._process_response whose unwrap guard, security-trailer offset, slice shapes and the rejection test for replies without "
            "security trailer are regenerated from the source, for an ARBITRARY security context: on an authenticated, sealed call a reply is accepted only if auth_len != 0 and the "
            "context's unwrap succeeded on exactly (first 24 octets, octets up to the security trailer, the 8-octet trailer header, the signature, the negotiated sign flag), and the "
            "Response handed to the caller is decoded from the reply with the unwrapped plaintext written over the sealed region; a reply without security trailer and any reply the "
            "context refuses are errors. Tie: kernels + correspondence of both client flavours, through the real AuthenticationProvider over a toy context that detects every bit "
            "change and replays: trailer removed, every single-bit flip, length/pad field edits, replay.",
    "note": "That a successful unwrap means 'sealed by the peer holding the session key' is the security context's (pyspnego/NTLM/Kerberos) integrity guarantee: an idealised premise, not proved. PDU decoding is Model/Pdu.v + Request.v (C12).",
    "technique": "Coq proof (case analysis over regenerated guards) + exhaustive bit-flip correspondence",
}
ASSUMPTIONS = ["unwrap_iov succeeds only on messages sealed by the peer's security context (integrity of the negotiated mechanism)",
               "a failed unwrap raises (pyspnego BadMICError and friends)"]
PARTIAL = [
    "the flow tie of _process_response is stated for EVERY unwrap function, but for an unwrap that changes the length of the sealed region the source raises BufferError (it assigns into a "
    "bytearray that a memoryview still exports) where the model's assign_slice resizes: the model accepts more than the code there (safe direction); every real security context and the toy "
    "context keep the length, which C16_stub_is_unsealed_plaintext assumes explicitly",
    "C16_stub_is_unsealed_plaintext (the stub handed to the caller is the octets the security context returned for the sealed region) is proved for the real call shape under the side "
    "condition 24 <= frag_len - auth_len - 8 (the declared lengths leave room for the 24 RESPONSE header octets in front of the security trailer); the degenerate accepted reply with "
    "frag_len - auth_len - 8 = 23 (seven body octets, an EMPTY stub) is not covered by that theorem (C16_sealed_only still applies to it); and it assumes that unwrap keeps the body "
    "length on success (true of the toy context, C16_toy_context; true of NTLM / Kerberos stream sealing; not proved of pyspnego)",
    "C16_altered_rejected_ideal is the IdealLaws form for an abstract relation sealed_by ('the peer\'s context produced this sealed body and signature for some plaintext, covering "
    "header and trailer iff header signing is on'): a reply that is no such output is refused. That a particular ALTERATION (one flipped bit ..) turns an output into a non-output is a "
    "property of the mechanism (MAC unforgeability), assumed (ASSUMPTIONS), shown for the toy context by the exhaustive bit-flip correspondence seal.tamper and the instance C16_stub_example",
    "no separate theorem named C16_key_material: 'key material (the GetKey envelope) is decoded only from such a stub' is C16_stub_is_unsealed_plaintext composed with C17_result "
    "(Properties/C17.v: the envelope is process_get_key_result of rs_stub_data of the Response that Seal.process_response returned)",
    "replay protection and the sign-flag binding are the security context's (sequence numbers inside unwrap); the model takes unwrap as a function of (header, body, trailer, signature, "
    "sign flag) for ONE call; seal.tamper checks replayed and wrong-mode replies are refused through the real AuthenticationProvider over the toy context",
]
RULE = ("an authentic sealed RESPONSE per (stub length, signature size, sign flag); alterations: security trailer removed (cleartext reply), every single-bit flip of every octet, "
        "pad_length / auth_len / frag_len / packet-type edits, replay under a different sequence number, sign flag mismatch; non-trivial = all; distinct = distinct case text")


def sealed_reply(data: bytes, sig_len: int, sign: bool, seq: int, ptype=10):
    from dpapi_ng._rpc import _pdu as P
    from dpapi_ng._rpc import _request as R

    pad = -len(data) % 16
    stub = data + b"\x00" * pad
    st = P.SecTrailer(type=P.SecurityProvider(ptype), level=P.AuthenticationLevel.RPC_C_AUTHN_LEVEL_PKT_PRIVACY, pad_length=pad,
                      context_id=0, auth_value=b"\x00" * sig_len)
    hdr = P.PDUHeader(version=5, version_minor=0, packet_type=P.PacketType.RESPONSE, packet_flags=P.PacketFlags(3), data_rep=P.DataRep(),
                      frag_len=0, auth_len=sig_len, call_id=1)
    b = bytearray(R.Response(header=hdr, sec_trailer=st, alloc_hint=len(stub), context_id=0, cancel_count=0, stub_data=stub).pack())
    b[8:10] = len(b).to_bytes(2, "little")
    off = len(b) - sig_len - 8
    h, body, trl = bytes(b[:24]), bytes(b[24:off]), bytes(b[off : off + 8])
    sealed = toyctx.toy_enc(body)
    return h + sealed + trl + toyctx.toy_sig(seq, sign, h, sealed, trl, sig_len), stub


def clear_reply(stub: bytes):
    from dpapi_ng._rpc import _pdu as P
    from dpapi_ng._rpc import _request as R

    hdr = P.PDUHeader(version=5, version_minor=0, packet_type=P.PacketType.RESPONSE, packet_flags=P.PacketFlags(3), data_rep=P.DataRep(),
                      frag_len=0, auth_len=0, call_id=1)
    b = bytearray(R.Response(header=hdr, sec_trailer=None, alloc_hint=len(stub), context_id=0, cancel_count=0, stub_data=stub).pack())
    b[8:10] = len(b).to_bytes(2, "little")
    return bytes(b)


def forged_reply(stub: bytes, auth_len: int, pad=0):
    """a well-formed RESPONSE with a CLEARTEXT stub and a security trailer whose auth value is auth_len arbitrary octets"""
    from dpapi_ng._rpc import _pdu as P
    from dpapi_ng._rpc import _request as R

    st = P.SecTrailer(type=P.SecurityProvider(10), level=P.AuthenticationLevel.RPC_C_AUTHN_LEVEL_PKT_PRIVACY, pad_length=pad,
                      context_id=0, auth_value=bytes((7 * i + 1) % 256 for i in range(auth_len)))
    hdr = P.PDUHeader(version=5, version_minor=0, packet_type=P.PacketType.RESPONSE, packet_flags=P.PacketFlags(3), data_rep=P.DataRep(),
                      frag_len=0, auth_len=auth_len, call_id=1)
    b = bytearray(R.Response(header=hdr, sec_trailer=st, alloc_hint=len(stub), context_id=0, cancel_count=0, stub_data=stub).pack())
    b[8:10] = len(b).to_bytes(2, "little")
    return bytes(b)


def impl_seal(arg):
    from dpapi_ng._rpc import _client as C

    flavour, auth, sign, has_offs, seq, stream = arg
    prov = toyctx.make_provider(10, 16, send_seq=0, recv_seq=seq) if auth else None
    if flavour == 0:
        sock = ScriptSock(bytes(stream), [], budget=4 * len(stream) + 50)
        c = C.SyncRpcClient(sock, prov)
        c._sign_header = bool(sign)
        if has_offs:
            r = c.request(0, 0, b"req")
        else:
            req, _ = c._create_request(0, 0, b"req")
            from dpapi_ng._rpc._request import Response

            r = c._send_pdu(req, Response, encrypt_offsets=None)
        return bytes(r.stub_data)

    async def run():
        reader = asyncio.StreamReader()
        reader.feed_data(bytes(stream))
        reader.feed_eof()
        c = C.AsyncRpcClient(reader, _Writer(), prov)
        c._sign_header = bool(sign)
        if has_offs:
            r = await c.request(0, 0, b"req")
        else:
            req, _ = c._create_request(0, 0, b"req")
            from dpapi_ng._rpc._request import Response

            r = await c._send_pdu(req, Response, encrypt_offsets=None)
        return bytes(r.stub_data)

    return asyncio.run(run())


def bucket(text: str) -> str:
    return "rejected" if text.startswith("e") else text


class Cases:
    def __init__(self, ctx: Ctx):
        self.cases = []
        self.truth = {}  # case text key -> (sealed stub or None)
        self.ctx = ctx

    def add(self, case, sealed_stub, authentic=False, wire=None, reject=None):
        """reject: why this reply must be refused whatever stub it carries (replay, sign-flag mismatch, cleartext / forged reply)"""
        from ..val import enc

        self.cases.append(case)
        self.truth[enc(case)] = (sealed_stub, authentic, wire, reject)


def gen(ctx: Ctx) -> Cases:
    cs = Cases(ctx)
    k = 0
    for n, sig_sign in ((5, 1), (16, 0), (40, 1)):
        data = bytes((11 * i + n) % 256 for i in range(n))
        for fl in (0, 1):
            sign = sig_sign
            seq = 3
            wire, stub = sealed_reply(data, 16, bool(sign), seq)
            cs.add([fl, 1, sign, 1, seq, wire], stub, authentic=True, wire=wire)
            # replay: the receiver expects another sequence number
            cs.add([fl, 1, sign, 1, seq + 1, wire], stub, reject="a replayed reply (sealed under another sequence number)")
            # header signing negotiated differently from what the peer used
            cs.add([fl, 1, 1 - sign, 1, seq, wire], stub, reject="a reply sealed under the other header-signing mode than the one negotiated")
            # security trailer removed: cleartext reply with an attacker-chosen stub
            cs.add([fl, 1, sign, 1, seq, clear_reply(b"EVIL" * 4)], stub, reject="a cleartext reply (no security trailer)")
            cs.add([fl, 1, sign, 1, seq, clear_reply(stub)], stub, reject="a cleartext reply (no security trailer) carrying the genuine stub")
            # forged replies: cleartext stub, a security trailer with an arbitrary "signature" of every plausible size
            for al in (1, 2, 7, 8, 12, 15, 16, 17, 28, 32, 60):
                cs.add([fl, 1, sign, 1, seq, forged_reply(b"EVIL" * 4, al)], stub, reject="a forged reply (cleartext stub, made-up signature)")
                cs.add([fl, 1, sign, 1, seq, forged_reply(stub, al, pad=len(stub) - n)], stub, reject="a forged reply (made-up signature) carrying the genuine stub")
            # forged replies whose security trailer octets (auth_type, auth_level, pad_length, reserved, context id) take
            # the values a reader might treat specially (0 = "none", other providers / levels, all ones)
            for al in (4, 16):
                base_f = forged_reply(b"EVIL" * 4, al)
                toff = len(base_f) - al - 8
                for o in range(8):
                    for v in (0, 1, 2, 5, 6, 9, 10, 16, 0x80, 0xFF):
                        m = bytearray(base_f)
                        if m[toff + o] == v:
                            continue
                        m[toff + o] = v
                        cs.add([fl, 1, sign, 1, seq, bytes(m)], stub, reject="a forged reply (cleartext stub, made-up signature, edited trailer)")
            # every single-bit flip
            step = 1 if (ctx.thorough or n <= 16) else 3
            for byte in range(0, len(wire), 1):
                for bit in range(8):
                    k += 1
                    if k % step:
                        continue
                    m = bytearray(wire)
                    m[byte] ^= 1 << bit
                    cs.add([fl, 1, sign, 1, seq, bytes(m)], stub, wire=wire)
            # field edits
            off = len(wire) - 16 - 8
            for (o, v) in [(off + 2, 0), (off + 2, 15), (off + 2, 200), (10, 0), (10, 15), (10, 17), (8, len(wire) - 1), (8, len(wire) - 16), (2, 3), (2, 0), (2, 12)]:
                m = bytearray(wire)
                m[o] = v % 256
                cs.add([fl, 1, sign, 1, seq, bytes(m)], stub)
            # truncation / extension
            cs.add([fl, 1, sign, 1, seq, wire[:-1]], stub)
            cs.add([fl, 1, sign, 1, seq, wire + b"\x00"], stub, authentic=True)
    # anonymous connection: cleartext replies are what is expected
    cs.add([0, 0, 0, 0, 0, clear_reply(b"plain stub")], None)
    cs.add([1, 0, 0, 0, 0, clear_reply(b"plain stub")], None)
    return cs


def make_pred(cs: Cases):
    from ..val import enc

    def pred(arg, out):
        sealed_stub, authentic, wire, reject = cs.truth.get(enc(arg), (None, False, None, None))
        if not arg[1]:
            return None
        if isinstance(out, Err) or out is None:
            if authentic:
                return f"an authentic sealed reply was refused ({out})"
            return None
        if reject:
            return f"{reject} was accepted: stub " + bytes(out)[:24].hex()
        if sealed_stub is None or bytes(out) != bytes(sealed_stub):
            return "a reply that the security context did not seal (or sealed with other content) was accepted: stub " + bytes(out)[:24].hex()
        if not authentic and wire is not None:
            # accepted although altered: acceptable only when the alteration left the protected octets alone:
            # body and signature always; the 24 header octets and the 8-octet trailer header when header signing is on
            stream, sign = bytes(arg[5]), bool(arg[2])
            if len(stream) == len(wire):
                off = len(wire) - 16 - 8
                protected = set(range(24, off)) | set(range(off + 8, len(wire)))
                if sign:
                    protected |= set(range(0, 24)) | set(range(off, off + 8))
                changed = [i for i in range(len(wire)) if stream[i] != wire[i]]
                hit = [i for i in changed if i in protected]
                if hit:
                    return f"a reply altered at octet {hit[0]} (protected by the security context{' with header signing' if sign else ''}) was accepted"
        return None

    return pred


def units(ctx: Ctx, only=None):
    if getattr(ctx, "replay_only", False):
        return [Unit("seal.tamper", "seal", [], impl_seal, bucket=bucket)]
    cs = gen(ctx)
    return [Unit("seal.tamper", "seal", cs.cases, impl_seal, prop_pred=make_pred(cs), bucket=bucket)]

# ---- request shapes: the reply-side gate must not depend on what the REQUEST carried ---------------------------------------
# (added after the seeded change C16-empty-stub-request-not-sealed-r8: a request with an empty stub was sent unsealed and the
# cooperating reply path then accepted a cleartext reply; the unit seal.tamper always sent the 3-octet stub b"req")
REQ_LENS = (0, 1, 15, 16, 17, 40)


def impl_reqshape(arg):
    """[flavour, sign, seq, request stub length, 0 (no verification trailer), reply octets] -> the stub handed to the caller, over the public
    request() of an authenticated connection (toy security context)"""
    import asyncio

    from dpapi_ng._rpc import _client as C

    flavour, sign, seq, reqlen, _unused, stream = arg
    prov = toyctx.make_provider(10, 16, send_seq=0, recv_seq=seq)
    stub = bytes((7 * i + 1) % 256 for i in range(reqlen))
    if flavour == 0:
        sock = ScriptSock(bytes(stream), [], budget=4 * len(stream) + 50)
        c = C.SyncRpcClient(sock, prov)
        c._sign_header = bool(sign)
        r = c.request(0, 0, stub)
        return bytes(r.stub_data)

    async def run():
        reader = asyncio.StreamReader()
        reader.feed_data(bytes(stream))
        reader.feed_eof()
        c = C.AsyncRpcClient(reader, _Writer(), prov)
        c._sign_header = bool(sign)
        r = await c.request(0, 0, stub)
        return bytes(r.stub_data)

    return asyncio.run(run())


def reqshape_cases(ctx: Ctx):
    """(case, expected stub or None when the reply must be refused, reason)"""
    out = []
    k = 0
    for reqlen in REQ_LENS:
        for sign in (0, 1):
            for n in (0, 5, 16):
                k += 1
                fl, seq = k % 2, 3 + k
                data = bytes((i * 11 + 3) % 256 for i in range(n))
                wire, stub = sealed_reply(data, 16, bool(sign), seq)
                out.append(([fl, sign, seq, reqlen, 0, wire], stub, None))
                out.append(([fl, sign, seq, reqlen, 0, clear_reply(b"EVIL" * 4)], None, "a cleartext reply (no security trailer)"))
                out.append(([fl, sign, seq, reqlen, 0, clear_reply(stub)], None, "a cleartext reply (no security trailer) carrying the genuine stub"))
                out.append(([fl, sign, seq, reqlen, 0, forged_reply(b"EVIL" * 4, 16)], None, "a forged reply (cleartext stub, made-up signature)"))
                out.append(([fl, sign, seq + 1, reqlen, 0, wire], None, "a replayed reply (sealed under another sequence number)"))
    return out


def pred_reqshape(want, reason):
    def pred(arg, out):
        what = f"request with a {arg[3]}-octet stub on an authenticated connection ({'async' if arg[0] else 'sync'}, header signing {'on' if arg[1] else 'off'}): "
        if want is None:
            if isinstance(out, Err) or out is None:
                return None
            return what + f"{reason} was accepted: stub " + bytes(out)[:24].hex()
        if isinstance(out, Err) or out is None:
            return what + f"an authentic sealed reply was refused ({out})"
        if bytes(out) != bytes(want):
            return what + "the stub handed to the caller is not what the security context unsealed: " + bytes(out)[:24].hex()
        return None

    return pred


def oracles(ctx: Ctx):
    from ..core import run_impl
    from ..val import dec, enc

    n = 0
    for arg, want, reason in reqshape_cases(ctx):
        n += 1
        o = run_impl(impl_reqshape, arg)
        why = pred_reqshape(want, reason)(arg, dec(o))
        if why:
            ctx.violation("failing-input", "oracle:seal.reqshape", {"unit": "seal.reqshape", "input": enc(arg), "why": why}, key="seal.reqshape")
            break
    ctx.oracle_runs += n
    ctx.extra["request_shape_replies"] = n


def _reqshape_replay_pred(arg, out):
    for a, want, reason in reqshape_cases(None):
        if a[:5] == list(arg[:5]) and bytes(a[5]) == bytes(arg[5]):
            return pred_reqshape(want, reason)(arg, out)
    return pred_reqshape(None, "this reply")(arg, out)


ORACLE_REPLAY = {"seal.reqshape": (impl_reqshape, _reqshape_replay_pred)}


def search(ctx: Ctx):
    from ..core import run_impl
    from ..val import dec, enc

    cs = gen(ctx)
    pred = make_pred(cs)
    tried = 0
    for c in cs.cases:
        tried += 1
        why = pred(c, dec(run_impl(impl_seal, c)))
        if why:
            return {"unit": "seal.tamper", "input": enc(c), "why": why, "tried": tried, "key": None}
    ctx.notes.append(f"search: {tried} replies satisfy the property on the implementation")
    return None
