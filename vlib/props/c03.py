"""C03 -- KEK derivation agrees on both sides and with an independent implementation."""
from __future__ import annotations

import hashlib
import hmac
import json
import os
import uuid

from .. import sym
from ..runner import Ctx, Unit
from ..val import Err
from .c11 import _gke, _kid, _kid_val, ref_eck, ref_ffk, ref_ffp, ref_kdfp

AREA = "gkdi"

MANIFEST = {
    "text": "Coq theorems over a faithful model of GroupKeyEnvelope.get_kek/new_kek, compute_kek(_from_public_key) and compute_public_key, for every Crypto record (KDFs and ECDH are "
            "parameters; finite-field DH is concrete): the KEK new_kek returns equals the KEK get_kek derives from any conforming covering seed envelope and the produced key identifier, in nonce "
            "mode, in DH mode for every p > 0, g, key_length, seed and ephemeral exponent (from the proved modpow = b^e mod m and (g^x)^y = (g^y)^x mod p), and in ECDH mode from the "
            "commutation law of the curve primitive; shared secrets and FFCDHKey fields are exactly key_length bytes (leading zeros kept) and round-trip; both sides equal the specification "
            "Spec/KekSpec.v written from MS-GKDI 3.1.4.1.2 / SP800-56A / SP800-108, with math.ceil(len / 8) (regenerated kernel, exactly-rounded float division) proved equal to "
            "(len + 7) div 8. Tie to the source: correspondence of both sides under symbolic crypto (output bytes are derivation terms) on small DH groups with frequent leading zeros and every "
            "key_length padding. The clause 'equals an independent implementation Windows uses' is supported by kek.real, which is a TEST: the implementation with real crypto against an "
            "independent SP800-108/56A/DH/ECDH reference written on hmac/hashlib and calibrated by AES-unwrapping the 16 Windows-produced blobs of tests/data.",
    "note": "Nonce-mode agreement is stated for an encrypting side that holds the L2 seed key of its position or a conforming envelope without L2 key (allowed at L2 = 31; "
            "new_kek then derives it -- the repair of defect D13, commit 38c07ef in /repo, which the model follows; instance C03_nonce_absent_l2_example). "
            "ECDH agreement is conditional on CryptoLaws.ec_commutes (shown to hold for the symbolic instance). DH hypotheses ask that KDF/RNG outputs are byte strings (wfb), "
            "that both envelopes carry the group's DH parameters (dh_group_params) and that both public values are valid group elements (dh_pub_valid): "
            "an ephemeral or group public value in {0, 1, p-1} is refused by the receiver since the repair of D16; the agreement theorems assume valid group elements "
            "(probability of a degenerate draw in the RFC 5114 group: 2^-256).",
    "technique": "Coq proof (modular exponentiation, fixed-width codecs, composition with the C02 chain theorem) + differential correspondence under symbolic crypto + calibrated reference test",
}
ASSUMPTIONS = [
    "CryptoLaws.ec_commutes for the ECDH primitive (theorem hypothesis; the symbolic instance satisfies it); kdf / concat_kdf are arbitrary functions",
    "kek.real is a test against an independent Python reference (hmac/hashlib, affine-coordinate NIST curves), calibrated on the Windows vectors; it supports, not proves, the 'independent implementation' clause",
]
RULE = ("4 hashes x {nonce, DH, ECDH_P256, ECDH_P384, ECDH_P521}; envelope positions on the edge lattice with conforming covering seed envelopes; DH groups p in {251, 257, 65521, 65537, 2^31-1, "
        "RFC 5114 2048/256, the same padded to 260 bytes, MODP-2048/1024 with g = 2 (real crypto)} with key_length paddings len(p)..len(p)+6 so that leading zero bytes are frequent; ephemeral keys random plus forced leading-zero shared secrets; hostile public "
        "keys (p = 0, short key_length, bad magic, truncations, unknown algorithms); non-trivial = a KEK or a distinct error class was produced; distinct = distinct canonical case text")

LABEL = "KDS service\0".encode("utf-16-le")
KEKCTX = "KDS public key\0".encode("utf-16-le")
OTHERINFO = "SHA512\0".encode("utf-16-le") + KEKCTX + LABEL
HASHES = {1: ("sha1", 20, "SHA1"), 2: ("sha256", 32, "SHA256"), 3: ("sha384", 48, "SHA384"), 4: ("sha512", 64, "SHA512")}
CURVE_HASH = {"P256": 2, "P384": 3, "P521": 4}
KDF_ALG = "SP800_108_CTR_HMAC"


def z16(s):
    return (s + "\0").encode("utf-16-le")


# ------------------------------------------------------------------------------------------------
# symbolic reference (spec oracle under Sym): the derivation *term* MS-GKDI prescribes
# ------------------------------------------------------------------------------------------------
def skdf(hid, key, label, context, length):
    return sym.symterm(1, [bytes([hid]), bytes(key), label, context, (length % 2 ** 32).to_bytes(4, "big")])


def sconcat(hid, shared, otherinfo, length):
    return sym.symterm(2, [bytes([hid]), bytes(shared), otherinfo, (length % 2 ** 32).to_bytes(4, "big")])


def ctx_bytes(rkid, l0, a, b):
    return bytes(rkid) + l0.to_bytes(4, "little", signed=True) + a.to_bytes(4, "little", signed=True) + b.to_bytes(4, "little", signed=True)


class SymChain:
    """MS-GKDI key hierarchy of one L0 under the symbolic KDF, from top = Key(SD, RK, L0, 31, -1)."""

    def __init__(self, hid, top, rkid, l0):
        self.hid, self.top, self.rkid, self.l0 = hid, top, rkid, l0

    def k1(self, i):
        key = self.top
        for j in range(30, i - 1, -1):
            key = skdf(self.hid, key, LABEL, ctx_bytes(self.rkid, self.l0, j, -1), 64)
        return key

    def k2(self, i, j):
        key = skdf(self.hid, self.k1(i), LABEL, ctx_bytes(self.rkid, self.l0, i, 31), 64)
        for m in range(30, j - 1, -1):
            key = skdf(self.hid, key, LABEL, ctx_bytes(self.rkid, self.l0, i, m), 64)
        return key

    def envelope_keys(self, l1, l2, drop_l2_at_31=False):
        if l2 == 31:
            return self.k1(l1), (b"" if drop_l2_at_31 else self.k2(l1, 31))
        return (self.k1(l1 - 1) if l1 > 0 else b""), self.k2(l1, l2)


def env_val(hid, flags, l0, l1, l2, rkid, sec_alg, sec_par, priv, pub, k1, k2, kdf_alg=KDF_ALG, kdf_par=None, dom="d.test", forest="f.test"):
    return [1, flags, l0, l1, l2, rkid, kdf_alg, ref_kdfp(HASHES[hid][2]) if kdf_par is None else kdf_par, sec_alg, sec_par, priv, pub, dom, forest, k1, k2]


def ceil8(n):
    return (n + 7) // 8


def spec_kek_sym(hid, seed, sec_alg, priv_bits, pub_struct, rnd, mode):
    """(kek, key_info, receiver_refuses) MS-GKDI prescribes, as symbolic terms; None when the sender has no KEK (invalid
    ephemeral key, a group key blob that does not use the group's parameters or carries a degenerate public value).
    receiver_refuses: the sender's ephemeral public value is degenerate (0, 1, p - 1) or the receiver's envelope carries
    other DH parameters: the receiver must raise ValueError (repair of D16) instead of deriving a KEK."""
    if mode == "nonce":
        return skdf(hid, seed, LABEL, rnd, 32), rnd, False
    y = int.from_bytes(skdf(hid, seed, LABEL, z16(sec_alg), ceil8(priv_bits)), "big")
    x = int.from_bytes(rnd, "big")
    if mode == "dh":
        kl, p, g, enc_params_ok, dec_params_ok = pub_struct
        if p == 0 or not enc_params_ok or not 1 < pow(g, y, p) < p - 1:
            return None
        shared = pow(pow(g, y, p), x, p).to_bytes(kl, "big")
        key_info = ref_ffk([kl, p, g, pow(g, x, p)])
        refuses = not dec_params_ok or not 1 < pow(g, x, p) < p - 1
        hs = 2
    else:
        name, kl = pub_struct
        if x <= 0:
            return None
        ax = pow(sym.SYM_G, y, sym.SYM_Q)
        shared = pow(ax, x, sym.SYM_Q).to_bytes(8, "big")
        bx = pow(sym.SYM_G, x, sym.SYM_Q)
        key_info = ref_eck([name, kl, bx, (7 * bx + sym.CURVE_ID[{"P256": "secp256r1", "P384": "secp384r1", "P521": "secp521r1"}[name]]) % sym.SYM_Q])
        hs = CURVE_HASH[name]
        refuses = False
    secret = sconcat(hs, shared, OTHERINFO, HASHES[hs][1])
    return skdf(hid, secret, LABEL, KEKCTX, 32), key_info, refuses


# ------------------------------------------------------------------------------------------------
# implementation side (symbolic crypto, os.urandom replaced)
# ------------------------------------------------------------------------------------------------
class _Urandom:
    def __init__(self, rnd):
        self.rnd, self.asked = bytes(rnd), None

    def __enter__(self):
        self.saved = os.urandom
        os.urandom = self  # dpapi_ng._gkdi calls os.urandom
        return self

    def __exit__(self, *a):
        os.urandom = self.saved

    def __call__(self, n):
        self.asked = n
        return self.rnd


def impl_agree(arg):
    from ..core import classify

    ee, ed, rnd = arg
    with sym.patched(budget=400), _Urandom(rnd):
        kek, kid = _gke(ee).new_kek()
        try:
            back = _gke(ed).get_kek(kid)
        except Exception as exc:  # noqa: BLE001
            back = classify(exc)
    return [kek, _kid_val(kid), back]


def impl_new(arg):
    from ..core import classify

    ev, rnd = arg
    with sym.patched(budget=400), _Urandom(rnd) as u:
        try:
            kek, kid = _gke(ev).new_kek()
            res = [kek, _kid_val(kid)]
        except Exception as exc:  # noqa: BLE001
            res = classify(exc)
            if u.asked is None:
                return [res, res]
    return [res, u.asked]


def impl_get(arg):
    ev, kv = arg
    with sym.patched(budget=400):
        return _gke(ev).get_kek(_kid(kv))


def impl_compute(arg):
    from dpapi_ng._gkdi import compute_kek

    from ..impl_util import hash_of_id

    if len(arg) == 5:
        hid, alg, sp, priv, pub = arg
    else:
        (hid, alg, priv, pub), sp = arg, b""
    with sym.patched():
        return compute_kek(hash_of_id(hid), alg, bytes(sp), bytes(priv), bytes(pub))


def impl_from_pub(arg):
    from dpapi_ng._gkdi import compute_kek_from_public_key

    from ..impl_util import hash_of_id

    if len(arg) == 6:
        hid, seed, alg, sp, pub, plen = arg
    else:
        (hid, seed, alg, pub, plen), sp = arg, b""
    with sym.patched():
        return compute_kek_from_public_key(hash_of_id(hid), bytes(seed), alg, bytes(sp), bytes(pub), plen)


def impl_pubkey(arg):
    from dpapi_ng._gkdi import compute_public_key

    alg, priv, peer = arg
    with sym.patched():
        return compute_public_key(alg, b"", bytes(priv), bytes(peer))


# ------------------------------------------------------------------------------------------------
# generators
# ------------------------------------------------------------------------------------------------
def rb(ctx, n):
    return bytes(ctx.rng.randrange(256) for _ in range(n))


DH_GROUPS = [(251, 6), (257, 3), (65521, 17), (65537, 3), (2 ** 31 - 1, 7), (4294967291, 2), (1, 0), (2, 1), (256, 3)]
POSITIONS = [(0, 0), (0, 31), (31, 31), (31, 0), (5, 7), (5, 31), (1, 0), (30, 30), (17, 31), (19, 6)]
# public-key modes: positions close to (31,31) keep the symbolic seed term (and so the derived exponent) small;
# the chain itself is C02's subject
PK_POSITIONS = [(31, 31), (31, 30), (30, 31), (30, 29), (29, 31)]


def agree_cases(ctx: Ctx, n):
    """(case, meta) pairs; meta = (mode, hid, seed, sec_alg, priv_bits, pub_struct, expect_agree)"""
    out = []
    rk = bytes(range(0x40, 0x50))
    k = 0

    def positions():
        for p in POSITIONS:
            yield p
        for _ in range(n):
            yield (ctx.rng.randrange(32), ctx.rng.randrange(32))

    # ---- nonce mode: encrypting side holds the seed envelope of its position; the decrypting side
    # holds the same envelope or a later conforming covering one
    for (l1, l2) in positions():
        k += 1
        hid = 1 + k % 4
        l0 = [361, 0, 2 ** 31 - 1][k % 3]
        ch = SymChain(hid, rb(ctx, 8), rk, l0)
        k1, k2 = ch.envelope_keys(l1, l2, drop_l2_at_31=(k % 3 == 0))  # L2 key absent at L2 = 31 (D13 shape)
        enc = env_val(hid, [0, 2][k % 2], l0, l1, l2, rk, "DH", b"", 512, 2048, k1, k2)
        shapes = [enc]
        d1, d2 = ctx.rng.randrange(l1, 32), ctx.rng.randrange(32)
        if d1 == l1:
            d2 = ctx.rng.randrange(l2, 32)
        kk1, kk2 = ch.envelope_keys(d1, d2, drop_l2_at_31=(k % 2 == 0))
        shapes.append(env_val(hid, 0, l0, d1, d2, rk, "DH", b"", 512, 2048, kk1, kk2))
        for dec_env in shapes:
            out.append(([enc, dec_env, rb(ctx, 32)], ("nonce", hid, ch.k2(l1, l2), None, None, None)))
    # ---- DH: small groups, every key_length padding
    for (p, g) in DH_GROUPS:
        plen = max(1, (p.bit_length() + 7) // 8)
        for pad in range(0, 7):
            for rep in range(max(1, n // 40)):
                k += 1
                hid = 1 + k % 4
                kl = plen + pad
                l1, l2 = PK_POSITIONS[k % len(PK_POSITIONS)]
                l0 = 361
                priv_bits = [8, 16, 12, 512, 1, 0, 33][k % 7]
                ch = SymChain(hid, rb(ctx, 8), rk, l0)
                seed = ch.k2(l1, l2)
                y = int.from_bytes(skdf(hid, seed, LABEL, z16("DH"), ceil8(priv_bits)), "big")
                pub = ref_ffk([kl, p, g, pow(g, y, p)])
                # both envelopes carry the group's DH parameters (msKds-SecretAgreementParam); now and then one side carries
                # other parameters (another generator / key_length / none): that side must refuse with ValueError
                par = ref_ffp([kl, p, g])
                enc_par, dec_par = par, par
                if k % 11 == 3:
                    enc_par = [ref_ffp([kl, p, (g + 1) % 256 ** kl]), ref_ffp([kl + 1, p, g]), b""][k % 3]
                if k % 13 == 5:
                    dec_par = [ref_ffp([kl, p, (g + 1) % 256 ** kl]), ref_ffp([kl + 1, p, g]), b""][k % 3]
                enc = env_val(hid, 1, l0, l1, l2, rk, "DH", enc_par, priv_bits, kl * 8, b"", pub)
                d1, d2 = (l1, l2) if k % 2 else (31, 31)
                kk1, kk2 = ch.envelope_keys(d1, d2, drop_l2_at_31=True) if (d1, d2) == (31, 31) else ch.envelope_keys(d1, d2)
                dec_env = env_val(hid, 0, l0, d1, d2, rk, "DH", dec_par, priv_bits, kl * 8, kk1, kk2)
                rnd = rb(ctx, ceil8(priv_bits))
                if k % 17 == 7:
                    rnd = b"\0" * ceil8(priv_bits)  # ephemeral exponent 0: public value 1, the receiver refuses
                out.append(([enc, dec_env, rnd], ("dh", hid, seed, "DH", priv_bits, (kl, p, g, enc_par == par, dec_par == par))))
    # ---- ECDH (symbolic commutative group standing in for the curve)
    for name, alg in (("P256", "ECDH_P256"), ("P384", "ECDH_P384"), ("P521", "ECDH_P521"), ("P256", "ECDH_P384")):
        for kl in (8, 9, 12, 32, 48, 66):
            for rep in range(max(1, n // 40)):
                k += 1
                hid = 1 + k % 4
                l1, l2 = PK_POSITIONS[k % len(PK_POSITIONS)]
                l0 = 361
                priv_bits = [256, 384, 521, 8][k % 4]
                ch = SymChain(hid, rb(ctx, 8), rk, l0)
                seed = ch.k2(l1, l2)
                y = int.from_bytes(skdf(hid, seed, LABEL, z16(alg), ceil8(priv_bits)), "big")
                ax = pow(sym.SYM_G, y, sym.SYM_Q)
                cid = {"P256": 1, "P384": 2, "P521": 3}[name]
                pub = ref_eck([name, kl, ax, (7 * ax + cid) % sym.SYM_Q])
                enc = env_val(hid, 1, l0, l1, l2, rk, alg, b"", priv_bits, kl * 8, b"", pub)
                kk1, kk2 = ch.envelope_keys(l1, l2)
                dec_env = env_val(hid, 0, l0, l1, l2, rk, alg, b"", priv_bits, kl * 8, kk1, kk2)
                rnd = rb(ctx, ceil8(priv_bits)) if rep or kl != 8 else b"\0" * ceil8(priv_bits)  # zero private key: ValueError
                out.append(([enc, dec_env, rnd], ("ecdh", hid, seed, alg, priv_bits, (name, kl))))
    return out


def pred_agree_factory(meta_by_key):
    from ..val import enc

    def pred(arg, out):
        meta = meta_by_key.get(enc(arg))
        if meta is None:
            return None
        mode, hid, seed, alg, priv_bits, pub_struct = meta
        want = spec_kek_sym(hid, seed, alg, priv_bits, pub_struct, bytes(arg[2]), mode)
        if want is None:
            if isinstance(out, Err):
                return None
            return f"no KEK is defined for this input but the library returned {repr(out)[:80]}"
        if isinstance(out, Err) or out is None:
            return f"new_kek raised {out} where MS-GKDI defines a KEK"
        kek, kid, back = out
        if kek != want[0]:
            return "encrypt-side KEK is not the derivation MS-GKDI / SP800-56A prescribes"
        if bytes(kid[6]) != want[1]:
            return "key identifier does not carry the prescribed nonce / ephemeral public key"
        if want[2]:
            if not (isinstance(back, Err) and back.name == "ValueError"):
                return f"the receiver must refuse a degenerate public value / foreign DH parameters with ValueError ({repr(back)[:60]})"
            return None
        if back != kek:
            return f"decrypt-side KEK differs from the encrypt-side KEK ({repr(back)[:60]})"
        return None

    return pred


def _params_of(pub: bytes) -> bytes:
    """the FFCDHParameters a DH key blob announces (what a consistent group key envelope would carry), b"" if it does not parse"""
    if pub[:4] != b"DHPB" or len(pub) < 8:
        return b""
    kl = int.from_bytes(pub[4:8], "little")
    if kl > 64 or len(pub) < 8 + 3 * kl:
        return b""
    return ref_ffp([kl, int.from_bytes(pub[8:8 + kl], "big"), int.from_bytes(pub[8 + kl:8 + 2 * kl], "big")])


def hostile_compute(ctx: Ctx, n):
    """compute_kek / compute_public_key / compute_kek_from_public_key on hostile public keys"""
    out_c, out_p, out_f = [], [], []
    good_dh = ref_ffk([2, 65521, 17, 1234])
    other_par = ref_ffp([2, 65521, 19])
    good_ec = ref_eck(["P256", 8, pow(3, 5, sym.SYM_Q), (7 * pow(3, 5, sym.SYM_Q) + 1) % sym.SYM_Q])
    pubs = [good_dh, good_ec,
            ref_ffk([2, 0, 17, 5]),          # modulus 0: pow() ValueError
            ref_ffk([2, 1, 0, 0]),           # modulus 1
            ref_ffk([1, 251, 6, 250]),         # p - 1: degenerate
            ref_ffk([1, 251, 6, 249]), ref_ffk([1, 251, 6, 2]), ref_ffk([1, 251, 6, 1]), ref_ffk([1, 251, 6, 0]), ref_ffk([1, 251, 6, 251]),
            ref_ffk([2, 65521, 17, 65520]), ref_ffk([2, 65521, 17, 65519]),
            b"DHPB" + (1).to_bytes(4, "little") + b"\xff\xf1" + b"\x00\x11" + b"\x04\xd2",  # key_length 1 but 2-byte ints: misparse
            b"DHPB" + (0).to_bytes(4, "little"),   # key_length 0: p = 0
            b"DHPX" + good_dh[4:], good_dh[:9], b"", good_dh + b"\0\0",
            ref_eck(["P256", 4, 1, 2]),      # not on the (symbolic) curve
            ref_eck(["P384", 8, pow(3, 5, sym.SYM_Q), (7 * pow(3, 5, sym.SYM_Q) + 2) % sym.SYM_Q]),
            ref_eck(["P521", 1, 3, 22]),     # key_length 1: public coordinates do not fit -> OverflowError in compute_public_key
            b"ECK9" + good_ec[4:], good_ec[:7], good_ec[:12]]
    algs = ["DH", "ECDH_P256", "ECDH_P384", "ECDH_P", "ECDH", "dh", "", "RSA", "ECDH_P256\0", "\ud800"]
    privs = [b"", b"\0", b"\1", b"\x01\x00", rb(ctx, 4), rb(ctx, 32), b"\0" * 8]
    k = 0
    for pub in pubs:
        for alg in algs:
            k += 1
            priv = privs[k % len(privs)]
            # secret_parameters: what the key blob announces (consistent group), sometimes other parameters or none
            sp = [_params_of(pub), _params_of(pub), _params_of(pub), other_par, b""][k % 5]
            out_c.append([1 + k % 4, alg, sp, priv, pub])
            out_c.append([1 + k % 4, alg, priv, pub])
            out_p.append([alg, priv, pub])
            out_f.append([1 + k % 4, rb(ctx, 6), alg, sp, pub, [0, 1, 2, 32, 64][k % 5]])
    for _ in range(n):
        kl = ctx.rng.randrange(0, 5)
        pub = ref_ffk([kl] + [ctx.rng.randrange(256 ** kl) for _ in range(3)]) if kl else ref_ffk([0, 0, 0, 0])
        priv = rb(ctx, ctx.rng.randrange(0, 6))
        out_c.append([1 + k % 4, "DH", _params_of(pub) if ctx.rng.randrange(8) else other_par, priv, pub])
        out_p.append(["DH", priv, pub])
        x = ctx.rng.randrange(1, sym.SYM_Q)
        name = ctx.rng.choice(["P256", "P384", "P521"])
        cid = {"P256": 1, "P384": 2, "P521": 3}[name]
        klen = ctx.rng.choice([7, 8, 8, 9, 16])
        try:
            pub = ref_eck([name, klen, x, (7 * x + cid) % sym.SYM_Q])
        except OverflowError:
            pub = ref_eck([name, 8, x, (7 * x + cid) % sym.SYM_Q])
        out_c.append([1 + k % 4, "ECDH_" + name, priv, pub])
        out_p.append(["ECDH_" + name, priv, pub])
    return out_c, out_p, out_f


def hostile_envelopes(ctx: Ctx, agree):
    """get_kek / new_kek guard paths: public-key flag, L0 mismatch, KDF algorithm, KDF parameters, hash names"""
    new_cases, get_cases = [], []
    base = agree[0][0]
    enc, dec_env, rnd = base
    kid = [1, enc[1], enc[2], enc[3], enc[4], enc[5], bytes(rnd), enc[12], enc[13]]
    get_cases.append([dec_env, kid])
    for mut in range(12):
        e = list(dec_env)
        kd = list(kid)
        if mut == 0:
            e[1] = 1  # seed side flagged public: ValueError
        elif mut == 1:
            kd[2] = e[2] + 1  # L0 mismatch
        elif mut == 2:
            e[6] = "SP800_108_CTR_HMAC2"
        elif mut == 3:
            e[7] = b"\0" * 30
        elif mut == 4:
            e[7] = ref_kdfp("MD5")
        elif mut == 5:
            e[7] = ref_kdfp("SHA256")
        elif mut == 6:
            kd[3], kd[4] = 32, 0  # out of range position
        elif mut == 7:
            kd[3], kd[4] = e[3], (e[4] + 1) % 33  # maybe not covered
        elif mut == 8:
            kd[1] = 1  # public-key key id against a DH envelope with garbage key_info
        elif mut == 9:
            kd[1], e[8] = 1, "RSA"
        elif mut == 10:
            e[7] = b""
        elif mut == 11:
            e[1], kd[2] = 3, e[2] + 1  # both: public flag wins
        get_cases.append([e, kd])
        new_cases.append([e, bytes(rnd)])
    for (c, _meta) in agree[:: max(1, len(agree) // 150)]:
        ee, ed, r = c
        new_cases.append([ee, r])
        kidv = [1, ee[1], ee[2], ee[3], ee[4], ee[5], bytes(r), ee[12], ee[13]]
        get_cases.append([ed, kidv])
    return new_cases, get_cases


def units(ctx: Ctx, only=None):
    from ..val import enc

    if getattr(ctx, "replay_only", False):
        agree, metas, cc, cp, cf, newc, getc = [], {}, [], [], [], [], []
    else:
        pairs = agree_cases(ctx, ctx.n(40, 800))
        ctx._c03_pairs = pairs  # type: ignore[attr-defined]
        agree = [c for c, _ in pairs]
        metas = {enc(c): m for c, m in pairs}
        cc, cp, cf = hostile_compute(ctx, ctx.n(60, 1500))
        newc, getc = hostile_envelopes(ctx, pairs)
    return [
        Unit("kek.sym.agree", "kek.agree", agree, impl_agree, prop_pred=pred_agree_factory(metas)),
        Unit("kek.sym.new", "kek.new", newc, impl_new),
        Unit("kek.sym.get", "kek.get", getc, impl_get),
        Unit("kek.sym.compute", "kek.compute", cc, impl_compute),
        Unit("kek.sym.from_pub", "kek.from_pub", cf, impl_from_pub),
        Unit("kek.sym.pubkey", "kek.pubkey", cp, impl_pubkey),
    ]


# ------------------------------------------------------------------------------------------------
# kek.real: independent reference on hmac/hashlib (SP800-108 CTR, SP800-56A single step, DH, ECDH)
# ------------------------------------------------------------------------------------------------
def ref_kdf108(hname, key, label, context, length):
    """SP800-108 counter mode, HMAC PRF, 32-bit counter before the fixed data, 32-bit [L]_2 in bits:
    K(i) = HMAC(K_I, [i]_2 || Label || 0x00 || Context || [L]_2)   (label already NUL-terminated UTF-16)"""
    out, i = b"", 1
    fixed = label + b"\x00" + context + (length * 8).to_bytes(4, "big")
    while len(out) < length:
        out += hmac.new(key, i.to_bytes(4, "big") + fixed, hname).digest()
        i += 1
    return out[:length]


def ref_concat56a(hname, z, otherinfo, length):
    """SP800-56A 5.8.1 single-step KDF: H(counter || Z || OtherInfo)"""
    out, i = b"", 1
    while len(out) < length:
        out += hashlib.new(hname, i.to_bytes(4, "big") + z + otherinfo).digest()
        i += 1
    return out[:length]


CURVES = {
    "P256": (0xFFFFFFFF00000001000000000000000000000000FFFFFFFFFFFFFFFFFFFFFFFF, -3,
             0x5AC635D8AA3A93E7B3EBBD55769886BC651D06B0CC53B0F63BCE3C3E27D2604B,
             0x6B17D1F2E12C4247F8BCE6E563A440F277037D812DEB33A0F4A13945D898C296,
             0x4FE342E2FE1A7F9B8EE7EB4A7C0F9E162BCE33576B315ECECBB6406837BF51F5,
             0xFFFFFFFF00000000FFFFFFFFFFFFFFFFBCE6FAADA7179E84F3B9CAC2FC632551, 32, "sha256"),
    "P384": (2 ** 384 - 2 ** 128 - 2 ** 96 + 2 ** 32 - 1, -3,
             0xB3312FA7E23EE7E4988E056BE3F82D19181D9C6EFE8141120314088F5013875AC656398D8A2ED19D2A85C8EDD3EC2AEF,
             0xAA87CA22BE8B05378EB1C71EF320AD746E1D3B628BA79B9859F741E082542A385502F25DBF55296C3A545E3872760AB7,
             0x3617DE4A96262C6F5D9E98BF9292DC29F8F41DBD289A147CE9DA3113B5F0B8C00A60B1CE1D7E819D7A431D7C90EA0E5F,
             0xFFFFFFFFFFFFFFFFFFFFFFFFFFFFFFFFFFFFFFFFFFFFFFFFC7634D81F4372DDF581A0DB248B0A77AECEC196ACCC52973, 48, "sha384"),
}


def ec_add(cv, P, Q):
    p, a = CURVES[cv][0], CURVES[cv][1]
    if P is None:
        return Q
    if Q is None:
        return P
    if P[0] == Q[0] and (P[1] + Q[1]) % p == 0:
        return None
    if P == Q:
        lam = (3 * P[0] * P[0] + a) * pow(2 * P[1], -1, p) % p
    else:
        lam = (Q[1] - P[1]) * pow(Q[0] - P[0], -1, p) % p
    x = (lam * lam - P[0] - Q[0]) % p
    return x, (lam * (P[0] - x) - P[1]) % p


def ec_mul(cv, k, P):
    R = None
    while k:
        if k & 1:
            R = ec_add(cv, R, P)
        P = ec_add(cv, P, P)
        k >>= 1
    return R


def ref_kek(hid, seed, sec_alg, priv_bits, key_info, public):
    """decrypt-side KEK from the L2 seed key and the key identifier's key_info, from the specs"""
    hname = HASHES[hid][0]
    if not public:
        return ref_kdf108(hname, seed, LABEL, key_info, 32)
    y = int.from_bytes(ref_kdf108(hname, seed, LABEL, z16(sec_alg), ceil8(priv_bits)), "big")
    if sec_alg == "DH":
        kl = int.from_bytes(key_info[4:8], "little")
        p, g, pub = (int.from_bytes(key_info[8 + i * kl: 8 + (i + 1) * kl], "big") for i in range(3))
        z = pow(pub, y, p).to_bytes(kl, "big")
        hs = "sha256"
    else:
        cv = {b"ECK1": "P256", b"ECK3": "P384"}[key_info[:4]]
        kl = int.from_bytes(key_info[4:8], "little")
        Q = (int.from_bytes(key_info[8:8 + kl], "big"), int.from_bytes(key_info[8 + kl:8 + 2 * kl], "big"))
        z = ec_mul(cv, y, Q)[0].to_bytes(CURVES[cv][6], "big")
        hs = CURVES[cv][7]
    secret = ref_concat56a(hs, z, OTHERINFO, hashlib.new(hs).digest_size)
    return ref_kdf108(hname, secret, LABEL, KEKCTX, 32)


def ref_chain_l2(hname, root_key, rkid, sd, l0, l1, l2):
    def c(a, b):
        return ctx_bytes(rkid, l0, a, b)

    key = ref_kdf108(hname, root_key, LABEL, c(-1, -1), 64)
    key = ref_kdf108(hname, key, LABEL, c(31, -1) + sd, 64)
    for i in range(30, l1 - 1, -1):
        key = ref_kdf108(hname, key, LABEL, c(i, -1), 64)
    key = ref_kdf108(hname, key, LABEL, c(l1, 31), 64)
    for j in range(30, l2 - 1, -1):
        key = ref_kdf108(hname, key, LABEL, c(l1, j), 64)
    return key


def windows_vectors():
    d = "/repo/tests/data"
    out = []
    for f in sorted(os.listdir(d)):
        if f.startswith("kdf_") and f.endswith(".json"):
            out.append((f, json.load(open(os.path.join(d, f)))))
    return out


def calibrate(ctx: Ctx):
    """The reference must open the 16 Windows-produced blobs: reference L2 chain + reference KEK, then RFC 3394
    unwrap of the wrapped CEK (its integrity check decides). Only the CMS parser of the library is used."""
    from cryptography.hazmat.primitives.keywrap import InvalidUnwrap, aes_key_unwrap

    from dpapi_ng._blob import DPAPINGBlob

    ok, total, kinds = 0, 0, {}
    for name, v in windows_vectors():
        total += 1
        blob = DPAPINGBlob.unpack(bytes.fromhex(v["Data"]))
        kid = blob.key_identifier
        hname = {"SHA1": 1, "SHA256": 2, "SHA384": 3, "SHA512": 4}[bytes.fromhex(v["KdfParameters"])[16:-2].decode("utf-16-le")]
        sd = blob.protection_descriptor.get_target_sd()
        seed = ref_chain_l2(HASHES[hname][0], bytes.fromhex(v["RootKeyData"]), uuid.UUID(v["RootKeyId"]).bytes_le, sd, kid.l0, kid.l1, kid.l2)
        kek = ref_kek(hname, seed, v["SecretAgreementAlgorithm"], int(v["PrivateKeyLength"]), kid.key_info, kid.is_public_key)
        ctx.oracle_runs += 1
        try:
            cek = aes_key_unwrap(kek, blob.enc_cek)
            ok += 1 if len(cek) == 32 else 0
        except InvalidUnwrap:
            ctx.violation("no-failing-input-found", "calibration:" + name,
                          {"why": "the independent SP800-108/56A/DH/ECDH reference does not unwrap the CEK of this Windows-produced blob"})
        kinds[v["SecretAgreementAlgorithm"] + ("/pub" if kid.is_public_key else "/nonce")] = kinds.get(v["SecretAgreementAlgorithm"] + ("/pub" if kid.is_public_key else "/nonce"), 0) + 1
    ctx.extra["calibration"] = {"windows_vectors": total, "unwrapped_with_reference_kek": ok, "kinds": kinds}
    return ok == total and total > 0


RFC5114_P = int("87A8E61DB4B6663CFFBBD19C651959998CEEF608660DD0F25D2CEED4435E3B00E00DF8F1D61957D4FAF7DF4561B2AA30"
                "16C3D91134096FAA3BF4296D830E9A7C209E0C6497517ABD5A8A9D306BCF67ED91F9E6725B4758C022E0B1EF4275BF7B"
                "6C5BFC11D45F9088B941F54EB1E59BB8BC39A0BF12307F5C4FDB70C581B23F76B63ACAE1CAA6B7902D52526735488A0E"
                "F13C6D9A51BFA4AB3AD8347796524D8EF6A167B5A41825D967E144E5140564251CCACB83E6B486F6B3CA3F7971506026"
                "C0B857F689962856DED4010ABD0BE621C3A3960A54E710C375F26375D7014103A4B54330C198AF126116D2276E11715F"
                "693877FAD7EF09CADB094AE91E1A1597", 16)
RFC5114_G = int("3FB32C9B73134D0B2E77506660EDBD484CA7B18F21EF205407F4793A1A0BA12510DBC15077BE463FFF4FED4AAC0BB555"
                "BE3A6C1B0C6B47B1BC3773BF7E8C6F62901228F8C28CBB18A55AE31341000A650196F931C77A57F2DDF463E5E9EC144B"
                "777DE62AAAB8A8628AC376D282D6ED3864E67982428EBC831D14348F6F2F9193B5045AF2767164E1DFC967C1FB3F2E55"
                "A4BD1BFFE83B9C80D052B985D182EA0ADB2A3B7313D3FE14C8484B1E052588B9B7D2BBD2DF016199ECD06E1557CD0915"
                "B3353BBB64E0EC377FD028370DF92B52C7891428CDC67EB6184B523D1DB246C32F63078490F00EF8D647D148D4795451"
                "5E2327CFEF98C582664B4C0F6CC41659", 16)


MODP2048 = int("FFFFFFFFFFFFFFFFC90FDAA22168C234C4C6628B80DC1CD129024E088A67CC74020BBEA63B139B22514A08798E3404DDEF9519B3CD3A431B"
               "302B0A6DF25F14374FE1356D6D51C245E485B576625E7EC6F44C42E9A637ED6B0BFF5CB6F406B7EDEE386BFB5A899FA5AE9F24117C4B1FE6"
               "49286651ECE45B3DC2007CB8A163BF0598DA48361C55D39A69163FA8FD24CF5F83655D23DCA3AD961C62F356208552BB9ED529077096966D"
               "670C354E4ABC9804F1746C08CA18217C32905E462E36CE3BE39E772C180E86039B2783A2EC07A28FB5C55DF06F4C52C9DE2BCBF695581718"
               "3995497CEA956AE515D2261898FA051015728E5A8AACAA68FFFFFFFFFFFFFFFF", 16)   # RFC 3526 group 14 (transcribed; any modulus serves the test)
MODP1024 = int("FFFFFFFFFFFFFFFFC90FDAA22168C234C4C6628B80DC1CD129024E088A67CC74020BBEA63B139B22514A08798E3404DDEF9519B3CD3A431B"
               "302B0A6DF25F14374FE1356D6D51C245E485B576625E7EC6F44C42E9A637ED6B0BFF5CB6F406B7EDEE386BFB5A899FA5AE9F24117C4B1FE6"
               "49286651ECE65381FFFFFFFFFFFFFFFF", 16)                                    # RFC 2409 group 2
# (key_length, p, g): the RFC 5114 2048/256 group Windows uses, the same with a padded key_length (every field then has
# leading zero bytes), MODP groups with generator 2, and small groups where leading zero bytes are the rule
REAL_DH_GROUPS = [(256, RFC5114_P, RFC5114_G), (260, RFC5114_P, RFC5114_G), (256, MODP2048, 2), (128, MODP1024, 2),
                  (2, 65521, 17), (5, 65521, 17), (4, 2 ** 31 - 1, 7), (1, 251, 6)]


def real_cases(ctx: Ctx, n):
    """(hid, mode, seed, sec_alg, priv_bits, public structure builder) for the implementation with real crypto"""

    # one L2 seed serves a block of 16 consecutive cases (4 hashes x 4 modes) IN ONE PROCESS: anything the library remembers about
    # a seed across calls (a memo keyed without the hash or the algorithm) then meets the same seed under the other configurations
    out = []
    seed = b""
    for k in range(n):
        hid = 1 + k % 4
        mode = ["nonce", "dh", "P256", "P384"][(k // 4) % 4]
        if k % 16 == 0:
            seed = rb(ctx, 64)
        out.append((hid, mode, seed))
    return out


def _shared_leading_zero(mode, y, key_info, kl, p=None):
    if mode == "dh":
        pub = int.from_bytes(key_info[8 + 2 * kl: 8 + 3 * kl], "big")
        return pow(pub, y, p) >> (8 * (kl - 1)) == 0
    from cryptography.hazmat.primitives.asymmetric import ec

    curve = {"P256": ec.SECP256R1(), "P384": ec.SECP384R1()}[mode]
    n = CURVES[mode][5]
    if not 0 < y < n:
        return False
    Q = ec.EllipticCurvePublicNumbers(int.from_bytes(key_info[8:8 + kl], "big"), int.from_bytes(key_info[8 + kl:8 + 2 * kl], "big"), curve).public_key()
    return ec.derive_private_key(y, curve).exchange(ec.ECDH(), Q)[0] == 0


def oracles(ctx: Ctx) -> None:
    if getattr(ctx, "replay_only", False):
        return
    if not calibrate(ctx):
        return
    from ..core import classify, run_impl
    from ..impl_util import mk_env
    from ..val import dec, enc

    # the property predicate (agreement + equality with the MS-GKDI derivation term) on every kek.sym.agree
    # implementation run, also where model and implementation agree
    pairs = getattr(ctx, "_c03_pairs", [])
    if not ctx.corr.get("kek.sym.agree", {}).get("disagreements"):
        pred = pred_agree_factory({enc(c): m for c, m in pairs})
        bad = 0
        for c, _m in pairs:
            ctx.oracle_runs += 1
            why = pred(c, dec(run_impl(impl_agree, c)))
            if why and bad < 2:
                bad += 1
                ctx.violation("failing-input", "oracle:kek.sym.agree", {"unit": "kek.sym.agree", "input": enc(c), "why": why}, key=f"kek.sym.agree:{enc(c)[:80]}")
    stats = {"cases": 0, "leading_zero_shared": 0, "leading_zero_public": 0, "disagreements": 0}
    rk = bytes(range(16))
    n = ctx.n(32, 640)
    for (hid, mode, seed) in real_cases(ctx, n):
        hname = HASHES[hid][0]
        l0, l1, l2 = 361, ctx.rng.randrange(32), ctx.rng.randrange(31)
        priv_bits = {"nonce": 512, "dh": 512, "P256": 256, "P384": 384}[mode]
        alg = {"nonce": "DH", "dh": "DH", "P256": "ECDH_P256", "P384": "ECDH_P384"}[mode]
        y = int.from_bytes(ref_kdf108(hname, seed, LABEL, z16(alg), ceil8(priv_bits)), "big")
        sec_par = b""
        if mode == "nonce":
            pub_struct = b""
        elif mode == "dh":
            groups = REAL_DH_GROUPS if ctx.thorough else REAL_DH_GROUPS[:2] + REAL_DH_GROUPS[4:6]
            gkl, gp, gg = groups[(stats["cases"] // 2) % len(groups)]
            pub_struct = ref_ffk([gkl, gp, gg, pow(gg, y, gp)])
            sec_par = ref_ffp([gkl, gp, gg])      # both envelopes carry the group's DH parameters
        else:
            cvp = CURVES[mode]
            A = ec_mul(mode, y % cvp[5], (cvp[3], cvp[4]))
            pub_struct = ref_eck([mode, cvp[6], A[0], A[1]])
        seed_env = mk_env(l0, l1, l2, rk, b"\x11" * 64, seed, flags=0, kdf_par=ref_kdfp(HASHES[hid][2]), sec_alg=alg, sec_par=sec_par, priv=priv_bits,
                          pub=2048)
        enc_env = seed_env if mode == "nonce" else mk_env(l0, l1, l2, rk, b"", pub_struct, flags=1, kdf_par=ref_kdfp(HASHES[hid][2]),
                                                          sec_alg=alg, sec_par=sec_par, priv=priv_bits, pub=2048)
        # encrypt side (real crypto); search a few ephemeral keys for a leading zero byte in the public value / shared secret
        tries = 1 if mode == "nonce" else ctx.n(60, 600)
        best = None
        want_zero_shared = stats["cases"] % 2 == 1
        for _ in range(tries):
            rnd = rb(ctx, 32 if mode == "nonce" else ceil8(priv_bits))
            with _Urandom(rnd):
                try:
                    kek, kid = enc_env.new_kek()
                except ValueError:
                    continue
            best = (rnd, kek, kid)
            if mode == "nonce":
                break
            kl = int.from_bytes(kid.key_info[4:8], "little")
            if want_zero_shared:
                # the shared secret is not observable from outside: use the group private key (fast library primitives
                # only to *find* an ephemeral key; the comparison below uses the independent reference)
                if _shared_leading_zero(mode, y, kid.key_info, kl, gp if mode == "dh" else None):
                    break
            elif kid.key_info[8 + (2 if mode == "dh" else 0) * kl] == 0:
                break
        if best is None:
            continue
        rnd, kek, kid = best
        stats["cases"] += 1
        if mode != "nonce" and kid.key_info[8 + (2 if mode == "dh" else 0) * int.from_bytes(kid.key_info[4:8], "little")] == 0:
            stats["leading_zero_public"] += 1
        ctx.oracle_runs += 1
        want = ref_kek(hid, seed, alg, priv_bits, kid.key_info, kid.is_public_key)
        try:
            back = seed_env.get_kek(kid)
        except Exception as exc:  # noqa: BLE001
            back = classify(exc)
        # encrypt-side reference: from the ephemeral private key and the group public key
        if mode == "nonce":
            want_enc = want
        else:
            x = int.from_bytes(rnd, "big")
            if mode == "dh":
                z = pow(pow(gg, y, gp), x, gp).to_bytes(gkl, "big")
                hs = "sha256"
            else:
                z = ec_mul(mode, x, A)[0].to_bytes(CURVES[mode][6], "big")
                hs = CURVES[mode][7]
            if z[0] == 0:
                stats["leading_zero_shared"] += 1
            want_enc = ref_kdf108(hname, ref_concat56a(hs, z, OTHERINFO, hashlib.new(hs).digest_size), LABEL, KEKCTX, 32)
        if not (kek == want == want_enc == back):
            stats["disagreements"] += 1
            if stats["disagreements"] <= 2:
                ctx.violation("failing-input", "oracle:kek.real",
                              {"unit": "kek.real", "why": "KEK of the implementation (real crypto) differs from the independent SP800-108/56A/DH/ECDH reference",
                               "mode": mode, "hash": hname, "seed": seed.hex(), "rnd": rnd.hex(), "position": [l0, l1, l2],
                               "impl_new_kek": kek.hex(), "impl_get_kek": repr(back)[:80], "reference_decrypt_side": want.hex(), "reference_encrypt_side": want_enc.hex()})
    ctx.extra["kek.real"] = stats
    ctx.corr["kek.real"] = {"cases": stats["cases"], "disagreements": stats["disagreements"], "impl_errors": {}, "sizes": {},
                            "note": "test: implementation with real crypto vs independent reference (not a proof)"}


def search(ctx: Ctx):
    """A C03 obligation no longer proves: evaluate agreement + equality with the symbolic spec oracle on the
    implementation over the agreement lattice."""
    from ..core import run_impl
    from ..val import dec, enc

    pairs = agree_cases(ctx, 60)
    pred = pred_agree_factory({enc(c): m for c, m in pairs})
    tried = 0
    for c, _m in pairs:
        tried += 1
        out = dec(run_impl(impl_agree, c))
        why = pred(c, out)
        if why:
            return {"unit": "kek.sym.agree", "input": enc(c), "expected": "the same KEK on both sides, equal to the MS-GKDI derivation term",
                    "observed": repr(out)[:300], "why": why, "tried": tried, "key": None}
    ctx.notes.append(f"search: {tried} (envelope pair, ephemeral key) cases satisfy agreement and the spec oracle on the implementation")
    return None
