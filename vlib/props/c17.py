"""C17 -- online against a conforming DC: faithful requests, correct results, sync = async."""
from __future__ import annotations

import asyncio
import struct
import uuid

from .. import refdc
from ..runner import Ctx, Unit
from ..val import Err

AREA = "online"
MANIFEST = {
    "text": "Coq model Model/Conversation.v composing the proved pieces (bind loop C15, request framing C13, receive loops C14, sealed replies C16, ept_map reply C18, GetKey stubs C11) "
            "into _sync_get_key / _async_get_key and the call sites of the four public functions; argument tuples, -1/-1/-1, contexts, tower, opnums, verification trailer and the "
            "fixed Bind fields are kernels / constants regenerated from the source. Theorems (Properties/C17.v): the GetKey stub sent is the NDR64 encoding (independent spec) of exactly "
            "(target SD, root key id, L0, L1, L2) of the blob for unprotect and of (SD, optional root key id, -1, -1, -1) for protect, and that encoding is injective; the ept_map request goes out in clear on context 0 / opnum 3 with the ISD_KEY tower; each bind offers exactly the static contexts; the request is "
            "sealed at level 6 with the ISD_KEY/NDR64 PCONTEXT|END verification trailer at the 4-byte boundary after the stub inside the sealed region; a reply is accepted only after "
            "a successful unwrap and then yields exactly the envelope a conforming DC marshalled. Tie: kernels + the public API (both flavours) run against an independent in-process "
            "reference DC (vlib/refdc.py; toy security context and real NTLM via pyspnego), transcript decoded by the DC's own decoders vs the extracted model.",
    "note": "sync = async is partial: the public function pairs are identical as normalised ASTs (twin kernels), _sync_get_key/_async_get_key differ syntactically for benign reasons and are "
            "tied by running both flavours against the same model transcript (C17_sync_async_partial). Result correctness beyond 'the envelope the DC sent is what the caller gets' is the "
            "composition with C01-C03: proved in Proofs/C17Compose.v (C17_online_unprotect / C17_online_protect: a conforming reply decrypts the blob / yields a blob that decrypts) "
            "and additionally checked by round trips against the reference DC.",
    "technique": "Coq proof (composition of C11/C13/C16 lemmas over regenerated kernels) + differential runs against an independent reference DC",
}
ASSUMPTIONS = ["the domain controller is conforming (reference DC of vlib/refdc.py: MS-GKDI 2.2.4 envelopes for the requested or current position, both L2=31 shapes)",
               "the security context keeps body lengths and produces signatures of the announced size (C13) and only unwraps what the peer sealed (C16)"]
RULE = ("operations x 4 hashes x {seed, DH, P256, P384} x SID shapes (SD length residues) x domain/forest name lengths (reply residues) x blob / DC-now positions incl. L2 = 31 in both "
        "shapes x {exact, covering} replies x provider {negotiate, ntlm, kerberos} x signature sizes x 1..4 legs (incl. empty final token) x header signing on/off x optional root key id, "
        "toy context, real NTLM and real SPNEGO(NTLM) through pyspnego, error replies (ept_map status, rejected context, GetKey failure); every case runs the sync AND the async API; non-trivial = all; distinct = distinct case text")
PARTIAL = [
    "the checking world of the source-level ties (Flow/World_online.v) gives every create_rpc_connection / bind / request a meaning only with the model's arguments, so the ties imply "
    "that EVERY request the source sends is the model's request at that stage; they do NOT bound the NUMBER of operations: each connection object starts its own stage and the scripted peer "
    "is replayed, so a source that opened an extra connection or repeated the endpoint-mapper block would satisfy the same statements (third audit: two such mutants). The number is "
    "constrained SYNTACTICALLY by C17_flow_call_sites (the regenerated bodies have exactly two connection set-ups, two binds, two requests, no loop: Prelude/PySyntax.v) and, on the "
    "implementation, by the correspondence online.refdc (full transcripts against the reference DC, sync and async); a semantic theorem that the transcript of the source run equals "
    "the model's transcript is not stated",
    "C17_sync_async_partial (kept for the model-level statement) is now complemented by theorems ABOUT THE SOURCE: the regenerated whole bodies of _sync_get_key and "
    "_async_get_key (flows k_flow_sync_get_key / k_flow_async_get_key) are each tied to get_key_conversation at their flavour for every peer script, provider script and security "
    "context (C17_flow_sync_get_key, C17_flow_async_get_key; precondition: a non-empty auth_protocol), in a CHECKING world (Flow/World_online.v) built from the model's own transcript: "
    "create_rpc_connection / bind / request mean something only with the call's server and credentials, the port tr_port, the model's contexts and REQUEST PDUs octet-equal to "
    "tr_ept_request / tr_getkey_request, so the ties carry request fidelity of the source (two mutants of the regenerated term are refused: C17_flow_mutants_refused), and C17_flow_get_key_sync_async states that the two regenerated functions return "
    "the same envelope or the same error whenever the two receive loops deliver the same PDUs (C14); request() of the two clients is the same term (C17_flow_request_twin). What remains "
    "partial: RpcClient._prepare_pdu patches frag_len / auth_len through a memoryview alias and is refused by the flow translator (no tie: kernels k_fraglen_patch / k_wrap_trailer_len + "
    "correspondence framing.request cover it); SyncRpcClient.bind is now tied semantically as well (C15_flow_sync_bind)",
    "C17_result is proved as stated in the brief, and its design-level extension `... and that envelope decrypts the blob / the blob produced from it decrypts` is now "
    "proved (Proofs/C17Compose.v) as the composition with C01-C03 over the same models: C17_dc_envelope (a successful conversation with a script marshalling e returns e), "
    "C17_unprotect_with_envelope (a protected blob names exactly the requested (SD, rkid, L0, L1, L2) and EVERY envelope conforming to MS-GKDI 2.2.4 for the root key -- env_ok, "
    "the predicate cache_ok imposes on cache entries -- and covering the position decrypts it, is stored, and then serves the blob from the cache), C17_protect_with_envelope "
    "(_encrypt_blob on a conforming seed-key / DH / ECDH envelope yields a blob every cache_ok cache decrypts, both layouts), and the end-to-end corollaries "
    "C17_online_unprotect / C17_online_protect (hypotheses of C17_result + `dc marshals e` + `e conforms`; conclusion: ncrypt_(un)protect_secret with the cache-miss branch "
    "filled in by the conversation returns the plaintext / a blob that decrypts; every position, both flavours, seed-key and public-key replies; instances run inside Coq: "
    "C17_online_unprotect_example, C17_online_protect_example). unprotect_via_dc / protect_via_dc (Model/Client.v's offline functions with "
    "the miss branch := the conversation; equal to the offline functions when no DC answers, C17_via_no_dc) ARE the functions C10's flow ties identify with the regenerated public "
    "functions: C17_unprotect_online_is_via_dc / C17_protect_online_is_via_dc (Proofs/C17Bridge.v) prove Flow_cache_public.unprotect_online / protect_online equal to them, the "
    "model-valued oracle being the interpreter-valued one applied to (server or the DC found for the domain, SD, root key id, L0, L1, L2 resp. -1, -1, -1, credentials). "
    "What remains outside these theorems: (a) the oracle itself: that the `getkey` callee of C10's world is the conversation of C17_flow_sync_get_key / C17_flow_async_get_key is "
    "the identification of one world entry with another theorem's subject, not a single composed statement; (b) conformance of the DC's envelope (env_ok / protect_env_ok) and the C06 size side conditions are hypotheses -- a non-conforming DC is outside the property; "
    "for a seed-key reply at L2 = 31 carrying an L2 key, that key must be the chain key (Spec/GkdiSpec.conforming is silent there; seed_env_ok adds it); (c) the primitives are the "
    "abstract Crypto record with its round-trip laws, as in C01; the round trips against the reference DC in online.refdc remain the tie to the real cryptography",
    "no liveness theorem: that a conforming peer script always leads to an envelope is shown by the Example C17_conversation_example (one complete conversation run inside Coq, both "
    "flavours) and by the correspondence, not for all scripts",
]

PLAIN = b"the secret \x00\x01\xff data"
USER, PASSWORD = "TESTDOM\\alice", "Passw0rd!"
RKIDS = [uuid.UUID("d778c271-9025-9a82-f6dc-b8960b8ad8c5"), uuid.UUID("00000000-1111-2222-3333-444444444444")]
SIDS = ["S-1-1-0", "S-1-5-18", "S-1-5-32-544", "S-1-5-21-1-2-3-1104", "S-1-5-21-4294967295-0-305419896-512",
        "S-1-5-21-1-2-3-4-5-6-7-8-9-10-11-12-13-14", "S-1-281474976710655-1-2"]
PROTOCOLS = ["negotiate", "ntlm", "kerberos"]
HASHES = refdc.HASHES
KINDS = refdc.KINDS


# ---------------------------------------------------------------------------------------------------------------------
# independent construction of the target security descriptor (MS-DTYP 2.4.6 self-relative SD, as MS-GKDI 3.1.4.1 clients build it:
# owner/group S-1-5-18, DACL = allow 0x3 to the protector SID, allow 0x2 to Everyone) -- used by the property predicate only
# ---------------------------------------------------------------------------------------------------------------------
def ref_sid(s: str) -> bytes:
    parts = s.split("-")
    subs = [int(x) for x in parts[3:]]
    return bytes([int(parts[1]), len(subs)]) + int(parts[2]).to_bytes(6, "big") + b"".join(struct.pack("<I", x) for x in subs)


def ref_target_sd(sid: str) -> bytes:
    def ace(s, mask):
        b = ref_sid(s)
        return bytes([0, 0]) + struct.pack("<H", 8 + len(b)) + struct.pack("<I", mask) + b

    aces = ace(sid, 3) + ace("S-1-1-0", 2)
    dacl = bytes([2, 0]) + struct.pack("<HHH", 8 + len(aces), 2, 0) + aces
    owner = ref_sid("S-1-5-18")
    # field order as Windows lays the descriptor out (and as the test vectors of MS-GKDI were derived): DACL, owner, group;
    # MS-DTYP leaves the order to the offsets, but the octets enter the key derivation, so the order matters here
    off_dacl = 20
    off_owner = off_dacl + len(dacl)
    off_group = off_owner + len(owner)
    return bytes([1, 0]) + struct.pack("<H", 0x8004) + struct.pack("<IIII", off_owner, off_group, 0, off_dacl) + dacl + owner + owner


# ---------------------------------------------------------------------------------------------------------------------
# cases
# ---------------------------------------------------------------------------------------------------------------------
# case = [2 (both flavours), op, [ptype, sig_len, legs], script, sid, rk|None, l0, l1, l2, cfgv]
# cfgv = [mode, proto, nlegs, final_empty, header_sign, hash, kind, authorized, now0, now1, now2, l2_shape, cover, domain, forest, isd_port,
#         ept_status, epm_result, isd_result, getkey_hresult, seg_seed]
CFG_FIELDS = ["mode", "proto", "nlegs", "final_empty", "header_sign", "hash", "kind", "authorized", "now0", "now1", "now2", "l2_shape", "cover",
              "domain", "forest", "isd_port", "ept_status", "epm_result", "isd_result", "getkey_hresult", "seg_seed"]


def cfg_of(v) -> refdc.Config:
    d = dict(zip(CFG_FIELDS, v))
    return refdc.Config(mode="ntlm" if d["mode"] else "toy", protocol=PROTOCOLS[d["proto"]], nlegs=d["nlegs"], final_empty=bool(d["final_empty"]),
                        header_sign=bool(d["header_sign"]), hash=HASHES[d["hash"]], kind=KINDS[d["kind"]], authorized=bool(d["authorized"]),
                        now=(d["now0"], d["now1"], d["now2"]), l2_shape="absent" if d["l2_shape"] else "present", cover="later" if d["cover"] else "exact",
                        domain=d["domain"], forest=d["forest"], isd_port=d["isd_port"], ept_status=d["ept_status"], epm_result=d["epm_result"],
                        isd_result=d["isd_result"], getkey_hresult=d["getkey_hresult"])


def provider_script(cfg: refdc.Config, sig_len: int):
    """legs of the client's provider and the tokens the server answers with; real NTLM uses placeholders (canonicalised on the way out)"""
    if cfg.mode == "ntlm":
        shape, sshape, sig = refdc.real_handshake_shape(cfg.protocol)
        legs = [[(b"C%d" % i) if nonempty else b"", 1 if complete else 0] for i, (nonempty, complete) in enumerate(shape)]
        stoks = [(b"S%d" % i) if present else None for i, present in enumerate(sshape)]
        return legs, stoks, sig, refdc.AUTHN[cfg.protocol]
    ctoks, stoks = refdc.toy_tokens(cfg.nlegs, cfg.final_empty)
    legs = [[tok, 1 if i == len(ctoks) - 1 else 0] for i, tok in enumerate(ctoks)]
    return legs, stoks, sig_len, refdc.AUTHN[cfg.protocol]


def dc_script(cfg: refdc.Config, sig_len: int, sd: bytes, rk, l0, l1, l2):
    """What a conforming exchange with this DC looks like from the client's side (the peer script of the model), built with the
    reference DC's own encoders -- not by running the library."""
    legs, stoks, sig_len, ptype = provider_script(cfg, sig_len)
    fl = refdc.PFC_FIRST | refdc.PFC_LAST
    epm_srv = [[0, [0 if cfg.epm_result == 0 else 2], fl, None]]
    status = cfg.ept_status
    towers = [] if status else [refdc.tcpip_tower(refdc.SYN_ISD, refdc.SYN_NDR, cfg.isd_port, b"\x0a\x00\x00\x01")]
    reply = refdc.encode_ept_map_reply(towers, 4, status)
    ept_stream = refdc.finish(refdc.PT_RESPONSE, fl, 1, struct.pack("<IHBB", len(reply), 0, 0, 0) + reply)
    aflags = fl | (refdc.PFC_SIGN if cfg.header_sign else 0)
    isd_srv = []
    sent_toks = [x for x, _ in legs if x]
    for i, _tok in enumerate(sent_toks):
        if i == 0:
            isd_srv.append([0, [0 if cfg.isd_result == 0 else 2, 3], aflags, stoks[i]])
        else:
            isd_srv.append([1, [0] if cfg.isd_result == 0 else [], aflags, stoks[i]])
    dc = refdc.DC(cfg)
    hres, env = cfg.getkey_hresult, b""
    if hres == 0:
        try:
            env = dc.envelope_for(sd, rk, l0, l1, l2)
        except KeyError:
            hres = 0x80070002
    greply = refdc.encode_getkey_reply(env, hres)
    h24, rstub, trl = refdc.plain_response(ptype, sig_len, 1, 0, greply)
    getkey_stream = h24 + rstub + trl + b"\x00" * sig_len
    return [ptype, sig_len, legs], [epm_srv, ept_stream, isd_srv, getkey_stream, []]


def mk_case(op, sid, rk_idx, pos, cfgv, sig_len=16):
    cfg = cfg_of(cfgv)
    sd = ref_target_sd(sid)
    rk = None if rk_idx is None else RKIDS[rk_idx]
    l0, l1, l2 = pos if op == 0 else (-1, -1, -1)
    prov, script = dc_script(cfg, sig_len, sd, rk, l0, l1, l2)
    return [2, op, prov, script, sid, None if rk is None else rk.bytes_le, l0, l1, l2, list(cfgv)]


def base_cfg(**kw):
    d = dict(mode=0, proto=0, nlegs=2, final_empty=0, header_sign=1, hash=4, kind=0, authorized=1, now0=361, now1=12, now2=7, l2_shape=0, cover=0,
             domain="domain.test", forest="forest.test", isd_port=49664, ept_status=0, epm_result=0, isd_result=0, getkey_hresult=0, seg_seed=0)
    d.update(kw)
    return [d[k] for k in CFG_FIELDS]


POSITIONS = [(0, 0), (0, 31), (31, 0), (31, 31), (1, 30), (12, 7), (30, 1), (5, 31), (17, 16)]


def gen_cases(ctx: Ctx):
    rng = ctx.rng
    cases = []
    k = 0
    # ---- boundary table: always generated ----
    # protect: DC "now" positions incl. L2 = 31 in both shapes, four kinds, four hashes
    for (n1, n2) in POSITIONS:
        for shape in (0, 1):
            if shape == 1 and n2 != 31:
                continue
            for kind in (0, 1, 2, 3):
                k += 1
                h = 1 + k % 4
                cases.append(mk_case(1, SIDS[k % len(SIDS)], [None, 0, 1][k % 3], None,
                                     base_cfg(hash=h, kind=kind, authorized=1 if kind == 0 else 0, now1=n1, now2=n2, l2_shape=shape,
                                              proto=k % 3, nlegs=1 + (k // 4) % 4, final_empty=1 if k % 5 == 0 else 0, header_sign=(k // 2) % 2,
                                              domain="d" * (1 + k % 9) + ".test", forest="f" * (k % 7) + "orest", seg_seed=k),
                                     sig_len=[16, 28, 60, 76][(k // 2) % 4]))
    # unprotect: blob positions x covering replies x kinds
    for (b1, b2) in POSITIONS:
        for cover in (0, 1):
            for kind in (0, 1, 2, 3):
                k += 1
                if not ctx.thorough and (k % 2) and kind in (2, 3):
                    continue
                l0 = 361 if k % 3 else 360
                shape = 1 if (k % 4 == 0) else 0
                cases.append(mk_case(0, SIDS[k % len(SIDS)], k % 2, (l0, b1, b2),
                                     base_cfg(hash=1 + k % 4, kind=kind, cover=cover, l2_shape=shape, now1=31 if k % 2 else 20, now2=31 if k % 2 else 9,
                                              proto=k % 3, nlegs=1 + (k // 3) % 4, final_empty=1 if k % 7 == 0 else 0, header_sign=(k // 2) % 2,
                                              domain="dom" + "x" * (k % 11), forest="for" + "y" * (k % 5), seg_seed=k),
                                     sig_len=[16, 28, 60, 76][(k // 5) % 4]))
    # real security contexts through pyspnego: NTLM, and SPNEGO negotiating NTLM (three legs, the last token empty)
    n_ntlm = ctx.n(10, 120)
    for i in range(n_ntlm):
        k += 1
        kind = i % 4
        op = i % 2
        pos = (361, POSITIONS[i % len(POSITIONS)][0], POSITIONS[i % len(POSITIONS)][1])
        n1, n2 = POSITIONS[(i * 5 + 3) % len(POSITIONS)]
        cases.append(mk_case(op, SIDS[i % len(SIDS)], (i % 2) if op == 0 else [None, 0][i % 2], pos,
                             base_cfg(mode=1, proto=i % 2, hash=1 + i % 4, kind=kind, authorized=1 if (kind == 0 or op == 0) else 0, now1=max(n1, pos[1]) if op == 0 else n1,
                                      now2=31 if op == 0 else n2, l2_shape=(i // 2) % 2, header_sign=(i // 3) % 2, cover=(i // 4) % 2, seg_seed=k)))
    # error replies of the peer
    for j, kw in enumerate([dict(ept_status=0x16C9A0D6), dict(epm_result=2), dict(isd_result=2), dict(getkey_hresult=0x80070005),
                            dict(isd_result=2, nlegs=1), dict(ept_status=1, nlegs=3)]):
        for op in (0, 1):
            k += 1
            cases.append(mk_case(op, SIDS[j % len(SIDS)], 0, (361, 3, 4), base_cfg(seg_seed=k, **kw)))
    # ---- random stream ----
    for _ in range(ctx.n(60, 1500)):
        k += 1
        op = rng.randrange(2)
        kind = rng.randrange(4)
        n1, n2 = rng.choice([0, 1, 30, 31, rng.randrange(32)]), rng.choice([0, 1, 30, 31, rng.randrange(32)])
        b1, b2 = rng.choice([0, 1, 30, 31, rng.randrange(32)]), rng.choice([0, 1, 30, 31, rng.randrange(32)])
        l0 = rng.choice([361, 361, 360, 5])
        cover = rng.randrange(2)
        if l0 == 361 and cover and (n1, n2) < (b1, b2):
            n1, n2 = b1, b2
        cases.append(mk_case(op, rng.choice(SIDS), rng.choice([0, 1]) if op == 0 else rng.choice([None, 0, 1]), (l0, b1, b2),
                             base_cfg(hash=1 + rng.randrange(4), kind=kind, authorized=1 if (kind == 0 or op == 0) else 0, now1=n1, now2=n2,
                                      l2_shape=rng.randrange(2), cover=cover, proto=rng.randrange(3), nlegs=1 + rng.randrange(4),
                                      final_empty=rng.randrange(2), header_sign=rng.randrange(2), domain="d" * rng.randrange(1, 20), forest="f" * rng.randrange(0, 20),
                                      isd_port=rng.choice([49664, 1024, 65535, 49152 + rng.randrange(1000)]), seg_seed=k),
                             sig_len=rng.choice([16, 28, 60, 76])))
    return cases


# ---------------------------------------------------------------------------------------------------------------------
# running the public API against the reference DC
# ---------------------------------------------------------------------------------------------------------------------
def segments_for(seed: int):
    import random

    r = random.Random(seed)
    return [r.choice([1, 2, 3, 7, 16, 24, 100, 4096]) for _ in range(64)] if seed % 3 else []


def api(flavour, name, *a, **kw):
    import dpapi_ng

    if flavour == 0:
        return getattr(dpapi_ng, name)(*a, **kw)
    return asyncio.run(getattr(dpapi_ng, "async_" + name)(*a, **kw))


_SETUP_BLOBS: dict = {}


def blob_for(sid, rk_idx, pos, cfgv):
    """A blob at the given position: protected through a set-up reference DC whose clock is at that position (L2 key present, the caller
    sees seed keys or only the public key according to `kind`). Sync flavour, toy context; not part of the observed transcript."""
    d = dict(zip(CFG_FIELDS, cfgv))
    key = (sid, rk_idx, tuple(pos), d["hash"], d["kind"])
    if key not in _SETUP_BLOBS:
        cfg = refdc.Config(hash=HASHES[d["hash"]], kind=KINDS[d["kind"]], authorized=(d["kind"] == 0), now=tuple(pos), l2_shape="present",
                           domain=d["domain"], forest=d["forest"])
        dc = refdc.DC(cfg)
        with refdc.hook(dc):
            _SETUP_BLOBS[key] = api(0, "ncrypt_protect_secret", PLAIN, sid, root_key_identifier=RKIDS[rk_idx], server="dc.test",
                                    username=USER, password=PASSWORD, auth_protocol="negotiate")
    return _SETUP_BLOBS[key]


def check_roundtrip(blob, cfgv):
    """The blob a protect call produced must decrypt for an authorised caller (a fresh conforming DC, seed keys, exact position)."""
    d = dict(zip(CFG_FIELDS, cfgv))
    cfg = refdc.Config(hash=HASHES[d["hash"]], kind=KINDS[d["kind"]], authorized=True, now=(d["now0"], d["now1"], d["now2"]), l2_shape="present",
                       domain=d["domain"], forest=d["forest"])
    dc = refdc.DC(cfg)
    with refdc.hook(dc):
        return api(0, "ncrypt_unprotect_secret", blob, server="dc.test", username=USER, password=PASSWORD, auth_protocol="negotiate")


def v_syntax(b: bytes):
    return [b[:16], int.from_bytes(b[16:18], "little"), int.from_bytes(b[18:20], "little")]


def v_bind(e: dict, tokmap):
    sec = e["sec"]
    secv = None
    auth_len = e["auth_len"]
    if sec is not None:
        tok = tokmap(sec["value"])
        auth_len = len(tok)
        secv = [sec["type"], sec["level"], sec["pad"], sec["ctx"], tok]
    return [e["ptype"], e["flags"], e["call_id"], auth_len, e["max_xmit"], e["max_recv"], e["assoc"],
            [[cid, v_syntax(a), [v_syntax(x) for x in xs]] for cid, a, xs in e["contexts"]], secv]


def v_envelope(env):
    return [env.version, env.flags, env.l0, env.l1, env.l2, env.root_key_identifier.bytes_le, env.kdf_algorithm, bytes(env.kdf_parameters),
            env.secret_algorithm, bytes(env.secret_parameters), env.private_key_length, env.public_key_length, env.domain_name, env.forest_name,
            bytes(env.l1_key), bytes(env.l2_key)]


def run_one(flavour, case):
    """Runs the public API once; returns the transcript value (same shape as Model/Units_online.v) plus harness-side facts."""
    import dpapi_ng._client as CL

    from ..core import classify

    _two, op, prov, script, sid, rk, l0, l1, l2, cfgv = case
    cfg = cfg_of(cfgv)
    cfg.sig_len = prov[1]
    d = dict(zip(CFG_FIELDS, cfgv))
    dc = refdc.DC(cfg)
    rk_idx = None if rk is None else [u.bytes_le for u in RKIDS].index(bytes(rk))
    blob = blob_for(sid, rk_idx, (l0, l1, l2), cfgv) if op == 0 else None
    got = {}
    real_sync, real_async = CL._sync_get_key, CL._async_get_key

    def rec_sync(*a, **kw):
        got["args"] = (a, kw)
        try:
            got["env"] = real_sync(*a, **kw)
        except Exception as exc:  # noqa: BLE001
            got["env"] = classify(exc)
            raise
        return got["env"]

    async def rec_async(*a, **kw):
        got["args"] = (a, kw)
        try:
            got["env"] = await real_async(*a, **kw)
        except Exception as exc:  # noqa: BLE001
            got["env"] = classify(exc)
            raise
        return got["env"]

    CL._sync_get_key, CL._async_get_key = rec_sync, rec_async
    outcome = None
    result = None
    try:
        with refdc.hook(dc, segments_for(d["seg_seed"])):
            try:
                if op == 0:
                    result = api(flavour, "ncrypt_unprotect_secret", blob, server="dc.test", username=USER, password=PASSWORD, auth_protocol=cfg.protocol)
                else:
                    result = api(flavour, "ncrypt_protect_secret", PLAIN, sid, root_key_identifier=None if rk_idx is None else RKIDS[rk_idx],
                                 server="dc.test", username=USER, password=PASSWORD, auth_protocol=cfg.protocol)
            except Exception as exc:  # noqa: BLE001
                outcome = classify(exc)
    finally:
        CL._sync_get_key, CL._async_get_key = real_sync, real_async
    facts = {"violations": list(dc.violations), "connections": list(dc.connections), "getkey_calls": list(dc.getkey_calls), "client_args": list(dc.client_args),
             "flavour_args": got.get("args"), "roundtrip": None}
    if outcome is None:
        if op == 0:
            outcome = 1 if result == PLAIN else Err("WrongPlaintext")
        else:
            try:
                back = check_roundtrip(result, cfgv)
                outcome = 1 if back == PLAIN else Err("WrongPlaintext")
            except Exception as exc:  # noqa: BLE001
                outcome = classify(exc)
                facts["roundtrip"] = f"{type(exc).__name__}"
    # ---- transcript from what the DC decoded ----
    ctx = dc.client_ctxs[-1] if dc.client_ctxs else None
    ntlm = cfg.mode == "ntlm"
    legs = prov[2]

    def tokmap(tok):
        tok = bytes(tok)
        if not ntlm or ctx is None:
            return tok
        outs = [x for x in ctx.step_outs if x]
        return legs[outs.index(tok)][0] if tok in outs else tok

    epm_binds = [v_bind(e, tokmap) for e in dc.log if e.get("conn") == "epm" and e.get("kind") == "bind"]
    ept = [e for e in dc.log if e.get("conn") == "epm" and e.get("kind") == "request"]
    isd_binds = [v_bind(e, tokmap) for e in dc.log if e.get("conn") == "isd" and e.get("kind") in ("bind", "alter")]
    gk = [e for e in dc.log if e.get("conn") == "isd" and e.get("kind") == "request"]
    steps = []
    if ctx is not None:
        acks = [s_ for s_ in dc.sent if s_["conn"] == "isd" and s_["ptype"] in (refdc.PT_BIND_ACK, refdc.PT_ALTER_RESP)]
        for i, a in enumerate(ctx.step_args):
            if ntlm and a is not None and i >= 1 and i - 1 < len(acks) and (acks[i - 1]["token"] or b"") == a and a:
                a = b"S%d" % (i - 1)
            steps.append(a)
    sign = None
    gkv = None
    if gk:
        e = gk[-1]
        if "plain" in e:
            csign = bool(ctx.wrap_calls[-1][3]) if ctx is not None and ctx.wrap_calls else None
            sign = csign
            gkv = [e["header24"], e["plain"], e["trailer8"], e["sig_len"], csign]
    envv = got.get("env")
    if envv is not None and not isinstance(envv, Err):
        envv = v_envelope(envv)
    port = dc.connections[1][1] if len(dc.connections) > 1 else None
    # consistency of the harness: the DC really answered with the scripted replies
    sent_isd = [s_ for s_ in dc.sent if s_["conn"] == "isd" and s_["ptype"] == refdc.PT_RESPONSE]
    if sent_isd and sent_isd[-1]["plain_wire"] != bytes(script[3]):
        facts["violations"].append("harness: the reference DC's GetKey reply differs from the pre-computed script")
    sent_epm = [s_ for s_ in dc.sent if s_["conn"] == "epm" and s_["ptype"] == refdc.PT_RESPONSE]
    if sent_epm and sent_epm[-1]["wire"] != bytes(script[1]):
        facts["violations"].append("harness: the reference DC's ept_map reply differs from the pre-computed script")
    if gk and "getkey" in gk[-1]:
        facts["getkey"] = gk[-1]["getkey"]
        facts["vt_offset"], facts["stub_len"], facts["vt"] = gk[-1]["vt_offset"], gk[-1]["stub_len"], gk[-1]["vt"]
        facts["level"] = gk[-1]["sec"]["level"]
    tr = [epm_binds, ept[-1]["wire"] if ept else None, port, isd_binds, steps, sign, gkv, envv, outcome]
    return tr, facts


_FACTS: dict = {}
_RESULTS: dict = {}


def impl_conversation(case):
    from ..val import enc

    fl = case[0]
    key = enc(case)
    if fl in (0, 1):
        tr, facts = run_one(fl, case)
        _FACTS[key] = [facts]
        _RESULTS[key] = (case, tr)
        return tr
    a, fa = run_one(0, case)
    b, fb = run_one(1, case)
    _FACTS[key] = [fa, fb]
    _RESULTS[key] = (case, [a, b])
    return [a, b]


def pred(case, out):
    """The property itself, evaluated on what the reference DC observed and on the API results (independent of the model)."""
    from ..val import enc

    _two, op, prov, script, sid, rk, l0, l1, l2, cfgv = case
    d = dict(zip(CFG_FIELDS, cfgv))
    facts = _FACTS.get(enc(case))
    if facts is None:
        impl_conversation(case)
        facts = _FACTS.get(enc(case))
    if out is None or isinstance(out, Err):
        return f"the call did not produce a transcript: {out}"
    outs = out if case[0] == 2 else [out]
    conforming = not (d["ept_status"] or d["epm_result"] or d["isd_result"] or d["getkey_hresult"])
    want_rk = None if rk is None else uuid.UUID(bytes_le=bytes(rk))
    want = (ref_target_sd(sid), want_rk, l0, l1, l2) if op == 0 else (ref_target_sd(sid), want_rk, -1, -1, -1)
    for tr, f in zip(outs, facts):
        if conforming and "getkey" in f:
            sd, grk, g0, g1, g2 = f["getkey"]
            if (bytes(sd), grk, g0, g1, g2) != want:
                return f"GetKey asked for (sd[{len(sd)}], {grk}, {g0}, {g1}, {g2}) instead of (sd[{len(want[0])}], {want[1]}, {want[2]}, {want[3]}, {want[4]})"
        if f["violations"]:
            return "the reference DC saw a non-conforming client: " + "; ".join(f["violations"])[:300]
        if not conforming:
            if not isinstance(tr[8], Err):
                return "the peer reported an error but the call succeeded"
            continue
        if "getkey" not in f:
            return f"no GetKey request reached the DC (outcome {tr[8]})"
        if len(f["getkey_calls"]) != 1:
            return f"{len(f['getkey_calls'])} GetKey calls in one operation"
        if f["level"] != 6:
            return "GetKey not sealed at RPC_C_AUTHN_LEVEL_PKT_PRIVACY"
        if f["vt_offset"] % 4 or f["vt_offset"] - f["stub_len"] > 3 or f["vt"] != refdc.VT_SIGNATURE + struct.pack("<HH", 0x4002, 40) + refdc.SYN_ISD + refdc.SYN_NDR64:
            return "interface verification trailer missing / not at the 4-byte boundary after the stub"
        if [p for _h, p in f["connections"]] != [135, d["isd_port"]]:
            return f"connections went to ports {[p for _h, p in f['connections']]}"
        ca = f["client_args"][-1] if f["client_args"] else None
        if not ca or ca["username"] != USER or ca["password"] != PASSWORD or ca["hostname"] != "dc.test" or ca["protocol"] != PROTOCOLS[d["proto"]]:
            return "credentials / protocol / target host handed to the security provider differ from the caller's"
        if tr[8] != 1:
            what = "the data does not decrypt" if op == 0 else f"the produced blob does not decrypt ({f.get('roundtrip')})"
            return f"{what}: {tr[8]} [DC position {(d['now0'], d['now1'], d['now2'])}, L2 key {'absent' if d['l2_shape'] else 'present'}, kind {KINDS[d['kind']]}]"
    if case[0] == 2 and outs[0] != outs[1]:
        for i, (x, y) in enumerate(zip(outs[0], outs[1])):
            if x != y:
                return f"sync and async conversations differ in transcript element {i}"
    return None


def impl_static(_arg):
    import dpapi_ng._client as CL

    def ce(c):
        s = lambda x: [x.uuid.bytes_le, x.version, x.version_minor]  # noqa: E731
        return [c.context_id, s(c.abstract_syntax), [s(x) for x in c.transfer_syntaxes]]

    return [[ce(c) for c in CL._EPM_CONTEXTS], [ce(c) for c in CL._ISD_KEY_CONTEXTS], CL._EPT_MAP_ISD_KEY.pack(), CL._VERIFICATION_TRAILER.pack()]


def pred_static(_arg, out):
    """the static objects against the reference DC's constants (specifications)"""
    if out is None or isinstance(out, Err):
        return "static data not available"
    epm, isd, ept, vt = out
    if epm != [[0, [refdc.UUID_EPM.bytes_le, 3, 0], [[refdc.UUID_NDR64.bytes_le, 1, 0]]]]:
        return "EPM presentation context is not (0, EPM v3.0, NDR64)"
    if isd[0] != [0, [refdc.UUID_ISD_KEY.bytes_le, 1, 0], [[refdc.UUID_NDR64.bytes_le, 1, 0]]] or isd[1][1] != isd[0][1] or bytes(isd[1][2][0][0])[:8] != refdc.BTFN_PREFIX:
        return "ISD_KEY presentation contexts are not (ISD_KEY v1.0 / NDR64) + bind time feature negotiation"
    rq = refdc.decode_ept_map_request(bytes(ept))
    if rq["max_towers"] != 4 or rq["floors"][0] != (0x0D, refdc.SYN_ISD[:18], refdc.SYN_ISD[18:]) or rq["floors"][3] != (7, b"", b"\x00\x87"):
        return "ept_map request does not ask for ISD_KEY over TCP"
    if bytes(vt) != refdc.VT_SIGNATURE + struct.pack("<HH", 0x4002, 40) + refdc.SYN_ISD + refdc.SYN_NDR64:
        return "verification trailer is not PCONTEXT|END for ISD_KEY / NDR64"
    return None


def units(ctx: Ctx, only=None):
    replaying = getattr(ctx, "replay_only", False)
    cases = [] if replaying else gen_cases(ctx)
    return [
        Unit("online.refdc", "conversation", cases, impl_conversation, prop_pred=pred),
        Unit("online.static", "static", [] if replaying else [0], impl_static, prop_pred=pred_static),
    ]


def oracles(ctx: Ctx):
    """The property predicate on EVERY case that was run (the runner evaluates it only where model and implementation disagree)."""
    from ..val import dec, enc

    reported = {v["detail"].get("input") for v in ctx.violations if isinstance(v.get("detail"), dict)}
    bad = 0
    for key, (case, out) in list(_RESULTS.items()):
        ctx.oracle_runs += 1
        why = pred(case, out)
        if why and key not in reported:
            bad += 1
            if bad <= 3:
                ctx.violation("failing-input", "oracle:online.refdc",
                              {"unit": "online.refdc", "model_unit": "conversation", "input": key, "why": why}, key=f"online.refdc:{key[:80]}")


def search(ctx: Ctx):
    from ..core import run_impl
    from ..val import dec, enc

    tried = 0
    full = Ctx(ctx.prop, "thorough" if ctx.thorough else "quick", ctx.seed)
    for c in gen_cases(full):
        tried += 1
        why = pred(c, dec(run_impl(impl_conversation, c)))
        if why:
            return {"unit": "online.refdc", "input": enc(c), "why": why, "tried": tried, "key": None}
    ctx.notes.append(f"search: {tried} conversations satisfy the property on the implementation")
    return None
