"""C07 -- ASN.1 DER primitives: minimal encoding, exact decoding, exact consumption."""
from __future__ import annotations

from ..runner import Ctx, Unit
from ..val import Err, dec, enc

AREA = "asn1"

MANIFEST = {
    "text": "Coq theorems over a function-for-function model of _asn1.py (thresholds, masks, shifts and tag numbers regenerated from the source) against a relational DER spec "
            "written from X.690 (Spec/DerSpec.v): for every tag class/number/constructed bit and every content the writer emits the unique minimal identifier and length octets and the "
            "header reader returns them; for ALL integers z the writer emits the unique minimal two's-complement content and the reader returns z; OIDs the writer accepts round-trip; "
            "booleans/octet/UTF-8/time strings round-trip; every read returns exactly the bytes after the value; arbitrarily nested writer trees are read back by an independent strict "
            "recursive-descent parser and concatenations are read in order with nothing left. Tie to _asn1.py: kernels + differential correspondence (extracted model vs implementation) on "
            "integer boundary tables up to 2^4096, all integers of <= 3 content octets (thorough), tag/length tables, OIDs, random nested trees and a malformed stream.",
    "note": "Refuted/C07_int_reader_prefix.v documents D1/D2 on a snapshot of the unrepaired reader. The writer refuses OIDs whose second arc exceeds 39 (so 2.40+ cannot be written) and the reader takes only the first content octet as 40*a+b; universal tag numbers above 36 are "
            "written but refused by the reader (TypeTagNumber). Both are stated in the theorems as domain limits of the code, not violations. Content lengths are < 256^126.",
    "technique": "Coq proof (relational DER spec, induction over digits/trees) + kernels + differential correspondence with an independent strict DER reader as oracle",
}

ASSUMPTIONS = [
    "CPython semantics of int/bytearray/memoryview slicing, struct.unpack('B'), str.encode/bytes.decode('utf-8') as modelled in coq/Prelude",
    "OIDs are compared as arc lists; the dotted-decimal string form is produced/parsed by the harness (str(int), int(str))",
]
RULE = ("boundary tables first (integers +-2^k, +-2^k+-1 for k <= 4096; lengths 0,1,127,128,255,256,65535,65536; tag numbers 0,1,30,31,127,128,16383,16384,2^32; all four classes), then "
        "seeded random values/trees; a separate malformed stream of mutated encodings compared by outcome bucket; non-trivial = the case produced bytes or a distinct error class; "
        "distinct = distinct canonical case text per unit")
PARTIAL: list = []  # every statement of DESIGN 7/C07 is proved; TLV round trips carry the stated side condition len(content) < 256^126

DELIBERATE = {"ValueError", "NotImplementedError", "NotEnoughData", "InvalidTag", "InvalidUnwrap"}
UNIVERSAL_NUMBERS = set(range(0, 37))
CK_MOD = 2305843009213693951


# ------------------------------------------------------------------------------------------------
# Independent DER encoder / strict reader written from X.690 (8.1.2, 8.1.3, 8.3, 8.19, 10.1)
# ------------------------------------------------------------------------------------------------
class DerError(Exception):
    pass


def der_base128(n: int) -> bytes:
    out = [n & 0x7F]
    n >>= 7
    while n:
        out.append(0x80 | (n & 0x7F))
        n >>= 7
    return bytes(reversed(out))


def der_ident(cls: int, cons: bool, num: int) -> bytes:
    first = (cls << 6) | (0x20 if cons else 0)
    if num < 31:
        return bytes([first | num])
    return bytes([first | 31]) + der_base128(num)


def der_len(n: int) -> bytes:
    if n < 128:
        return bytes([n])
    b = n.to_bytes((n.bit_length() + 7) // 8, "big")
    return bytes([0x80 | len(b)]) + b


def der_tlv(cls: int, cons: bool, num: int, content: bytes) -> bytes:
    return der_ident(cls, cons, num) + der_len(len(content)) + content


def der_int_content(z: int) -> bytes:
    n = (z.bit_length() if z >= 0 else (~z).bit_length()) // 8 + 1
    return z.to_bytes(n, "big", signed=True)


def der_oid_content(arcs) -> bytes:
    return b"".join(der_base128(a) for a in [40 * arcs[0] + arcs[1]] + list(arcs[2:]))


def strict_parse(data: bytes, depth: int = 0):
    """Strict DER reader: list of (cls, cons, num, content-bytes | children). Raises DerError."""
    out = []
    pos = 0
    n = len(data)
    while pos < n:
        first = data[pos]
        pos += 1
        cls, cons, num = first >> 6, bool(first & 0x20), first & 0x1F
        if num == 31:
            num = 0
            k = 0
            while True:
                if pos >= n:
                    raise DerError("truncated identifier")
                o = data[pos]
                pos += 1
                if k == 0 and o == 0x80:
                    raise DerError("non-minimal high tag number")
                num = (num << 7) | (o & 0x7F)
                k += 1
                if not o & 0x80:
                    break
            if num < 31:
                raise DerError("high-tag-number form used for a number below 31")
        if pos >= n:
            raise DerError("truncated length")
        l0 = data[pos]
        pos += 1
        if l0 < 128:
            length = l0
        else:
            k = l0 & 0x7F
            if k == 0 or k == 127:
                raise DerError("indefinite / reserved length")
            if pos + k > n:
                raise DerError("truncated length octets")
            if data[pos] == 0:
                raise DerError("length with leading zero octet")
            length = int.from_bytes(data[pos:pos + k], "big")
            pos += k
            if length < 128:
                raise DerError("long form used for a short length")
        if pos + length > n:
            raise DerError("content exceeds the data")
        content = data[pos:pos + length]
        pos += length
        out.append((cls, cons, num, strict_parse(content, depth + 1) if cons else content))
    return out


def strict_int(content: bytes) -> int:
    if not content:
        raise DerError("empty INTEGER")
    if len(content) > 1 and ((content[0] == 0 and content[1] < 128) or (content[0] == 255 and content[1] >= 128)):
        raise DerError("non-minimal INTEGER")
    return int.from_bytes(content, "big", signed=True)


# ------------------------------------------------------------------------------------------------
# Implementation side of each unit
# ------------------------------------------------------------------------------------------------
def _classify(exc):
    from ..core import classify

    return classify(exc)


def _tag(tg):
    import dpapi_ng._asn1 as A

    if tg is None:
        return None
    return A.ASN1Tag(tag_class=tg[0], tag_number=tg[1], is_constructed=bool(tg[2]))


def impl_int(z):
    import dpapi_ng._asn1 as A

    try:
        w = A.ASN1Writer()
        w.write_integer(z)
        data = bytes(w.get_data())
    except Exception as exc:  # noqa: BLE001
        return [_classify(exc), None]
    try:
        r = A.ASN1Reader(data)
        v = r.read_integer()
        back = [v, r.get_remaining_data()]
    except Exception as exc:  # noqa: BLE001
        back = _classify(exc)
    return [data, back]


def pred_int(z, out):
    if not isinstance(out, list) or len(out) != 2:
        return f"unexpected output {out!r}"[:200]
    data, back = out
    want = b"\x02" + der_len(len(der_int_content(z))) + der_int_content(z)
    if data != want:
        return f"INTEGER {z if abs(z) < 2**64 else 'z'} written as {bytes(data).hex()[:60] if isinstance(data, bytes) else data}, the minimal DER encoding is {want.hex()[:60]}"
    if back != [z, b""]:
        return f"INTEGER written as {want.hex()[:60]} but read back as {back!r}"[:300]
    return None


def impl_int_range(arg):
    import dpapi_ng._asn1 as A

    lo, n = arg
    ok, acc, firstbad = 0, 0, None
    for z in range(lo, lo + n):
        d, v, good = b"", 0, False
        try:
            d = bytes(A._pack_asn1_integer(z))
            try:
                r = A.ASN1Reader(d)
                v = r.read_integer()
                good = v == z and r.get_remaining_data() == b""
            except Exception:  # noqa: BLE001
                v, good = 0, False
        except Exception:  # noqa: BLE001
            d, v, good = b"", 0, False
        if good:
            ok += 1
        elif firstbad is None:
            firstbad = z
        acc = (acc * 1000003 + 7 * int.from_bytes(d, "big") + v + 1) % CK_MOD
    return [ok, acc, firstbad]


def spec_int_range(arg):
    lo, n = arg
    acc = 0
    for z in range(lo, lo + n):
        c = der_int_content(z)
        d = b"\x02" + der_len(len(c)) + c
        acc = (acc * 1000003 + 7 * int.from_bytes(d, "big") + z + 1) % CK_MOD
    return [n, acc, None]


def pred_int_range(arg, out):
    want = spec_int_range(arg)
    if out != want:
        fb = out[2] if isinstance(out, list) and len(out) == 3 else None
        return f"range [{arg[0]}, {arg[0] + arg[1]}): {out!r} instead of {want!r}; first integer that does not round-trip: {fb}"[:300]
    return None


def impl_int_content(content):
    import dpapi_ng._asn1 as A

    d = bytes(A._pack_asn1(A.TagClass.UNIVERSAL, False, A.TypeTagNumber.INTEGER, content))
    r = A.ASN1Reader(d)
    v = r.read_integer()
    return [v, r.get_remaining_data()]


def pred_int_content(content, out):
    try:
        want = strict_int(bytes(content))
    except DerError:
        # not DER: the property only requires a deliberate rejection or a value, never an internal error
        if isinstance(out, Err) and out.name not in DELIBERATE:
            return f"internal error {out.name} on a non-DER INTEGER content {bytes(content).hex()[:40]!r}"
        return None
    if out != [want, b""]:
        return f"DER INTEGER content {bytes(content).hex()[:40]} (= {want if abs(want) < 2**64 else '..'}) read as {out!r}"[:300]
    return None


def impl_tlv(arg):
    import dpapi_ng._asn1 as A

    c, k, n, content, suffix = arg
    tag = A.ASN1Tag(tag_class=c, tag_number=n, is_constructed=bool(k))
    try:
        w = A.ASN1Writer()
        w.write_octet_string(content, tag)
        data = bytes(w.get_data())
    except Exception as exc:  # noqa: BLE001
        return [_classify(exc), None, None]
    view = data + suffix
    try:
        h = A.ASN1Reader(view).peek_header()
        hv = [int(h.tag.tag_class), int(h.tag.tag_number), bool(h.tag.is_constructed), h.tag_length, h.length]
    except Exception as exc:  # noqa: BLE001
        hv = _classify(exc)
    try:
        r = A.ASN1Reader(view)
        v = r.read_octet_string(tag)
        rv = [v, r.get_remaining_data()]
    except Exception as exc:  # noqa: BLE001
        rv = _classify(exc)
    return [data, hv, rv]


def pred_tlv(arg, out):
    c, k, n, content, suffix = arg
    if not (0 <= c <= 3 and n >= 0):
        return None if isinstance(out[0], Err) and out[0].name == "ValueError" else f"invalid tag accepted: {out!r}"[:200]
    want = der_tlv(c, bool(k), n, bytes(content))
    if out[0] != want:
        return f"TLV written as {bytes(out[0]).hex()[:60] if isinstance(out[0], bytes) else out[0]}, DER is {want.hex()[:60]}"
    if c == 0 and n not in UNIVERSAL_NUMBERS:
        return None  # the reader only admits the universal numbers of TypeTagNumber (stated domain limit)
    hl = len(want) - len(content)
    if out[1] != [c, n, bool(k), hl, len(content)]:
        return f"header of {want[:12].hex()}.. read as {out[1]!r}, expected {[c, n, bool(k), hl, len(content)]}"
    if out[2] != [bytes(content), bytes(suffix)]:
        return "value / remaining data differ from what was written"
    return None


def _oid_str(arcs):
    return ".".join(str(a) for a in arcs)


def impl_oid(arg):
    import dpapi_ng._asn1 as A

    arcs, suffix = arg
    try:
        w = A.ASN1Writer()
        w.write_object_identifier(_oid_str(arcs))
        data = bytes(w.get_data())
    except Exception as exc:  # noqa: BLE001
        return [_classify(exc), None]
    try:
        r = A.ASN1Reader(data + suffix)
        v = r.read_object_identifier()
        back = [[int(x) for x in v.split(".")], r.get_remaining_data()]
    except Exception as exc:  # noqa: BLE001
        back = _classify(exc)
    return [data, back]


def pred_oid(arg, out):
    arcs, suffix = arg
    legal = len(arcs) >= 2 and all(a >= 0 for a in arcs) and arcs[0] <= 2 and (arcs[1] <= 39 or arcs[0] == 2)
    if not legal:
        return None
    if arcs[1] > 39:
        return None  # legal OID (2.40 and above) that the writer refuses by design: domain limit stated in the manifest
    c = der_oid_content(arcs)
    want = b"\x06" + der_len(len(c)) + c
    if out[0] != want:
        return f"OID {_oid_str(arcs)[:60]} written as {out[0]!r}"[:200]
    if out[1] != [list(arcs), bytes(suffix)]:
        return f"OID {_oid_str(arcs)[:60]} read back as {out[1]!r}"[:300]
    return None


def _w_node(A, w, node):
    k, tg, p = node
    tag = _tag(tg)
    if k == 0:
        w.write_boolean(bool(p), tag)
    elif k == 1:
        w.write_integer(p, tag)
    elif k == 2:
        w.write_octet_string(p, tag)
    elif k == 3:
        w.write_utf8_string(p, tag)
    elif k == 4:
        w.write_object_identifier(_oid_str(p), tag)
    elif k == 5:
        w.write_generalized_time(p, tag)
    elif k == 6:
        w.write_enumerated(p, tag)
    elif k in (7, 8):
        with (w.push_sequence(tag) if k == 7 else w.push_set(tag)) as c:
            for ch in p:
                _w_node(A, c, ch)
    else:
        raise TypeError("kind")


def _r_node(A, r, node):
    k, tg, p = node
    tag = _tag(tg)
    if k == 0:
        v = r.read_boolean(tag)
    elif k == 1:
        v = r.read_integer(tag)
    elif k == 2:
        v = r.read_octet_string(tag)
    elif k == 3:
        v = r.read_utf8_string(tag)
    elif k == 4:
        v = [int(x) for x in r.read_object_identifier(tag).split(".")]
    elif k == 5:
        v = r.read_generalized_time(tag)
    elif k == 6:
        v = r.read_enumerated(int, tag)
    elif k in (7, 8):
        sub = r.read_sequence(tag) if k == 7 else r.read_set(tag)
        v = [_r_node(A, sub, ch) for ch in p]
        v.append(sub.get_remaining_data())
    else:
        raise TypeError("kind")
    return [k, tg, v]


def impl_tree(arg):
    import dpapi_ng._asn1 as A

    nodes, suffix = arg
    try:
        w = A.ASN1Writer()
        for nd in nodes:
            _w_node(A, w, nd)
        data = bytes(w.get_data())
    except Exception as exc:  # noqa: BLE001
        return [_classify(exc), None]
    try:
        r = A.ASN1Reader(data + suffix)
        vals = [_r_node(A, r, nd) for nd in nodes]
        back = [vals, r.get_remaining_data()]
    except Exception as exc:  # noqa: BLE001
        back = _classify(exc)
    return [data, back]


_DEFAULT_TAG = {0: (0, False, 1), 1: (0, False, 2), 2: (0, False, 4), 3: (0, False, 12), 4: (0, False, 6), 5: (0, False, 24),
                6: (0, False, 10), 7: (0, True, 16), 8: (0, True, 17)}


def spec_node(node):
    """Independent expectation: (cls, cons, num, content | children) and the value read back."""
    k, tg, p = node
    cls, cons, num = (tg[0], bool(tg[2]), tg[1]) if tg is not None else _DEFAULT_TAG[k]
    if k == 0:
        return (cls, cons, num, b"\xff" if p else b"\x00"), [k, tg, bool(p)]
    if k in (1, 6):
        return (cls, cons, num, der_int_content(p)), [k, tg, p]
    if k == 2:
        return (cls, cons, num, bytes(p)), [k, tg, bytes(p)]
    if k in (3, 5):
        return (cls, cons, num, p.encode("utf-8")), [k, tg, p]
    if k == 4:
        return (cls, cons, num, der_oid_content(p)), [k, tg, list(p)]
    subs = [spec_node(ch) for ch in p]
    return (cls, cons, num, [s[0] for s in subs]), [k, tg, [s[1] for s in subs] + [b""]]


def _flatten(t):
    cls, cons, num, c = t
    body = b"".join(_flatten(x) for x in c) if isinstance(c, list) else c
    return der_tlv(cls, cons, num, body)


def pred_tree(arg, out):
    nodes, suffix = arg
    try:
        specs = [spec_node(nd) for nd in nodes]
        want = b"".join(_flatten(s[0]) for s in specs)
    except (UnicodeEncodeError, IndexError, OverflowError):
        return None  # a value the writer must refuse (lone surrogate ...): outcome compared by the model only
    if out[0] != want:
        return f"writer output {out[0]!r:.80} differs from the DER encoding {want.hex()[:80]}"
    # independent strict reader recovers the same tree (primitive nodes whose tag is constructed are not trees)
    try:
        parsed = strict_parse(want)
    except DerError as exc:
        if _all_consistent(specs):
            return f"strict DER reader rejects the writer output: {exc}"
        parsed = None
    if parsed is not None and _all_consistent(specs):
        if parsed != [_norm(s[0]) for s in specs]:
            return "strict DER reader recovers a different tree"
    if _readable(nodes) and out[1] != [[s[1] for s in specs], bytes(suffix)]:
        return f"values read back differ from the values written: {out[1]!r:.200}"
    return None


def _norm(t):
    cls, cons, num, c = t
    return (cls, cons, num, [_norm(x) for x in c] if isinstance(c, list) else c)


def _all_consistent(specs):
    def ok(t):
        cls, cons, num, c = t
        if isinstance(c, list):
            return cons and all(ok(x) for x in c)
        return not cons
    return all(ok(s[0]) for s in specs)


def _readable(nodes):
    def ok(nd):
        k, tg, p = nd
        if tg is not None and tg[0] == 0 and tg[1] not in UNIVERSAL_NUMBERS:
            return False
        if k == 4 and not (len(p) >= 2 and p[0] <= 2 and p[1] <= 39 and all(a >= 0 for a in p)):
            return False
        if k in (7, 8):
            return all(ok(ch) for ch in p)
        return True
    return all(ok(nd) for nd in nodes)


def _walk(A, reader):
    n = 0
    while reader:
        h = reader.peek_header()
        t = h.tag
        up = t.tag_class == A.TagClass.UNIVERSAL and not t.is_constructed
        if up and t.tag_number == A.TypeTagNumber.INTEGER:
            reader.read_integer()
        elif up and t.tag_number == A.TypeTagNumber.OBJECT_IDENTIFIER:
            reader.read_object_identifier()
        elif up and t.tag_number == A.TypeTagNumber.BOOLEAN:
            reader.read_boolean()
        elif up and t.tag_number == A.TypeTagNumber.UTF8_STRING:
            reader.read_utf8_string()
        elif t.is_constructed:
            n += _walk(A, reader.read_sequence(header=h))
        else:
            reader.read_octet_string(header=h)
        n += 1
    return n


def impl_walk(data):
    import dpapi_ng._asn1 as A

    return _walk(A, A.ASN1Reader(bytes(data)))


def oracle_strict(data):
    """The check's own strict DER reader, compared with Spec/DerSpec.v strict_parse (extracted)."""
    def conv(t):
        cls, cons, num, c = t
        return [cls, num, cons, [conv(x) for x in c] if isinstance(c, list) else c]
    try:
        return [conv(t) for t in strict_parse(bytes(data))]
    except DerError:
        return None


def bucket(text: str) -> str:
    if text.startswith("e"):
        return "deliberate-error" if text[1:] in DELIBERATE else "internal-error"
    return text


def pred_walk(data, out):
    if isinstance(out, Err) and out.name not in DELIBERATE:
        return f"reading {bytes(data).hex()[:60]} ends with the internal error {out.name} instead of a deliberate one"
    if out is None:
        return "no output"
    # valid DER made of the types the walk reads strictly must be accepted
    try:
        tree = strict_parse(bytes(data))
    except DerError:
        return None
    if isinstance(out, Err) and _walk_acceptable(tree):
        return f"strict DER {bytes(data).hex()[:60]} rejected with {out.name}"
    return None


def _walk_acceptable(tree):
    for cls, cons, num, c in tree:
        if cls == 0 and num not in UNIVERSAL_NUMBERS:
            return False
        if cons:
            if not _walk_acceptable(c):
                return False
            continue
        if cls == 0 and num == 2:
            try:
                strict_int(c)
            except DerError:
                return False
        if cls == 0 and num == 6:
            if not c or c[-1] & 0x80 or any(c[i] == 0x80 and (i == 0 or not c[i - 1] & 0x80) for i in range(len(c))):
                return False
            if c[0] & 0x80:
                return False  # first subidentifier >= 128 (arc 2.48+): outside the reader's domain
        if cls == 0 and num == 12:
            try:
                c.decode("utf-8")
            except UnicodeDecodeError:
                return False
    return True


# ------------------------------------------------------------------------------------------------
# Generators
# ------------------------------------------------------------------------------------------------
LENGTHS = [0, 1, 2, 126, 127, 128, 129, 255, 256, 257, 65535, 65536, 65537]
TAGNUMS = [0, 1, 2, 4, 16, 17, 30, 31, 32, 36, 37, 127, 128, 16383, 16384, 2 ** 21 - 1, 2 ** 21, 2 ** 32, 2 ** 64 + 1]


def int_table():
    vals = set()
    ks = list(range(0, 72)) + [127, 128, 255, 256, 511, 512, 1023, 1024, 2047, 2048, 4095, 4096]
    for k in ks:
        for d in (-1, 0, 1):
            vals.add(2 ** k + d)
            vals.add(-(2 ** k) + d)
    for k in range(8, 72, 8):  # negative values whose encoding ends in zero octets (carry chains)
        for j in range(8, k + 1, 8):
            vals.add(-(2 ** k) + 2 ** j if j < k else -(2 ** k))
            vals.add(-(2 ** k) - 2 ** j)
    vals.update([0, 1, -1, 127, 128, -128, -129, 255, 256, -255, -256, -257, 32767, 32768, -32768, -32769, -65536, -65535, -65537,
                 -(2 ** 23), -(2 ** 24), -(2 ** 32), -(2 ** 64), 748591, -748591])
    return sorted(vals, key=lambda z: (abs(z), z))


def gen_ints(ctx: Ctx):
    out = int_table()
    for _ in range(ctx.n(800, 20000)):
        w = ctx.rng.choice([1, 2, 3, 4, 5, 8, 9, 16, 17, 32, 33, 64, 128, ctx.rng.randrange(1, 300)])
        z = ctx.rng.getrandbits(8 * w) - (1 << (8 * w - 1))
        if ctx.rng.random() < 0.3:  # force trailing zero octets
            nz = ctx.rng.randrange(1, w + 1)
            z = (z >> (8 * nz)) << (8 * nz)
        out.append(z)
    return out


def gen_int_ranges(ctx: Ctx):
    if ctx.thorough:
        # every integer of at most 3 content octets: [-2^23, 2^23) in shards of 8192
        return [[lo, 8192] for lo in range(-(2 ** 23), 2 ** 23, 8192)]
    cs = []
    for c in (-(2 ** 23), -(2 ** 16), -(2 ** 15), -256, -128, 0, 128, 256, 2 ** 15, 2 ** 16, 2 ** 23, -(2 ** 24), -(2 ** 32)):
        cs.append([c - 300, 600])
    cs.append([-70000, 8000])
    return cs


def gen_int_contents(ctx: Ctx):
    out = [b"", b"\x00", b"\x80", b"\xff", b"\x00\x00", b"\x00\x7f", b"\x00\x80", b"\xff\x7f", b"\xff\x80", b"\xff\xff", b"\xff\x00", b"\xff\x00\x00",
           b"\xff\xff\x00\x00", b"\x80\x00\x00", b"\x80\x00", b"\x00\x00\x01", b"\xfe\x00\x00\x00\x00", b"\x80" + bytes(16), b"\xff" * 9, b"\x00" * 9]
    for _ in range(ctx.n(300, 5000)):
        n = ctx.rng.choice([1, 1, 2, 2, 3, 4, 5, 9, 17])
        b = bytearray(ctx.rng.getrandbits(8) for _ in range(n))
        r = ctx.rng.random()
        if r < 0.3:
            for i in range(ctx.rng.randrange(0, n), n):
                b[i] = 0
        elif r < 0.5:
            b[0] = ctx.rng.choice([0, 255, 128, 127])
        out.append(bytes(b))
    if ctx.thorough:
        out += [bytes([a]) for a in range(256)] + [bytes([a, b]) for a in range(256) for b in range(256)]
    return out


def gen_tlv(ctx: Ctx):
    out = []
    i = 0
    for c in (0, 1, 2, 3):
        for n in TAGNUMS:
            for k in (0, 1):
                ln = LENGTHS[i % len(LENGTHS)] if n in (0, 4, 30, 31, 128) else [0, 1, 127, 128, 300][i % 5]
                i += 1
                content = bytes((j * 7 + i) & 0xFF for j in range(ln))
                out.append([c, k, n, content, [b"", b"\x00", b"\x04\x01\x00", b"\xff" * 5][i % 4]])
    for ln in LENGTHS:
        out.append([0, 0, 4, bytes(ln), b"\xaa"])
        out.append([2, 1, 0, bytes([ln & 0xFF]) * ln, b""])
    for c, k, n in [(4, 0, 4), (-1, 0, 4), (0, 0, -1), (2, 1, -5), (256, 1, 1), (1, 0, 2 ** 70)]:
        out.append([c, k, n, b"x", b""])
    for _ in range(ctx.n(150, 3000)):
        ln = ctx.rng.choice([0, 1, 5, 127, 128, 200, 256, 1000, ctx.rng.randrange(0, 70000) if ctx.thorough else ctx.rng.randrange(0, 3000)])
        out.append([ctx.rng.randrange(4), ctx.rng.randrange(2), ctx.rng.choice(TAGNUMS + [ctx.rng.getrandbits(ctx.rng.randrange(1, 40))]),
                    bytes(ctx.rng.getrandbits(8) for _ in range(ln)), bytes(ctx.rng.getrandbits(8) for _ in range(ctx.rng.randrange(0, 4)))])
    if ctx.thorough:
        out.append([0, 0, 4, bytes(2 ** 24), b"\x01"])
        out.append([0, 0, 4, bytes(2 ** 24 - 1), b""])
    return out


ARCS = [0, 1, 39, 40, 127, 128, 129, 255, 256, 16383, 16384, 2 ** 21 - 1, 2 ** 21, 2 ** 32, 2 ** 64, 2 ** 70 + 5, 113549, 311, 840]
KNOWN_OIDS = ["1.2.840.113549.1.7.3", "1.2.840.113549.1.7.1", "1.3.6.1.4.1.311.74.1", "1.3.6.1.4.1.311.74.1.1", "2.16.840.1.101.3.4.1.45",
              "2.16.840.1.101.3.4.1.46", "1.3.6.1.4.1.311.74.1.2", "1.3.6.1.4.1.311.74.1.5", "1.3.6.1.4.1.311.74.1.8"]


def gen_oids(ctx: Ctx):
    out = [[[int(x) for x in o.split(".")], b""] for o in KNOWN_OIDS]
    for a in (0, 1, 2):
        for b in (0, 1, 39):
            out.append([[a, b], b"\x05\x00"])
            for x in ARCS:
                out.append([[a, b, x], b""])
                out.append([[a, b, x, 0, x], b"\x80"])
    # one arc only: the range test on the first arc comes before the missing second arc is noticed
    out += [[[a], b""] for a in (0, 2, 5, 39, 40, 50, 2 ** 32)]
    out += [[[], b""], [[1], b""], [[2, 40], b""], [[2, 47, 1], b""], [[2, 100, 3], b""], [[3, 0], b""], [[3, 8, 1], b""], [[39, 39, 1], b""], [[40, 0], b""],
            [[0, 40], b""], [[1, 2, -1], b""], [[-1, 2, 3], b""], [[1, -2, 3], b""], [[2, 39] + [2 ** 7] * 40, b""]]
    for _ in range(ctx.n(300, 6000)):
        n = ctx.rng.randrange(0, 12)
        arcs = [ctx.rng.choice([0, 1, 2]), ctx.rng.randrange(0, 40)] + [ctx.rng.choice(ARCS + [ctx.rng.getrandbits(ctx.rng.randrange(1, 80))]) for _ in range(n)]
        out.append([arcs, bytes(ctx.rng.getrandbits(8) for _ in range(ctx.rng.randrange(0, 3)))])
    return out


# code points some codec, normaliser or text layer treats specially (byte-order marks, NUL, line separators, non-characters,
# plane boundaries): a reader must hand every one of them back unchanged, in any position
SPECIAL_CHARS = ["\ufeff", "\ufffe", "\uffff", "\x00", "\x7f", "\x80", "\x85", "\r", "\n", "\u2028", "\u2029", "\ud7ff", "\ue000", "\U00010000",
                 "\U0010ffff", "\u00ff", "\u0100", "\u07ff", "\u0800", "\ufffd", "\u200b", "\u0301"]


def _rand_str(rng, n):
    pools = [(0x20, 0x7E), (0x80, 0x7FF), (0x800, 0xD7FF), (0xE000, 0xFFFF), (0x10000, 0x10FFFF)]
    s = []
    for _ in range(n):
        if rng.random() < 0.15:
            s.append(rng.choice(SPECIAL_CHARS))
            continue
        lo, hi = rng.choice(pools)
        s.append(chr(rng.randrange(lo, hi + 1)))
    return "".join(s)


def _rand_tag(rng, cons):
    if rng.random() < 0.6:
        return None
    cls = rng.choice([0, 1, 2, 3])
    num = rng.choice([0, 1, 2, 5, 16, 30, 31, 36, 127, 128, 16384]) if cls else rng.choice([0, 1, 2, 4, 12, 16, 17, 24, 30, 31, 36])
    return [cls, num, 1 if cons else rng.choice([0, 0, 0, 1])]


def rand_node(rng, depth, ints):
    kinds = [0, 1, 1, 2, 2, 3, 4, 5, 6] + ([7, 7, 7, 8, 8] if depth > 0 else [])
    k = rng.choice(kinds)
    tg = _rand_tag(rng, k in (7, 8))
    if k == 0:
        p = rng.choice([True, False])
    elif k in (1, 6):
        p = rng.choice(ints) if rng.random() < 0.5 else rng.getrandbits(rng.randrange(1, 70)) - rng.getrandbits(rng.randrange(1, 70))
    elif k == 2:
        p = bytes(rng.getrandbits(8) for _ in range(rng.choice([0, 1, 3, 12, 127, 128, 130, 300])))
    elif k in (3, 5):
        p = _rand_str(rng, rng.choice([0, 1, 3, 10, 60])) if k == 3 else rng.choice(["20230101000000Z", "", "19991231235959.5Z"])
    elif k == 4:
        p = [rng.choice([0, 1, 2]), rng.randrange(40)] + [rng.choice(ARCS) for _ in range(rng.randrange(0, 6))]
    else:
        p = [rand_node(rng, depth - 1, ints) for _ in range(rng.choice([0, 1, 1, 2, 3, 5]))]
    return [k, tg, p]


def gen_trees(ctx: Ctx):
    ints = int_table()
    out = []
    # nesting chain, depth 6, with a long-form length at every level
    chain = [2, None, bytes(130)]
    for d in range(6):
        chain = [7 if d % 2 == 0 else 8, None, [chain, [1, None, -65536 - d]]]
    out.append([[chain], b""])
    out.append([[[7, None, []], [8, None, []], [7, [2, 0, 1], [[7, None, []]]]], b"\x00"])
    out.append([[[3, None, "\ud800"]], b""])  # lone surrogate: UnicodeEncodeError on both sides
    out.append([[[7, None, [[3, None, "SID"], [3, None, "S-1-5-21-3337337973-3297078028-437386066-512"]]]], b""])
    for ch in SPECIAL_CHARS:
        out.append([[[3, None, ch], [3, None, ch + "SID"], [3, [2, 1, 0], "S" + ch + "D"], [7, None, [[3, None, "SI" + ch], [3, None, ch + ch]]]], b""])
    for _ in range(ctx.n(250, 6000)):
        nodes = [rand_node(ctx.rng, ctx.rng.randrange(0, 7), ints) for _ in range(ctx.rng.choice([1, 1, 2, 3]))]
        out.append([nodes, bytes(ctx.rng.getrandbits(8) for _ in range(ctx.rng.choice([0, 0, 1, 4])))])
    return out


MALFORMED_TABLE = [
    "", "02", "0200", "0600", "30020200", "30020600", "a003020000", "1f", "1f80", "1f8080", "1f00", "1f0500", "1f1e00", "1f1f00", "1f2400", "1f2500",
    "5f8100", "5f808100", "0280", "0281", "028100", "02810101", "0282000101", "02820001", "0284ffffffff", "02ff", "02ff00", "0201", "020200", "0203ff0000",
    "0204ff000000", "02020000", "0202ff80", "0101", "010100", "0101ff", "01020000", "0100", "0c01ff", "0c02c3a9", "0c02c0af", "0c03eda080", "0c00", "0601", "06012a", "0601ff",
    "06022a80", "06032a8001", "06022a00", "0603808001", "060188", "3000", "3080", "30800000", "3003020100", "300402010000", "3003020101ff", "310002", "2500", "3f2400", "1f2400",
    "04820000", "048180" + "00" * 127, "048180" + "00" * 128, "0481" + "7f" + "00" * 127, "04007f", "7f8800020000", "ff7f00", "1e00", "1f1e00", "df1e00", "1f81", "9f8000",
    "0c03efbbbf", "0c04efbbbf41", "0c06efbbbfefbbbf", "0c03efbfbe", "0c0100", "0c04f4908080", "0c03efbfbf",
    "30060201ff0201", "30820001", "308200", "30", "3001", "300100", "0201ff0201", "02017f020180", "180f32303233303130313030303030305a", "0a0101", "0a00",
]


def gen_malformed(ctx: Ctx):
    import dpapi_ng._asn1 as A  # valid encodings to mutate come from the library's own writer

    out = [bytes.fromhex(h) for h in MALFORMED_TABLE]
    seeds = []
    ints = int_table()
    for _ in range(ctx.n(40, 400)):
        nodes = [rand_node(ctx.rng, ctx.rng.randrange(0, 4), ints) for _ in range(ctx.rng.choice([1, 2]))]
        try:
            w = A.ASN1Writer()
            for nd in nodes:
                _w_node(A, w, nd)
            seeds.append(bytes(w.get_data()))
        except Exception:  # noqa: BLE001
            continue
    for s in seeds:
        out.append(s)
        for _ in range(ctx.n(8, 25)):
            b = bytearray(s)
            if not b:
                continue
            r = ctx.rng.random()
            pos = ctx.rng.randrange(len(b))
            if r < 0.25:
                b = b[:pos]
            elif r < 0.5:
                b[pos] = ctx.rng.choice([0, 0x80, 0x81, 0x82, 0xFF, 0x1F, 0x7F, 0x02, 0x06, 0x30, 0x9F, b[pos] ^ (1 << ctx.rng.randrange(8))])
            elif r < 0.65:
                b[pos:pos] = bytes([ctx.rng.choice([0, 0x80, 0xFF, 0x02, 0x06, 0x00])])
            elif r < 0.8:
                # zero a length octet after an INTEGER / OID identifier
                idx = [i for i in range(len(b) - 1) if b[i] in (2, 6)]
                if idx:
                    b[ctx.rng.choice(idx) + 1] = 0
            else:
                del b[pos]
            out.append(bytes(b))
    return out


def units(ctx: Ctx, only=None):
    replaying = getattr(ctx, "replay_only", False)

    def g(f):
        return [] if replaying else f(ctx)

    mal = g(gen_malformed)
    us = [
        Unit("asn1.int", "asn1.int", g(gen_ints), impl_int, prop_pred=pred_int),
        Unit("asn1.int_range", "asn1.int_range", g(gen_int_ranges), impl_int_range, prop_pred=pred_int_range),
        Unit("asn1.int_content", "asn1.int_content", g(gen_int_contents), impl_int_content, prop_pred=pred_int_content),
        Unit("asn1.tlv", "asn1.tlv", g(gen_tlv), impl_tlv, prop_pred=pred_tlv),
        Unit("asn1.oid", "asn1.oid", g(gen_oids), impl_oid, prop_pred=pred_oid),
        Unit("asn1.tree", "asn1.tree", g(gen_trees), impl_tree, prop_pred=pred_tree),
        Unit("asn1.malformed", "asn1.walk", mal, impl_walk, prop_pred=pred_walk, bucket=bucket),
        # oracle calibration: the Python strict reader used by the predicates == the Coq spec reader
        Unit("asn1.oracle_vs_spec", "asn1.strict", mal, oracle_strict, prop_pred=lambda a, o: None),
    ]
    _LAST_UNITS[:] = us
    return us


_LAST_UNITS: list = []


def oracles(ctx: Ctx):
    """Green path: evaluate the property predicate (independent encoder / strict reader / template) on the
    implementation's own output for every generated case, not only where model and implementation differ."""
    from ..core import run_impl

    for u in _LAST_UNITS:
        if u.prop_pred is None or u.name in ('asn1.oracle_vs_spec',):
            continue
        bad = 0
        for c in u.cases:
            o = run_impl(u.impl, c)
            ctx.oracle_runs += 1
            try:
                why = u.prop_pred(c, dec(o) if not o.startswith("!") else None)
            except Exception as exc:  # noqa: BLE001
                why = f"property predicate raised {type(exc).__name__}: {exc}"
            if why:
                bad += 1
                if bad <= 2:
                    ctx.violation("failing-input", f"oracle:{u.name}", {"unit": u.name, "model_unit": u.model_unit, "input": enc(c)[:20000],
                                                                     "observed_impl": o[:2000], "why": why}, key=f"{u.name}:{enc(c)[:80]}")


def search(ctx: Ctx):
    """A C07 obligation no longer proves: evaluate the property itself on the implementation over the
    boundary tables with the independent encoder / strict reader as oracle."""
    from ..core import run_impl

    tried = 0
    for name, cases, impl, pred in (
        ("asn1.int", int_table(), impl_int, pred_int),
        ("asn1.int_range", gen_int_ranges(ctx)[:40], impl_int_range, pred_int_range),
        ("asn1.tlv", gen_tlv(ctx), impl_tlv, pred_tlv),
        ("asn1.oid", gen_oids(ctx), impl_oid, pred_oid),
        ("asn1.int_content", gen_int_contents(ctx), impl_int_content, pred_int_content),
        ("asn1.malformed", [bytes.fromhex(h) for h in MALFORMED_TABLE], impl_walk, pred_walk),
    ):
        for c in cases:
            tried += 1
            o = run_impl(impl, c)
            why = pred(c, dec(o))
            if why:
                return {"unit": name, "input": enc(c), "observed": o[:300], "why": why, "tried": tried, "key": None}
    ctx.notes.append(f"search: {tried} boundary cases satisfy the property on the implementation")
    return None
