"""C20 -- DC discovery asks the right SRV name and picks the best record."""
from __future__ import annotations

import asyncio
import itertools

from ..runner import Ctx, Unit
from ..val import Err

MANIFEST = {
    "text": "Coq theorems over _dns.py with the sort key, f-strings, rstrip argument and resolve() arguments regenerated from the source: for every non-empty answer list (unbounded) the "
            "selected record is a member with minimal priority and, among those, maximal weight; port/weight/priority copied, target stripped of trailing dots; selection is invariant under "
            "permutation up to ties; the query name is prefix.domain or the bare prefix; sync and async lookups are the same normalised AST. Tie: kernels + correspondence on all multisets/permutations, both flavours. "
            "The whole bodies of lookup_dc, async_lookup_dc and _get_highest_answer are regenerated as syntax of the deep embedding and proved equal to the model for every argument "
            "(C20_flow_*; for _get_highest_answer the translator desugars sorted(answers, key=lambda a: K) into a stable sort on the precomputed keys, and "
            "C20_sorted_head_is_first_minimiser proves that the head of that sort is the model's first minimiser).",
    "note": "Assumes that sorted() is a stable sort under Python's tuple order (the world's sorted/key is a stable insertion sort; CPython's is not verified) and the resolver contract; sync=async is a syntactic comparison backed by running both flavours.",
    "technique": "Coq proof (induction over the answer list, lia over regenerated sort key) + exhaustive small-domain correspondence",
}

ASSUMPTIONS = [
    "dns.resolver.resolve / dns.asyncresolver.resolve return the answer set for the queried name (replaced by a scripted answer in the harness)",
    "sorted() is a stable sort under Python's tuple order (world entry sorted/key = stable insertion sort on the keys the lambda computes; that its head is the first "
    "minimiser is the theorem C20_sorted_head_is_first_minimiser; CPython's sort itself is validated by the exhaustive permutation sweep only)",
    "flow.py desugars sorted(<local>, key=lambda p: K) into sorted/key(<local>, [K for p in <local>]): keys computed once per element, in order, before any comparison",
]
RULE = ("all multisets of 1..4 (thorough 1..5) SRV records over priorities {0,1,2} x weights {0,1,2} in every permutation, targets with/without trailing dots, "
        "domain given / empty / None, both API flavours; every case is non-trivial; distinct = distinct case text")
PREFIX = "_ldap._tcp.dc._msdcs"


class _Tgt:
    def __init__(self, s):
        self.s = s

    def __str__(self):
        return self.s


class _Rec:
    def __init__(self, t, p, w, pr):
        self.target, self.port, self.weight, self.priority = _Tgt(t), p, w, pr


def impl_pick(arg):
    import dns.asyncresolver
    import dns.resolver

    import dpapi_ng._dns as D

    flavour, domain, answers = arg
    recs = [_Rec(*a) for a in answers]
    seen = {}

    def fake(qname, rdtype=None, *a, **kw):
        seen["q"] = (str(qname), str(rdtype), bool(kw.get("search")))
        return recs

    async def afake(qname, rdtype=None, *a, **kw):
        return fake(qname, rdtype, *a, **kw)

    r0, r1 = dns.resolver.resolve, dns.asyncresolver.resolve
    dns.resolver.resolve, dns.asyncresolver.resolve = fake, afake
    try:
        try:
            if flavour == 0:
                r = D.lookup_dc(domain)
            else:
                r = asyncio.run(D.async_lookup_dc(domain))
            picked = [r.target, r.port, r.weight, r.priority]
        except IndexError:
            picked = Err("IndexError")
    finally:
        dns.resolver.resolve, dns.asyncresolver.resolve = r0, r1
    q = seen.get("q", ("", "", False))
    return [q[0], q[1], q[2], picked]


def pred(arg, out):
    flavour, domain, answers = arg
    if out is None or isinstance(out, Err):
        return f"lookup raised {out}"
    name, rdtype, search, picked = out
    want = PREFIX + "." + domain if domain else PREFIX
    if name != want or rdtype != "SRV" or not search:
        return f"queried ({name!r}, {rdtype}, search={search}) instead of ({want!r}, SRV, search=True)"
    if not answers:
        return None
    if isinstance(picked, Err):
        return f"non-empty answer but {picked}"
    t, p, w, pr = picked
    best_pr = min(a[3] for a in answers)
    best_w = max(a[2] for a in answers if a[3] == best_pr)
    if (pr, w) != (best_pr, best_w):
        return f"picked priority {pr} weight {w}; best is priority {best_pr} weight {best_w}"
    def stripped(name):
        # "the trailing dot removed": for a target with several trailing dots both readings are accepted (one dot, or all of them)
        return {name.rstrip(".")} | ({name[:-1]} if name.endswith(".") else {name})

    if not any(t in stripped(a[0]) and a[1] == p and a[2] == w and a[3] == pr for a in answers):  # exact, case included
        return "picked record is not one of the answers with its trailing dot removed"
    return None


def gen_cases(ctx: Ctx):
    cases = []
    maxn = 4 if not ctx.thorough else 5
    vals = [(pr, w) for pr in (0, 1, 2) for w in (0, 1, 2)]
    domains = ["example.com", None, "", "a.b."]
    k = 0
    for n in range(1, maxn + 1):
        for ms in itertools.combinations_with_replacement(vals, n):
            perms = set(itertools.permutations(ms))
            if not ctx.thorough and n >= 4:
                perms = set(list(sorted(perms))[:: max(1, len(perms) // 6)])
            for perm in sorted(perms):
                k += 1
                answers = []
                for i, (pr, w) in enumerate(perm):
                    t = [f"dc{i}.example.com", f"DC{i}.Corp.Example.COM", f"dc{i}.EXAMPLE.com"][(i + k // 3) % 3] + ["", ".", ".."][(i + k) % 3]
                    answers.append([t, 389 + i, w, pr])
                cases.append([k % 2, domains[k % 4], answers])
    # the same host answered more than once (identical, or differing only in case / trailing dot) with different
    # priority and weight: every record is a candidate on its own
    hosts = ["dc.example.com", "dc.example.com.", "DC.Example.COM", "DC.EXAMPLE.COM.", "other.example.com"]
    for n in (2, 3):
        for hs in itertools.product(range(len(hosts)), repeat=n):
            if len({hosts[h].rstrip(".").lower() for h in hs}) == n:
                continue
            for j, ms in enumerate(itertools.product([(0, 0), (0, 2), (1, 1), (2, 0)], repeat=n)):
                if len(set(ms)) < 2 or (not ctx.thorough and (j + sum(hs)) % (3 if n == 2 else 17)):
                    continue
                k += 1
                cases.append([k % 2, domains[k % 4], [[hosts[h], 389 + i, w, pr] for i, (h, (pr, w)) in enumerate(zip(hs, ms))]])
    # big values, negative weights are not valid SRV but exercise the key
    cases.append([0, "x", [["a.", 1, 65535, 65535], ["b.", 2, 0, 0], ["c", 3, 65535, 0]]])
    cases.append([1, "x", [["...", 1, 1, 1]]])
    cases.append([0, None, []])
    return cases


def units(ctx: Ctx, only=None):
    cases = [] if getattr(ctx, "replay_only", False) else gen_cases(ctx)
    return [Unit("dns.answers", "dns.pick", cases, impl_pick, prop_pred=pred)]


def search(ctx: Ctx):
    from ..core import run_impl
    from ..val import dec, enc

    tried = 0
    for c in gen_cases(ctx):
        for fl in (0, 1):
            arg = [fl, c[1], c[2]]
            tried += 1
            why = pred(arg, dec(run_impl(impl_pick, arg)))
            if why:
                return {"unit": "dns.answers", "input": enc(arg), "why": why, "tried": tried, "key": None}
    ctx.notes.append(f"search: {tried} lookups satisfy the property on the implementation")
    return None
