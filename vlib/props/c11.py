"""C11 -- MS-GKDI structures and GetKey stubs have exactly the specified byte layout."""
from __future__ import annotations

import struct
import types
import uuid

from ..runner import Ctx, Unit
from ..val import Err

AREA = "gkdi"

MANIFEST = {
    "text": "Coq theorems over a faithful model of _gkdi.py / _blob.KeyIdentifier / _process_get_key_result: for every well-formed value (all 32-bit field values, empty and non-BMP "
            "strings, empty/odd byte fields, integers with leading zero bytes for every key length) unpack(pack x) = x for KeyIdentifier, GroupKeyEnvelope, KDFParameters, FFCDHParameters, "
            "FFCDHKey, ECDHKey and GetKey; pack x equals an independent encoder that interprets declarative field tables transcribed from MS-GKDI 2.2.1-2.2.4; GetKey.pack equals the NDR64 "
            "reference encoding of the IDL for every SD length and optional root key id; unpack_response of the NDR64 reference reply returns GroupKeyEnvelope.unpack of the payload for every "
            "length; hresult != 0 is ValueError on every input; auth padding is stripped. Tie to the source: padding/guard kernels and byte constants regenerated from the source, "
            "everything else by differential correspondence (model and independent spec both run against the implementation). Additionally, for ALL field values (not only "
            "well-formed ones) each packer succeeds exactly when the independent encoder does, with equal bytes (layout tbl x = res_opt (pack x); only side condition: a UUID is 16 bytes), "
            "and every decoder on arbitrary bytes returns a value or ValueError (never an internal error; the UTF-16 decoder terminates).",
    "note": "Slice bounds inside subscripts and the pad element of GetKey.pack are not reachable by the kernel selectors; they are hand-written in the model and tied by correspondence on every residue mod 8.",
    "technique": "Coq proof (fixed-layout codec round trips, table-driven independent encoder, NDR64 reference) + differential correspondence",
}
ASSUMPTIONS = [
    "Python str.encode/bytes.decode('utf-16-le'), int.to_bytes/from_bytes, slicing and uuid.UUID(bytes_le=) behave as modelled in coq/Prelude (validated by the correspondence units on boundary tables)",
    "byte strings are lists of integers in [0,256) (the driver only produces such lists)",
]
RULE = ("boundary tables first (u32 values 0,1,2^31-1,2^31,2^32-1 and out-of-range -1/2^32; strings empty/ASCII/non-BMP/embedded NUL/lone surrogate; byte fields of length 0..17; SD and envelope "
        "lengths covering every residue mod 8 at least 5 times; key lengths 0..9 with values having leading zero bytes), then seeded random values; decoders additionally on every truncation of a "
        "valid encoding, single-byte mutations of header/length fields and random bytes; non-trivial = not a TypeError from the harness; distinct = distinct canonical case text")

U32_EDGE = [0, 1, 2, 31, 361, 2 ** 31 - 1, 2 ** 31, 2 ** 32 - 1]
U32_BAD = [-1, 2 ** 32, 2 ** 40]
STRS = ["", "a", "SHA512", "domain.test", "SP800_108_CTR_HMAC", "ECDH_P256", "DH", "\U0001F600", "x\U00010000y￿", "\0", "a\0b", "é中",
        # byte-order marks / non-characters / separators in every position: a UTF-16-LE field carries them unchanged
        "\ufeff", "\ufeffdomain.test", "dom\ufeffain", "domain\ufeff", "\ufffe", "\ufffex", "\uffff\ufeff", "a\u2028b", "\x85", "\ud7ff\ue000", "\u0100\u00ff"]
STRS_BAD = ["\ud800", "ab\udfffc"]


# ------------------------------------------------------------------------------------------------
# independent reference encoders (Python, from MS-GKDI / NDR64), used as property oracle
# ------------------------------------------------------------------------------------------------
def _u32(v):
    if not 0 <= v < 2 ** 32:
        raise OverflowError
    return struct.pack("<I", v)


def _utf16z(s):
    out = bytearray()
    for ch in s:
        c = ord(ch)
        if 0xD800 <= c <= 0xDFFF:
            raise ValueError
        if c < 0x10000:
            out += struct.pack("<H", c)
        else:
            c -= 0x10000
            out += struct.pack("<HH", 0xD800 + (c >> 10), 0xDC00 + (c & 0x3FF))
    return bytes(out) + b"\0\0"


def _befixed(n, v):
    if n < 0 or v < 0 or v >= 256 ** n:
        raise OverflowError
    return bytes((v >> (8 * (n - 1 - i))) & 255 for i in range(n))


def ref_keyid(a):
    ver, fl, l0, l1, l2, rk, ki, dn, fn = a
    bd, bf = _utf16z(dn), _utf16z(fn)
    return (_u32(ver) + b"KDSK" + _u32(fl) + _u32(l0) + _u32(l1) + _u32(l2) + bytes(rk) + _u32(len(ki)) + _u32(len(bd)) + _u32(len(bf))
            + bytes(ki) + bd + bf)


def ref_gke(a):
    ver, fl, l0, l1, l2, rk, ka, kp, sa, sp, pr, pu, dn, fn, k1, k2 = a
    bka, bsa, bd, bf = _utf16z(ka), _utf16z(sa), _utf16z(dn), _utf16z(fn)
    return (_u32(ver) + b"KDSK" + _u32(fl) + _u32(l0) + _u32(l1) + _u32(l2) + bytes(rk)
            + _u32(len(bka)) + _u32(len(kp)) + _u32(len(bsa)) + _u32(len(sp)) + _u32(pr) + _u32(pu)
            + _u32(len(k1)) + _u32(len(k2)) + _u32(len(bd)) + _u32(len(bf))
            + bka + bytes(kp) + bsa + bytes(sp) + bd + bf + bytes(k1) + bytes(k2))


def ref_kdfp(s):
    b = _utf16z(s)
    return b"\0\0\0\0\1\0\0\0" + _u32(len(b)) + b"\0\0\0\0" + b


def ref_ffp(a):
    kl, fo, g = a
    body = b"DHPM" + _u32(kl) + _befixed(kl, fo) + _befixed(kl, g)
    return _u32(4 + len(body)) + body


def ref_ffk(a):
    kl, fo, g, pk = a
    return b"DHPB" + _u32(kl) + _befixed(kl, fo) + _befixed(kl, g) + _befixed(kl, pk)


def ref_eck(a):
    name, kl, x, y = a
    magic = {"P256": b"ECK1", "P384": b"ECK3", "P521": b"ECK5"}.get(name)
    if magic is None:
        raise ValueError
    return magic + _u32(kl) + _befixed(kl, x) + _befixed(kl, y)


class Ndr64:
    def __init__(self):
        self.b = bytearray()

    def align(self, n):
        self.b += b"\0" * (-len(self.b) % n)

    def u32(self, v):
        self.align(4)
        self.b += struct.pack("<I", v)

    def i32(self, v):
        self.align(4)
        self.b += struct.pack("<i", v)

    def u64(self, v):
        self.align(8)
        self.b += struct.pack("<Q", v)


def ref_getkey_request(a):
    sd, rk, l0, l1, l2 = a
    w = Ndr64()
    w.u32(len(sd))
    w.u64(len(sd))
    w.b += bytes(sd)
    if rk is None:
        w.u64(0)
    else:
        w.u64(0x20000)
        w.align(4)
        w.b += bytes(rk)
    for v in (l0, l1, l2):
        if not -2 ** 31 <= v < 2 ** 31:
            raise OverflowError
        w.i32(v)
    return bytes(w.b)


def ref_getkey_reply(env, hres):
    w = Ndr64()
    w.u32(len(env))
    w.u64(0x20000)
    w.u64(len(env))
    w.b += bytes(env)
    w.u32(hres)
    return bytes(w.b)


# ------------------------------------------------------------------------------------------------
# implementation side
# ------------------------------------------------------------------------------------------------
def _kid(a):
    from dpapi_ng._blob import KeyIdentifier

    ver, fl, l0, l1, l2, rk, ki, dn, fn = a
    return KeyIdentifier(ver, fl, l0, l1, l2, uuid.UUID(bytes_le=bytes(rk)), bytes(ki), dn, fn)


def _kid_val(k):
    return [k.version, k.flags, k.l0, k.l1, k.l2, k.root_key_identifier.bytes_le, k.key_info, k.domain_name, k.forest_name]


def _gke(a):
    from dpapi_ng._gkdi import GroupKeyEnvelope

    ver, fl, l0, l1, l2, rk, ka, kp, sa, sp, pr, pu, dn, fn, k1, k2 = a
    return GroupKeyEnvelope(ver, fl, l0, l1, l2, uuid.UUID(bytes_le=bytes(rk)), ka, bytes(kp), sa, bytes(sp), pr, pu, dn, fn, bytes(k1), bytes(k2))


def _gke_val(e):
    return [e.version, e.flags, e.l0, e.l1, e.l2, e.root_key_identifier.bytes_le, e.kdf_algorithm, e.kdf_parameters,
            e.secret_algorithm, e.secret_parameters, e.private_key_length, e.public_key_length, e.domain_name, e.forest_name,
            e.l1_key, e.l2_key]


def _getkey(a):
    from dpapi_ng._gkdi import GetKey

    sd, rk, l0, l1, l2 = a
    return GetKey(bytes(sd), None if rk is None else uuid.UUID(bytes_le=bytes(rk)), l0, l1, l2)


def _getkey_val(g):
    return [g.target_sd, None if g.root_key_id is None else g.root_key_id.bytes_le, g.l0_key_id, g.l1_key_id, g.l2_key_id]


def _none_on_error(fn):
    """for the *.layout / *.ndr units the spec says None where the value is not encodable"""

    def run(a):
        try:
            return fn(a)
        except (ValueError, OverflowError):
            return None

    return run


def impl_keyid_pack(a):
    return _kid(a).pack()


def impl_keyid_unpack(b):
    from dpapi_ng._blob import KeyIdentifier

    return _kid_val(KeyIdentifier.unpack(bytes(b)))


def impl_gke_pack(a):
    return _gke(a).pack()


def impl_gke_unpack(b):
    from dpapi_ng._gkdi import GroupKeyEnvelope

    return _gke_val(GroupKeyEnvelope.unpack(bytes(b)))


def impl_getkey_pack(a):
    return _getkey(a).pack()


def impl_getkey_unpack(b):
    from dpapi_ng._gkdi import GetKey

    return _getkey_val(GetKey.unpack(bytes(b)))


def impl_getkey_resp(b):
    from dpapi_ng._gkdi import GetKey

    return _gke_val(GetKey.unpack_response(bytes(b)))


def impl_getkey_reply(a):
    """the reply is built by the independent Python NDR64 encoder and decoded by the library"""
    from dpapi_ng._gkdi import GetKey

    env, hres = a
    if not 0 <= hres < 2 ** 32:
        return None
    data = ref_getkey_reply(env, hres)
    try:
        r = _gke_val(GetKey.unpack_response(data))
    except Exception as exc:  # noqa: BLE001
        from ..core import classify

        r = classify(exc)
    return [data, r]


def impl_getkey_result(a):
    from dpapi_ng._client import _process_get_key_result

    stub, pad = a
    trailer = None if pad is None else types.SimpleNamespace(pad_length=pad)
    resp = types.SimpleNamespace(stub_data=bytes(stub), sec_trailer=trailer)
    return _gke_val(_process_get_key_result(resp))  # type: ignore[arg-type]


def impl_kdfp_pack(s):
    from dpapi_ng._gkdi import KDFParameters

    return KDFParameters(s).pack()


def impl_kdfp_unpack(b):
    from dpapi_ng._gkdi import KDFParameters

    return KDFParameters.unpack(bytes(b)).hash_name


def impl_kdfp_hash(s):
    from dpapi_ng._gkdi import KDFParameters

    return {"sha1": 1, "sha256": 2, "sha384": 3, "sha512": 4}[KDFParameters(s).hash_algorithm.name]


def impl_ffp_pack(a):
    from dpapi_ng._gkdi import FFCDHParameters

    return FFCDHParameters(*a).pack()


def impl_ffp_unpack(b):
    from dpapi_ng._gkdi import FFCDHParameters

    p = FFCDHParameters.unpack(bytes(b))
    return [p.key_length, p.field_order, p.generator]


def impl_ffk_pack(a):
    from dpapi_ng._gkdi import FFCDHKey

    return FFCDHKey(*a).pack()


def impl_ffk_unpack(b):
    from dpapi_ng._gkdi import FFCDHKey

    k = FFCDHKey.unpack(bytes(b))
    return [k.key_length, k.field_order, k.generator, k.public_key]


def impl_eck_pack(a):
    from dpapi_ng._gkdi import ECDHKey

    return ECDHKey(*a).pack()


def impl_eck_unpack(b):
    from dpapi_ng._gkdi import ECDHKey

    k = ECDHKey.unpack(bytes(b))
    return [k.curve_name, k.key_length, k.x, k.y]


# ------------------------------------------------------------------------------------------------
# property predicates (the property itself on the implementation's output)
# ------------------------------------------------------------------------------------------------
def pred_pack(ref, unpack_impl=None):
    def pred(arg, out):
        try:
            want = ref(arg)
        except (ValueError, OverflowError):
            want = None
        if want is None:
            if isinstance(out, (bytes, bytearray)):
                return "value is not encodable per MS-GKDI but the library produced bytes"
            return None
        if out != want:
            return "packed bytes differ from the independent MS-GKDI encoder"
        if unpack_impl is not None:
            back = unpack_impl(want)
            if back != list(arg) and back != arg:
                return "unpack(pack(x)) differs from x"
        return None

    return pred


def pred_layout(ref):
    def pred(arg, out):
        try:
            want = ref(arg)
        except (ValueError, OverflowError):
            want = None
        return None if out == want else "library encoding differs from the independent encoder"

    return pred


# ------------------------------------------------------------------------------------------------
# generators
# ------------------------------------------------------------------------------------------------
def rb(ctx, n):
    return bytes(ctx.rng.randrange(256) for _ in range(n))


def rstr(ctx):
    r = ctx.rng.random()
    if r < 0.5:
        return ctx.rng.choice(STRS)
    n = ctx.rng.randrange(0, 12)
    return "".join(chr(ctx.rng.choice([ctx.rng.randrange(0x20, 0x7F), ctx.rng.randrange(0xA0, 0xD800), ctx.rng.randrange(0xE000, 0x10000),
                                       ctx.rng.randrange(0x10000, 0x110000), 0])) for _ in range(n))


def ru32(ctx):
    return ctx.rng.choice(U32_EDGE) if ctx.rng.random() < 0.5 else ctx.rng.randrange(2 ** 32)


def gen_keyid(ctx: Ctx, n):
    rk = bytes(range(16))
    out = []
    for v in U32_EDGE + U32_BAD:
        for pos in range(5):
            f = [1, 0, 361, 3, 4]
            f[pos] = v
            out.append(f + [rk, b"\x01\x02", "d", "f"])
    for s in STRS + STRS_BAD:
        out.append([1, 0, 1, 2, 3, rk, b"", s, "f"])
        out.append([1, 0, 1, 2, 3, rk, b"k", "d", s])
    for ln in range(0, 18):
        out.append([1, 1, 1, 2, 3, rb(ctx, 16), rb(ctx, ln), "dom", ""])
    out.append([2 ** 32, 0, 0, 0, 0, rk, b"", "\ud800", ""])  # both error classes present: str error comes first
    for _ in range(n):
        out.append([ru32(ctx), ru32(ctx), ru32(ctx), ru32(ctx), ru32(ctx), rb(ctx, 16), rb(ctx, ctx.rng.choice([0, 1, 32, 33, 72, 100])), rstr(ctx), rstr(ctx)])
    return out


def gen_gke(ctx: Ctx, n):
    rk = bytes(range(16, 32))
    base = [1, 0, 361, 3, 4, rk, "SP800_108_CTR_HMAC", b"\0" * 30, "DH", b"\1\2\3", 512, 2048, "dom", "forest", b"\x11" * 64, b"\x22" * 64]
    out = [list(base)]
    for v in U32_EDGE + U32_BAD:
        for pos in (0, 1, 2, 3, 4, 10, 11):
            f = list(base)
            f[pos] = v
            out.append(f)
    for s in STRS + STRS_BAD:
        for pos in (6, 8, 12, 13):
            f = list(base)
            f[pos] = s
            out.append(f)
    for ln in range(0, 18):
        for pos in (7, 9, 14, 15):
            f = list(base)
            f[pos] = rb(ctx, ln)
            out.append(f)
    out.append([1, 2, 0, 31, 31, rk, "", b"", "", b"", 0, 0, "", "", b"", b""])
    for _ in range(n):
        out.append([ru32(ctx), ru32(ctx), ru32(ctx), ru32(ctx), ru32(ctx), rb(ctx, 16), rstr(ctx), rb(ctx, ctx.rng.randrange(0, 40)),
                    rstr(ctx), rb(ctx, ctx.rng.randrange(0, 40)), ru32(ctx), ru32(ctx), rstr(ctx), rstr(ctx),
                    rb(ctx, ctx.rng.choice([0, 1, 63, 64])), rb(ctx, ctx.rng.choice([0, 7, 64, 65]))])
    return out


def gen_getkey(ctx: Ctx, n):
    out = []
    rk = bytes(range(32, 48))
    for ln in range(0, 41):
        sd = rb(ctx, ln)
        out.append([sd, None, -1, -1, -1])
        out.append([sd, rk, 361, ln % 32, 31 - ln % 32])
    for v in [0, 1, -1, 2 ** 31 - 1, -2 ** 31, 2 ** 31, -2 ** 31 - 1, 2 ** 32 - 1]:
        for pos in (2, 3, 4):
            f = [b"abcd", rk, 1, 2, 3]
            f[pos] = v
            out.append(f)
    out.append([b"", bytes(16), 0, 0, 0])  # all-zero GUID is still a non-null pointer
    for _ in range(n):
        out.append([rb(ctx, ctx.rng.randrange(0, 200)), ctx.rng.choice([None, rb(ctx, 16)]),
                    ctx.rng.randrange(-2 ** 31, 2 ** 31), ctx.rng.randrange(-2 ** 31, 2 ** 31), ctx.rng.randrange(-1, 33)])
    return out


def gen_int_struct(ctx: Ctx, n, arity):
    """FFCDHParameters (arity 2) / FFCDHKey (arity 3): key lengths 0..9 with leading-zero values, out-of-range values"""
    out = []
    for kl in range(0, 10):
        top = 256 ** kl
        vals = sorted(v for v in {0, 1, 255, 256, top // 256, top // 2, top - 1} if 0 <= v < top)
        for v in vals:
            out.append([kl] + [v] * arity)
            out.append([kl] + [vals[(vals.index(v) + i + 1) % len(vals)] for i in range(arity)])
        out.append([kl] + [top] + [0] * (arity - 1))  # too big
        out.append([kl] + [0] * (arity - 1) + [-1])
    out.append([-1] + [0] * arity)
    for _ in range(n):
        kl = ctx.rng.choice([1, 2, 3, 8, 16, 32, 48, 66, 128, 256])
        out.append([kl] + [ctx.rng.randrange(256 ** ctx.rng.randrange(0, kl + 1)) for _ in range(arity)])
    return out


def gen_eck(ctx: Ctx, n):
    out = []
    for name in ["P256", "P384", "P521", "P-256", "", "p256", "P2567", "\U0001F600"]:
        out.append([name, 32, 1, 2])
    for a in gen_int_struct(ctx, n, 2):
        out.append([ctx.rng.choice(["P256", "P384", "P521"])] + a)
    out.append(["bad", 1, 256, 0])  # OverflowError precedes the curve ValueError
    return out


def mutations(ctx: Ctx, valid, header, n_rand):
    """decoder inputs: the valid encodings, every truncation of the first, header byte mutations, random bytes"""
    out = list(valid)
    first = valid[0]
    for i in range(len(first) + 1):
        out.append(first[:i])
    for v in valid[: 1 + n_rand // 50]:
        for _ in range(12):
            b = bytearray(v)
            if not b:
                continue
            i = ctx.rng.randrange(min(len(b), header))
            b[i] = ctx.rng.choice([0, 1, 2, 0x7F, 0x80, 0xFF, b[i] ^ (1 << ctx.rng.randrange(8))])
            out.append(bytes(b))
        out.append(v + b"\0")
        out.append(v + rb(ctx, 3))
    for _ in range(n_rand):
        out.append(rb(ctx, ctx.rng.randrange(0, 120)))
    # de-duplicate, keep order
    seen, res = set(), []
    for b in out:
        if b not in seen:
            seen.add(b)
            res.append(b)
    return res


def _packed(fn, cases):
    out = []
    for c in cases:
        try:
            out.append(fn(c))
        except Exception:  # noqa: BLE001
            pass
    return out


def captured():
    import os

    d = "/repo/tests/data"
    out = {}
    for name in ("group_key_envelope", "ffc_dh_key", "ffc_dh_parameters", "ecdh_key", "dpapi_ng_blob"):
        p = os.path.join(d, name)
        if os.path.exists(p):
            out[name] = open(p, "rb").read()
    return out


def units(ctx: Ctx, only=None):
    if getattr(ctx, "replay_only", False):
        e = []
        kid = gke = gk = ffp = ffk = eck = kdfp = e
        kid_b = gke_b = gk_b = ffp_b = ffk_b = eck_b = kdfp_b = resp_b = reply = result = hashes = e
    else:
        n = ctx.n(120, 6000)
        kid, gke, gk = gen_keyid(ctx, n), gen_gke(ctx, n), gen_getkey(ctx, n)
        ffp, ffk, eck = gen_int_struct(ctx, n // 2, 2), gen_int_struct(ctx, n // 2, 3), gen_eck(ctx, n // 2)
        kdfp = STRS + STRS_BAD + [rstr(ctx) for _ in range(n // 2)]
        hashes = ["SHA1", "SHA256", "SHA384", "SHA512", "sha512", "SHA-256", "", "SHA5120", "MD5", "SHA512\0"]
        cap = captured()
        kid_b = mutations(ctx, _packed(ref_keyid, kid), 52, n)
        gke_b = mutations(ctx, ([cap["group_key_envelope"]] if "group_key_envelope" in cap else []) + _packed(ref_gke, gke), 80, n)
        gk_b = mutations(ctx, _packed(ref_getkey_request, gk), 24, n)
        ffp_b = mutations(ctx, ([cap["ffc_dh_parameters"]] if "ffc_dh_parameters" in cap else []) + _packed(ref_ffp, ffp), 12, n // 2)
        ffk_b = mutations(ctx, ([cap["ffc_dh_key"]] if "ffc_dh_key" in cap else []) + _packed(ref_ffk, ffk), 8, n // 2)
        eck_b = mutations(ctx, ([cap["ecdh_key"]] if "ecdh_key" in cap else []) + _packed(ref_eck, eck), 8, n // 2)
        kdfp_b = mutations(ctx, _packed(ref_kdfp, kdfp), 16, n // 2)
        # replies: every envelope length residue mod 8 several times, valid envelopes and opaque payloads
        envs = _packed(ref_gke, gke[:60])
        reply = []
        for i, ev in enumerate(envs):
            reply.append([ev, 0])
            reply.append([ev + b"\0" * (i % 8), 0])  # trailing bytes inside the counted buffer
        for ln in range(0, 100):
            reply.append([rb(ctx, ln), 0])
        for hres in (1, 0x80070057, 0x80070005, 2 ** 32 - 1):
            reply.append([envs[0], hres])
            reply.append([b"", hres])
        resp_b = mutations(ctx, [ref_getkey_reply(ev, 0) for ev in envs[:20]]
                           + [bytes.fromhex("0000000000000000000000000000000057000780"), struct.pack("<IIQ", 0, 0, 0) + struct.pack("<I", 0x80070057)],
                           24, n)
        # pad stripping: 0..15 pad bytes after the stub, with and without a security trailer
        result = []
        for i, ev in enumerate(envs[:24]):
            stub = ref_getkey_reply(ev, 0)
            for p in range(0, 16):
                result.append([stub + b"\0" * p, p])
            result.append([stub, None])
            result.append([stub, 0])
            result.append([stub + b"\xAA" * 3, None])   # no trailer: nothing stripped, HRESULT misread
            result.append([stub, len(stub) + 5])        # pad larger than the stub
            result.append([stub, 4])                     # stripping real data
    return [
        Unit("gkdi.keyid.pack", "keyid.pack", kid, impl_keyid_pack, prop_pred=pred_pack(ref_keyid, impl_keyid_unpack)),
        Unit("gkdi.keyid.layout", "keyid.layout", kid, _none_on_error(impl_keyid_pack), prop_pred=pred_layout(ref_keyid)),
        Unit("gkdi.keyid.unpack", "keyid.unpack", kid_b, impl_keyid_unpack),
        Unit("gkdi.gke.pack", "gke.pack", gke, impl_gke_pack, prop_pred=pred_pack(ref_gke, impl_gke_unpack)),
        Unit("gkdi.gke.layout", "gke.layout", gke, _none_on_error(impl_gke_pack), prop_pred=pred_layout(ref_gke)),
        Unit("gkdi.gke.unpack", "gke.unpack", gke_b, impl_gke_unpack),
        Unit("gkdi.getkey.pack", "getkey.pack", gk, impl_getkey_pack, prop_pred=pred_pack(ref_getkey_request, impl_getkey_unpack)),
        Unit("gkdi.getkey.ndr", "getkey.ndr", gk, _none_on_error(impl_getkey_pack), prop_pred=pred_layout(ref_getkey_request)),
        Unit("gkdi.getkey.unpack", "getkey.unpack", gk_b, impl_getkey_unpack),
        Unit("gkdi.getkey.resp", "getkey.resp", resp_b, impl_getkey_resp),
        Unit("gkdi.getkey.reply", "getkey.reply", reply, impl_getkey_reply),
        Unit("gkdi.getkey.result", "getkey.result", result, impl_getkey_result),
        Unit("gkdi.kdfp.pack", "kdfp.pack", kdfp, impl_kdfp_pack, prop_pred=pred_pack(ref_kdfp)),
        Unit("gkdi.kdfp.layout", "kdfp.layout", kdfp, _none_on_error(impl_kdfp_pack), prop_pred=pred_layout(ref_kdfp)),
        Unit("gkdi.kdfp.unpack", "kdfp.unpack", kdfp_b, impl_kdfp_unpack),
        Unit("gkdi.kdfp.hash", "kdfp.hash", hashes, impl_kdfp_hash),
        Unit("gkdi.ffp.pack", "ffp.pack", ffp, impl_ffp_pack, prop_pred=pred_pack(ref_ffp, impl_ffp_unpack)),
        Unit("gkdi.ffp.layout", "ffp.layout", ffp, _none_on_error(impl_ffp_pack), prop_pred=pred_layout(ref_ffp)),
        Unit("gkdi.ffp.unpack", "ffp.unpack", ffp_b, impl_ffp_unpack),
        Unit("gkdi.ffk.pack", "ffk.pack", ffk, impl_ffk_pack, prop_pred=pred_pack(ref_ffk, impl_ffk_unpack)),
        Unit("gkdi.ffk.layout", "ffk.layout", ffk, _none_on_error(impl_ffk_pack), prop_pred=pred_layout(ref_ffk)),
        Unit("gkdi.ffk.unpack", "ffk.unpack", ffk_b, impl_ffk_unpack),
        Unit("gkdi.eck.pack", "eck.pack", eck, impl_eck_pack, prop_pred=pred_pack(ref_eck, impl_eck_unpack)),
        Unit("gkdi.eck.layout", "eck.layout", eck, _none_on_error(impl_eck_pack), prop_pred=pred_layout(ref_eck)),
        Unit("gkdi.eck.unpack", "eck.unpack", eck_b, impl_eck_unpack),
    ]


def search(ctx: Ctx):
    """A C11 obligation no longer proves: evaluate the property (independent encoders, round trip,
    NDR64 reference) on the implementation over the boundary tables."""
    from ..core import run_impl
    from ..val import dec, enc

    tried = 0
    table = [
        ("gkdi.keyid.pack", gen_keyid(ctx, 200), impl_keyid_pack, pred_pack(ref_keyid, impl_keyid_unpack)),
        ("gkdi.gke.pack", gen_gke(ctx, 200), impl_gke_pack, pred_pack(ref_gke, impl_gke_unpack)),
        ("gkdi.getkey.pack", gen_getkey(ctx, 200), impl_getkey_pack, pred_pack(ref_getkey_request, impl_getkey_unpack)),
        ("gkdi.kdfp.pack", STRS + STRS_BAD, impl_kdfp_pack, pred_pack(ref_kdfp)),
        ("gkdi.ffp.pack", gen_int_struct(ctx, 100, 2), impl_ffp_pack, pred_pack(ref_ffp, impl_ffp_unpack)),
        ("gkdi.ffk.pack", gen_int_struct(ctx, 100, 3), impl_ffk_pack, pred_pack(ref_ffk, impl_ffk_unpack)),
        ("gkdi.eck.pack", gen_eck(ctx, 100), impl_eck_pack, pred_pack(ref_eck, impl_eck_unpack)),
    ]
    for unit, cases, impl, pred in table:
        for c in cases:
            tried += 1
            out = dec(run_impl(impl, c))
            why = pred(c, out)
            if why:
                return {"unit": unit, "input": enc(c), "expected": "the MS-GKDI encoding and a clean round trip",
                        "observed": repr(out)[:300], "why": why, "tried": tried, "key": None}
    # replies for every length residue
    for ln in range(0, 64):
        env = bytes((7 * i + ln) & 255 for i in range(ln))
        from dpapi_ng._gkdi import GetKey, GroupKeyEnvelope

        data = ref_getkey_reply(env, 0)
        tried += 1

        def grab(b):
            try:
                return _gke_val(GroupKeyEnvelope.unpack(b))
            except Exception as exc:  # noqa: BLE001
                return type(exc).__name__

        def grab2(b):
            try:
                return _gke_val(GetKey.unpack_response(b))
            except Exception as exc:  # noqa: BLE001
                return type(exc).__name__

        if grab(env) != grab2(data):
            return {"unit": "gkdi.getkey.reply", "input": enc([env, 0]), "expected": "GroupKeyEnvelope.unpack of the payload",
                    "observed": repr(grab2(data))[:300], "why": "unpack_response does not extract the payload of the NDR64 reference reply",
                    "tried": tried, "key": None}
    ctx.notes.append(f"search: {tried} boundary cases satisfy the property on the implementation")
    return None
