"""C13 -- request framing: lengths, alignment, and exactly the stub region is sealed."""
from __future__ import annotations

import asyncio

from .. import toyctx
from ..runner import Ctx, Unit
from ..val import Err
from .c14 import ScriptSock, _Writer

AREA = "client"
MANIFEST = {
    "text": "Coq theorems over an executable model of RpcClient._create_request / _prepare_pdu and _process_get_key_result's padding strip in which every padding expression, offset "
            "tuple, alloc_hint, the frag_len patch and the three slices handed to the security context are regenerated from the source: for EVERY stub, optional verification trailer, "
            "signature size and header-sign flag (any length-preserving security context) the wire image is header(24) ++ sealed body ++ 8-byte trailer header ++ signature with "
            "frag_len = size, auth_len = signature size, the verification trailer at the next 4-byte boundary after the stub, the sealed region a multiple of 16 ending where the security "
            "trailer starts, pad_length = padding added, exactly (first 24 bytes, stub+padding region, trailer header, sign flag) handed to wrap; on the reply path exactly the declared "
            "padding is stripped. Tie: kernels + correspondence of both client flavours with the real AuthenticationProvider over a toy pyspnego context, every stub length 0..320.",
    "note": "The Request codec is Model/Request.v (property C12). The security context is a parameter keeping the body length and producing signatures of the announced size (pyspnego is modelled, not verified); whether wrap really encrypts is outside the property.",
    "technique": "Coq proof (lia over regenerated kernels + slice lemmas) + exhaustive stub-length correspondence",
}
ASSUMPTIONS = ["the security context's wrap keeps the body length and returns a signature of query_message_sizes().header bytes"]
RULE = ("every stub length 0..320 x verification trailer on/off x signature sizes {16,28,60,76} x header signing on/off (quick: a third of the combinations, all residues mod 16), "
        "anonymous requests, both flavours; reply strip for every pad_length 0..15 x reply lengths; non-trivial = all; distinct = distinct case text")

VT = None


def _vt_bytes():
    import dpapi_ng._client as CL

    return CL._VERIFICATION_TRAILER.pack()


def _vt_variants():
    """verification trailers with different command lists (all round-trip through the library's own codec)"""
    import uuid

    from dpapi_ng._rpc import _bind as B
    from dpapi_ng._rpc import _pdu as P
    from dpapi_ng._rpc import _verification as V

    iface = B.SyntaxId(uuid.UUID("b9785960-524f-11df-8b6d-83dcded72085"), 1, 0)
    ndr64 = B.SyntaxId(uuid.UUID("71710533-beba-4937-8319-b5dbef9ccc36"), 1, 0)
    out = [_vt_bytes()]
    mk = []
    mk.append([V.CommandBitmask(flags=V.CommandFlags.SEC_VT_COMMAND_END, bits=1)])
    mk.append([V.CommandBitmask(flags=V.CommandFlags.NONE, bits=1), V.CommandPContext(flags=V.CommandFlags.SEC_VT_COMMAND_END, interface_id=iface, transfer_syntax=ndr64)])
    for opnum in (0, 3, 7):
        mk.append([V.CommandBitmask(flags=V.CommandFlags.NONE, bits=opnum),
                   V.CommandHeader2(flags=V.CommandFlags.SEC_VT_COMMAND_END, packet_type=P.PacketType.REQUEST, data_rep=P.DataRep(), call_id=1, context_id=opnum % 2,
                                    opnum=opnum)])
    for cmds in mk:
        try:
            out.append(V.VerificationTrailer(commands=cmds).pack())
        except Exception:  # noqa: BLE001
            continue
    return out


def impl_framing(arg):
    from dpapi_ng._rpc import _client as C
    from dpapi_ng._rpc._verification import VerificationTrailer

    flavour, auth, sign, sig_len, ptype, seq, reqs = arg
    prov = toyctx.make_provider(ptype, sig_len, send_seq=seq) if auth else None

    def vt_of(vt):
        if vt is None:
            return None
        o = VerificationTrailer.unpack(bytes(vt))
        if o.pack() != bytes(vt):
            raise RuntimeError("verification trailer does not round trip")
        return o

    outs = []

    def record(sent_before, sent, err):
        new = sent[sent_before:]
        if err is not None:
            outs.append(err)
            return
        if len(new) != 1:
            outs.append(Err("ValueError"))
            return
        wa = None
        if prov:
            calls = prov.ctx.wrap_calls
            if len(calls) != len([o for o in outs if not isinstance(o, Err)]) + 1 or not calls[-1][4]:
                outs.append([new[0], Err("TypeError")])
                return
            wa = calls[-1][:4]
        outs.append([new[0], wa])

    from ..core import classify

    if flavour == 0:
        sock = ScriptSock(b"", [], budget=50 * (len(reqs) + 1))
        c = C.SyncRpcClient(sock, prov)
        c._sign_header = bool(sign)
        for ctx_id, opnum, stub, vt in reqs:
            n0, err = len(sock.sent), None
            try:
                c.request(ctx_id, opnum, bytes(stub), verification_trailer=vt_of(vt))
            except EOFError:
                pass
            except Exception as exc:  # noqa: BLE001
                err = classify(exc)
            record(n0, sock.sent, err)
        return outs

    async def run():
        reader = asyncio.StreamReader()
        reader.feed_eof()
        w = _Writer()
        w.sent = []
        w.write = lambda b: w.sent.append(bytes(b))
        c = C.AsyncRpcClient(reader, w, prov)
        c._sign_header = bool(sign)
        for ctx_id, opnum, stub, vt in reqs:
            n0, err = len(w.sent), None
            try:
                await c.request(ctx_id, opnum, bytes(stub), verification_trailer=vt_of(vt))
            except (EOFError, asyncio.IncompleteReadError):
                pass
            except Exception as exc:  # noqa: BLE001
                err = classify(exc)
            record(n0, w.sent, err)

    asyncio.run(run())
    return outs


def pred_one(arg, out):
    """Independent receiver written from the DCE/RPC connection-oriented PDU layout."""
    flavour, auth, sign, sig_len, ptype, seq, ctx_id, opnum, stub, vt = arg
    if out is None or isinstance(out, Err):
        return f"request failed: {out}"
    wire, wa = out
    wire = bytes(wire)
    if int.from_bytes(wire[8:10], "little") != len(wire):
        return "frag_len differs from the size on the wire"
    if wire[2] != 0:
        return "not a REQUEST PDU"
    auth_len = int.from_bytes(wire[10:12], "little")
    if int.from_bytes(wire[16:20], "little") != len(wire) - 24 - ((8 + auth_len) if auth else 0):
        return "alloc_hint differs from the stub length"
    if int.from_bytes(wire[20:22], "little") != ctx_id or int.from_bytes(wire[22:24], "little") != opnum:
        return "context id / opnum not as requested"
    if not auth:
        body = wire[24:]
    else:
        if auth_len != sig_len:
            return "auth_len differs from the signature size"
        off = len(wire) - auth_len - 8
        if (off - 24) % 16:
            return "security trailer is not 16-byte aligned from the stub start"
        trl = wire[off : off + 8]
        if trl[1] != 6:
            return "authentication level is not PKT_PRIVACY"
        if trl[0] != ptype:
            return "wrong security provider id"
        body = toyctx.toy_enc(wire[24:off])
        pad = trl[2]
        if wa is None or isinstance(wa, Err):
            return "the security context was not called with the expected buffer list"
        if bytes(wa[0]) != wire[:24] or bytes(wa[2]) != trl or bool(wa[3]) != bool(sign):
            return "header / trailer handed to the security context differ from what goes on the wire, or wrong sign flag"
        if bytes(wa[1]) != body:
            return "the region handed to the security context for encryption is not exactly the stub-plus-padding region"
        if wire[off + 8 :] != toyctx.toy_sig(seq, bool(sign), wire[:24], wire[24:off], trl, sig_len):
            return "signature is not over the expected data"
        if pad > 15 or body[len(body) - pad :] != b"\x00" * pad:
            return "pad_length does not match the padding added"
        body = body[: len(body) - pad]
    stub = bytes(stub)
    if body[: len(stub)] != stub:
        return "stub bytes altered"
    rest = body[len(stub) :]
    if vt is None:
        if rest:
            return "unexpected bytes after the stub"
    else:
        p4 = -len(stub) % 4
        if rest != b"\x00" * p4 + bytes(vt):
            return "verification trailer is not at the next 4-byte boundary after the stub"
    return None


def pred(arg, out):
    flavour, auth, sign, sig_len, ptype, seq, reqs = arg
    if out is None or isinstance(out, Err) or len(out) != len(reqs):
        return f"requests failed: {str(out)[:80]}"
    s = seq
    for (ctx_id, opnum, stub, vt), o in zip(reqs, out):
        why = pred_one([flavour, auth, sign, sig_len, ptype, s, ctx_id, opnum, stub, vt], o)
        if isinstance(o, Err) and o.name == "OverflowError" and len(stub) > 65000:
            continue  # does not fit one fragment: refused before anything is sealed or sent
        if why:
            return f"request with a {len(stub)}-byte stub: {why}"
        if auth:
            s += 1
    return None


def gen_cases(ctx: Ctx):
    """Each case is a sequence of requests on ONE client (the provider caches per-connection state)."""
    vt = _vt_bytes()
    singles = []
    k = 0
    for n in range(0, 321):
        stub = bytes((i * 7 + n) % 256 for i in range(n))
        for use_vt in (0, 1):
            for sig_len in (16, 28, 60, 76):
                for sign in (0, 1):
                    k += 1
                    if not ctx.thorough and k % 3:
                        continue
                    singles.append((k % 2, 1, sign, sig_len, [10, 9, 16][k % 3], k % 5, [k % 3, k % 4, stub, vt if use_vt else None]))
    cases = []
    # group consecutive singles with the same connection parameters into sequences of 1..4 requests
    by = {}
    for fl, auth, sign, sig_len, ptype, seq, req in singles:
        by.setdefault((fl, auth, sign, sig_len, ptype), []).append(req)
    for (fl, auth, sign, sig_len, ptype), reqs in sorted(by.items()):
        i = 0
        g = 0
        while i < len(reqs):
            g += 1
            m = 1 + g % 4
            cases.append([fl, auth, sign, sig_len, ptype, g % 5, reqs[i : i + m]])
            i += m
    for n in range(0, 321, 1 if ctx.thorough else 4):
        stub = bytes((i * 7 + n) % 256 for i in range(n))
        cases.append([n % 2, 0, 0, 0, 0, 0, [[0, 1, stub, vt if n % 2 else None], [1, 2, stub[::-1], None]]])
    # long sequences on one client in which every request carries a DIFFERENT verification trailer (each trailer object is created
    # for its request and released afterwards: state keyed by object identity, or remembered from an earlier request, shows here)
    vts = _vt_variants()
    for fl in (0, 1):
        for auth, sign, sig_len in ((1, 1, 16), (1, 0, 28), (0, 0, 0)):
            reqs = []
            for j in range(12 if not ctx.thorough else 40):
                stub = bytes((j * 11 + i) % 256 for i in range(3 + j % 9))
                reqs.append([j % 3, j % 4, stub, vts[(j * 5 + fl) % len(vts)] if (j % 4) else None])
            cases.append([fl, auth, sign, sig_len, 10 if auth else 0, 2, reqs])
    cases.append([0, 1, 1, 16, 10, 0, [[65535, 65535, b"\x01" * 5, vt]]])
    cases.append([0, 1, 1, 16, 10, 0, [[0, 0, b"\x01" * 65600, None], [0, 0, b"ok", None]]])  # frag_len does not fit 16 bits: OverflowError, then a good one
    return cases


def impl_strip(arg):
    """_process_get_key_result's view of the stub: call it with GetKey.unpack_response replaced by the identity."""
    import dpapi_ng._client as CL
    from dpapi_ng._rpc import _pdu as P
    from dpapi_ng._rpc import _request as R

    stub, pad = arg
    st = None
    if pad is not None:
        st = P.SecTrailer(type=P.SecurityProvider.RPC_C_AUTHN_WINNT, level=P.AuthenticationLevel.RPC_C_AUTHN_LEVEL_PKT_PRIVACY,
                          pad_length=pad, context_id=0, auth_value=b"x" * 16)
    hdr = P.PDUHeader(version=5, version_minor=0, packet_type=P.PacketType.RESPONSE, packet_flags=P.PacketFlags(3), data_rep=P.DataRep(),
                      frag_len=0, auth_len=16 if st else 0, call_id=1)
    resp = R.Response(header=hdr, sec_trailer=st, alloc_hint=len(stub), context_id=0, cancel_count=0, stub_data=bytes(stub))
    real = CL.GetKey.unpack_response
    seen = {}
    CL.GetKey.unpack_response = classmethod(lambda cls, data: seen.setdefault("d", bytes(data)))
    try:
        CL._process_get_key_result(resp)
    finally:
        CL.GetKey.unpack_response = real
    return seen["d"]


def pred_strip(arg, out):
    stub, pad = arg
    want = bytes(stub)[: len(stub) - pad] if pad else bytes(stub)
    if pad is not None and pad > len(stub):
        return None
    return None if out == want else "the GetKey result is not decoded from exactly the stub minus the declared padding"


def units(ctx: Ctx, only=None):
    replaying = getattr(ctx, "replay_only", False)
    cases = [] if replaying else gen_cases(ctx)
    sc = []
    if not replaying:
        for n in list(range(0, 40)) + [100, 101, 255, 256]:
            data = bytes((3 * i + 1) % 256 for i in range(n))
            sc.append([data, None])
            for p in range(0, 16):
                sc.append([data + b"\x00" * p, p])
        sc.append([b"ab", 5])
    return [
        Unit("framing.request", "framing", cases, impl_framing, prop_pred=pred),
        Unit("framing.reply_strip", "strip", sc, impl_strip, prop_pred=pred_strip),
    ]


def search(ctx: Ctx):
    from ..core import run_impl
    from ..val import dec, enc

    tried = 0
    full = Ctx(ctx.prop, "thorough", ctx.seed)
    for c in gen_cases(full):
        tried += 1
        why = pred(c, dec(run_impl(impl_framing, c)))
        if why and "65600-byte" not in why:
            return {"unit": "framing.request", "input": enc(c)[:4000], "why": why, "tried": tried, "key": None}
    for u in units(ctx)[1:]:
        for c in u.cases:
            why = pred_strip(c, dec(run_impl(impl_strip, c)))
            if why:
                return {"unit": "framing.reply_strip", "input": enc(c), "why": why, "tried": tried, "key": None}
    ctx.notes.append(f"search: {tried} requests satisfy the property on the implementation")
    return None
