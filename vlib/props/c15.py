"""C15 -- bind/auth handshake relays tokens faithfully and fails closed."""
from __future__ import annotations

import asyncio
import concurrent.futures
import itertools
import uuid

from .. import sym
from ..runner import Ctx, Unit
from ..val import Err
from .c14 import ScriptSock, _Writer

AREA = "client"
MANIFEST = {
    "text": "Coq theorems, by induction over the server script and the provider's legs (no bound on either), about an executable model of RpcClient.bind / _create_bind / "
            "_create_alter_context / _process_bind_ack / _process_bind_result whose guards and flag expressions are regenerated from the source: the tokens sent are exactly the "
            "provider's non-empty tokens, in order, the first in a Bind and the others in AlterContext PDUs, each once; step() receives None and then each ack's token (or b''); no step "
            "after completion and no PDU after an empty token; header signing stays on iff offered and every ack carried the flag, and the flag offered in each PDU is the state before it; "
            "bind_nak / fault / unexpected PDU / EOF end the run with an error and no further PDU; a request context passes _process_bind_result only if the bind_ack accepted it. "
            "Sync and async bind/request are the same normalised AST. Tie: kernels + trace correspondence of both client flavours over enumerated server scripts x provider scripts. "
            "Whole-run theorems (Properties/C15.v, all closed under the global context, about bind_run for every leg list and every server script): C15_tokens_out (one Bind with the first "
            "token - sent even if empty - then only AlterContext PDUs carrying a prefix of the remaining legs' tokens, in order, each once, all non-empty, with exactly the contexts the "
            "bind_ack accepted; C15_accepted_contexts: those are the offered contexts whose result is 0), C15_tokens_in (step arguments = a prefix of None :: token-or-b'' of each reply "
            "consumed; #steps = #PDUs, or #PDUs + 1 exactly when a later step produced an empty token), C15_stops (one leg per step, every leg before the last step incomplete, no PDU for or "
            "after a later empty token), C15_header_sign (final sign_header = every processed ack carried the flag; Bind offers 4; PDU j offers it iff the first j acks all carried it), "
            "C15_fail_closed (reply k of the wrong kind => ValueError and exactly k+1 PDUs; unanswered PDU => EOFError, last PDU), C15_error_causes (the only failures: EOF, wrong reply, "
            "IndexError from a result vector shorter than the contexts it answers, KeyError when the provider script is exhausted), C15_result, C15_anonymous (one Bind, flags 0, no token). "
            "Lower bound: C15_progress / C15_leg_count (a bind that returns stepped the provider exactly up to the first leg that is complete or - after the first - yields an empty token). "
            "Composition: C15_request_context (bind then _process_bind_result: the context is one this server's bind_ack accepted). C15_send_pdu_classification: the model's classification of a reply is the class check of _process_response.",
    "note": "The handshake model is hand-written around regenerated guard kernels (tie by correspondence for the rest). The authentication provider and the server are scripts; pyspnego itself is not modelled.",
    "technique": "Coq proof (induction over scripts, regenerated guards) + enumerated-script trace correspondence",
}
ASSUMPTIONS = ["the authentication provider produces one token per step and reports completion (scripted in the harness)",
               "PDU encode/decode of bind-family PDUs (property C12) is used to script the server and to read the client's PDUs back"]
PARTIAL = [
    "C15_progress / C15_leg_count (the lower bound: tokens are fed back for exactly as long as the context is incomplete and tokens keep coming) are stated for runs that RETURN "
    "(bind_run = Ok); for runs that fail the number of legs stepped is bounded above only (C15_stops, C15_fail_closed) -- how far a failing run got is fixed by C15_fail_closed / "
    "C15_error_causes through the position of the offending reply, not by a leg count",
    "both flavours of bind are tied semantically to Handshake.bind_run (C15_flow_async_bind, C15_flow_sync_bind; the sync flavour since Prelude/PyAst.v writes the receiver of "
    "`self._auth.step(..)` back into `self` along the attribute path, the world saying what storing a provider into self._auth means); C15_flow_bind_twin remains as the syntactic "
    "relation of the two bodies. Through `run` / run_self only results and the FINAL client state of successful runs are observable: the client state at the moment of an exception "
    "is not (the interpreter's `res` carries no state) -- the PDUs sent before a failure are pinned by the model theorems (C15_fail_closed) and the trace correspondence only",
    "Handshake.send_pdu is an abstraction (result codes, packet_flags, auth_value of each ack; the transport and PDU decoding are a script of replies): C15_send_pdu_classification "
    "ties its classification of a reply to the source's _process_response (through Seal.process_pdu_as, C16_flow_process_response_as) for replies that DECODE; a reply whose octets do "
    "not decode (PDU.unpack raises) has no Handshake.reply -- the model's scripts do not contain such replies; C12/C05 cover the decoders, and _send_pdu's read loops are C14",
    "'a request is only issued on a context the server accepted' is C15_context (the check), C15_request_context (bind() then the check, the order of _sync_get_key) and, over the whole "
    "conversation and stated on what goes on the wire, C17_request_on_accepted_context (Properties/C17.v: it needs Model/Conversation.v, which is C17's cone)",
    "the provider and the server are scripts (ASSUMPTIONS): pyspnego's own state machine is not modelled; the provider is assumed to yield one token per step and to report completion",
]
RULE = ("server scripts of depth <= 3 (thorough 4) over {bind_ack/alter_context_resp x result vectors x header-sign flag x token/no token, bind_nak, fault, response, EOF} x provider "
        "scripts of 1..4 legs incl. empty final token and early completion x both flavours x anonymous binds; non-trivial = all; distinct = distinct case text")

NDR64 = uuid.UUID("71710533-beba-4937-8319-b5dbef9ccc36")
ABSTRACT = uuid.UUID("b9785960-524f-11df-8b6d-83dcded72085")


class ScriptProvider:
    def __init__(self, legs):
        self.legs = [(bytes(t), bool(c)) for t, c in legs]
        self.complete = False
        self.calls = []

    def step(self, in_token=None):
        from dpapi_ng._rpc._pdu import AuthenticationLevel, SecTrailer, SecurityProvider

        self.calls.append(None if in_token is None else bytes(in_token))
        if not self.legs:
            raise KeyError("provider script exhausted")
        tok, comp = self.legs.pop(0)
        self.complete = comp
        return SecTrailer(type=SecurityProvider.RPC_C_AUTHN_WINNT, level=AuthenticationLevel.RPC_C_AUTHN_LEVEL_PKT_PRIVACY,
                          pad_length=0, context_id=0, auth_value=tok)


def _hdr(pt, flags, auth_len):
    from dpapi_ng._rpc import _pdu as P

    return P.PDUHeader(version=5, version_minor=0, packet_type=pt, packet_flags=P.PacketFlags(flags), data_rep=P.DataRep(),
                       frag_len=0, auth_len=auth_len, call_id=1)


def reply_bytes(r) -> bytes:
    from dpapi_ng._rpc import _bind as B
    from dpapi_ng._rpc import _pdu as P
    from dpapi_ng._rpc import _request as R

    kind, results, flags, tok = r
    st = None
    if tok is not None:
        st = P.SecTrailer(type=P.SecurityProvider.RPC_C_AUTHN_WINNT, level=P.AuthenticationLevel.RPC_C_AUTHN_LEVEL_PKT_PRIVACY,
                          pad_length=0, context_id=0, auth_value=bytes(tok))
    al = len(tok) if tok is not None else 0
    if kind in (0, 1):
        # result codes the enum does not know (4.., e.g. a newer or broken server) are patched into the packed octets: the result
        # field of entry i sits at 36 + 24 i (16 header + 8 + secondary address "135\0" with its length and padding + count word)
        res = [B.ContextResult(result=B.ContextResultCode(x if 0 <= x <= 3 else 2), reason=0, syntax=NDR64, syntax_version=1) for x in results]
        cls, pt = (B.BindAck, P.PacketType.BIND_ACK) if kind == 0 else (B.AlterContextResponse, P.PacketType.ALTER_CONTEXT_RESP)
        b = bytearray(cls(header=_hdr(pt, flags, al), sec_trailer=st, max_xmit_frag=5840, max_recv_frag=5840, assoc_group=1, sec_addr="135", results=res).pack())
        for i, x in enumerate(results):
            if not 0 <= x <= 3:
                b[36 + 24 * i : 38 + 24 * i] = int(x).to_bytes(2, "little")
        b = bytes(b)
    elif kind == 2:
        b = B.BindNak(header=_hdr(P.PacketType.BIND_NAK, 3, 0), sec_trailer=None, reject_reason=4, versions=[(5, 0)]).pack()
    elif kind == 3:
        b = P.Fault(header=_hdr(P.PacketType.FAULT, 3, 0), sec_trailer=None, alloc_hint=0, context_id=0, cancel_count=0, status=5,
                    flags=P.FaultFlags.NONE, stub_data=b"").pack()
    else:
        b = R.Response(header=_hdr(P.PacketType.RESPONSE, 3, 0), sec_trailer=None, alloc_hint=0, context_id=0, cancel_count=0, stub_data=b"").pack()
    b = bytearray(b)
    b[8:10] = len(b).to_bytes(2, "little")
    return bytes(b)


def _contexts(ids):
    from dpapi_ng._rpc import _bind as B

    return [B.ContextElement(context_id=i, abstract_syntax=B.SyntaxId(ABSTRACT, 1, 0), transfer_syntaxes=[B.SyntaxId(NDR64, 1, 0)]) for i in ids]


def _decode_sent(raw_list):
    from dpapi_ng._rpc import _bind as B
    from dpapi_ng._rpc._pdu import PDU

    out = []
    for raw in raw_list:
        p = PDU.unpack(raw)
        kind = 1 if isinstance(p, B.AlterContext) else 0
        tok = bytes(p.sec_trailer.auth_value) if p.sec_trailer else None
        out.append([kind, int(p.header.packet_flags), tok, [c.context_id for c in p.contexts]])
    return out


_SHARED = concurrent.futures.ThreadPoolExecutor(max_workers=1)


class _SharedExec:
    def __new__(cls, *a, **k):
        return _SHARED


def _split_pdus(data: bytes):
    out, pos = [], 0
    while pos + 16 <= len(data):
        n = int.from_bytes(data[pos + 8 : pos + 10], "little")
        out.append(data[pos : pos + n])
        pos += max(n, 16)
    return out


def impl_handshake(arg):
    from dpapi_ng._rpc import _client as C

    flavour, auth, legs, server, ctx_ids = arg
    stream = b"".join(reply_bytes(r) for r in server)
    prov = ScriptProvider(legs) if auth else None
    n_replies = len(server)
    if flavour == 0:
        sock = ScriptSock(stream, [], budget=20 * (len(stream) + 10))
        c = C.SyncRpcClient(sock, prov)
        try:
            ack = c.bind(_contexts(ctx_ids))
            res = [int(r.result) for r in ack.results]
        except Exception as exc:  # noqa: BLE001
            from ..core import classify

            res = classify(exc)
        sent = sock.sent
        consumed = sock.pos
    else:
        saved = C.concurrent.futures.ThreadPoolExecutor
        C.concurrent.futures.ThreadPoolExecutor = _SharedExec

        async def run():
            reader = asyncio.StreamReader()
            reader.feed_data(stream)
            reader.feed_eof()
            w = _Writer()
            w.sent = []
            w.write = lambda b: w.sent.append(bytes(b))
            c = C.AsyncRpcClient(reader, w, prov)
            try:
                ack = await asyncio.wait_for(c.bind(_contexts(ctx_ids)), 10)
                res = [int(r.result) for r in ack.results]
            except Exception as exc:  # noqa: BLE001
                from ..core import classify

                res = classify(exc)
            return res, w.sent, len(stream) - len(reader._buffer), c

        try:
            res, sent, consumed, c = asyncio.run(run())
        finally:
            C.concurrent.futures.ThreadPoolExecutor = saved
    if isinstance(res, Err) and res.name == "IncompleteRead":
        res = Err("EOFError")
    used = len(_split_pdus(stream[:consumed]))
    return [res, _decode_sent(sent), prov.calls if prov else [], bool(c._sign_header), n_replies - used]


def oracle(arg):
    """Independent statement of C15 as a reference run written from the property text."""
    flavour, auth, legs, server, ctxs = arg
    legs, server = list(legs), list(server)
    trace, steps, sign = [], [], False

    def exchange(pdu, want_kind):
        trace.append(pdu)
        if not server:
            return Err("EOFError")
        r = server.pop(0)
        # the reply is DECODED first: a bind_ack / alter_context_resp whose result vector holds a code that is no ContextResultCode
        # member (0..3) does not decode (ContextResult.unpack), whatever kind was awaited
        if r[0] in (0, 1) and any(code not in (0, 1, 2, 3) for code in r[1]):
            return Err("ValueError")
        if r[0] != want_kind:
            return Err("ValueError")
        return r

    if not auth:
        r = exchange([0, 3, None, list(ctxs)], 0)
        return [r if isinstance(r, Err) else list(r[1]), trace, steps, sign, len(server)]
    if not legs:
        return None
    tok, complete = legs.pop(0)
    steps.append(None)
    sign = True
    r = exchange([0, 3 | 4, bytes(tok), list(ctxs)], 0)
    if isinstance(r, Err):
        return [r, trace, steps, sign, len(server)]
    bind_results = list(r[1])

    def accepted(cs, results):
        out = []
        for i, c in enumerate(cs):
            if i >= len(results):
                return Err("IndexError")
            if results[i] == 0:
                out.append(c)
        return out

    final = accepted(ctxs, r[1])
    if isinstance(final, Err):
        return [final, trace, steps, sign, len(server)]
    if not (r[2] & 4):
        sign = False
    in_tok = r[3]
    while not complete:
        if not legs:
            return None
        steps.append(bytes(in_tok) if in_tok else b"")
        tok, complete = legs.pop(0)
        if not tok:
            break
        r = exchange([1, 3 | (4 if sign else 0), bytes(tok), list(final)], 1)
        if isinstance(r, Err):
            return [r, trace, steps, sign, len(server)]
        a = accepted(final, r[1])
        if isinstance(a, Err):
            return [a, trace, steps, sign, len(server)]
        if not (r[2] & 4):
            sign = False
        in_tok = r[3]
    return [bind_results, trace, steps, sign, len(server)]


def pred(arg, out):
    """The property on the implementation's output.  Successful runs: result vector, PDUs sent, step() arguments, header-signing state and
    unread replies must be those of the reference run.  Runs the property only says FAIL (EOF, bind_nak / fault / PDU of another type, a
    result vector shorter than the contexts it answers): an error of ANY class is accepted -- a hardening that raises ValueError where the
    pinned code raises IndexError, or that leaves another post-error state, is not a violation -- but it must be an error (fail closed) and
    no PDU other than the reference run's may have gone out (nothing is sent after, or instead of, the failing exchange)."""
    want = oracle(arg)
    if want is None:
        return None  # provider script exhausted: outside the property's quantifier
    if out is None:
        return "no output"
    if isinstance(want[0], Err):
        if want[0].name == "IndexError" and not isinstance(out[0], Err):
            # the reference fails only because it INDEXES a result vector that is shorter than the contexts it answers; where those
            # results are not needed (alter_context_resp) an implementation that does not look at them is not wrong: not judged
            return None
        if not isinstance(out[0], Err):
            return f"fail closed: the reference run ends in {want[0]} but the implementation returned {str(out[0])[:120]}"
        if want[1] != out[1]:
            return f"PDUs sent before the failure: expected {str(want[1])[:120]} observed {str(out[1])[:120]}"
        return None
    names = ["result", "PDUs sent (type, flags, token, contexts)", "provider.step arguments", "header signing state", "server replies left unread"]
    for i, nm in enumerate(names):
        a, b = want[i], out[i]
        if i == 3:
            a, b = bool(a), bool(b)
        if a != b:
            return f"{nm}: expected {str(a)[:120]} observed {str(b)[:120]}"
    return None


def gen_cases(ctx: Ctx):
    toks = [b"T1", b"T22", b"T333", b"T4444"]
    acks = []
    for kind in (0, 1):
        for results in ([0, 0], [0, 2], [2, 0], [2, 3], [0], [], [7, 0], [0, 4], [65535, 65535], [256, 2]):
            for flags in (3, 7):
                for tk in (None, b"S1"):
                    acks.append([kind, results, flags, tk])
    others = [[2, [], 3, None], [3, [], 3, None], [4, [], 3, None]]
    provs = [
        [[toks[0], 1]],
        [[toks[0], 0], [toks[1], 1]],
        [[toks[0], 0], [b"", 1]],
        [[toks[0], 0], [toks[1], 0], [toks[2], 1]],
        [[toks[0], 0], [toks[1], 0], [b"", 0]],
        [[toks[0], 0], [toks[1], 0], [toks[2], 0], [toks[3], 1]],
    ]
    depth = 3 if not ctx.thorough else 4
    cases = []
    alphabet = acks + others
    k = 0
    # depth-1 and depth-2 exhaustively, deeper sampled
    scripts = [[]] + [[a] for a in alphabet]
    scripts += [[a, b] for a in alphabet[:: 3] for b in alphabet[1:: 2]]
    for _ in range(ctx.n(1500, 12000)):
        d = ctx.rng.randrange(2, depth + 2)
        scripts.append([ctx.rng.choice(alphabet if ctx.rng.random() < 0.25 else acks) for _ in range(d)])
    # well-formed conversations: bind_ack then alter responses
    for p in provs:
        for flags_seq in itertools.product((3, 7), repeat=3):
            scripts.append([[0, [0, 2], flags_seq[0], b"S1"], [1, [0], flags_seq[1], b"S2"], [1, [0], flags_seq[2], None]])
    for s in scripts:
        for p in provs[:: 1 if ctx.thorough else 2] if len(s) > 2 else provs:
            k += 1
            cases.append([k % 2, 1, p, s, [0, 1]])
    for s in scripts[:60]:
        cases.append([0, 0, [], s, [0]])
        cases.append([1, 0, [], s, [0, 1]])
    return cases


def impl_bind_result(arg):
    from dpapi_ng import _client as CL
    from dpapi_ng._rpc import _bind as B
    from dpapi_ng._rpc import _pdu as P

    req, results, desired = arg
    res = [B.ContextResult(result=B.ContextResultCode(x), reason=0, syntax=NDR64, syntax_version=1) for x in results]
    ack = B.BindAck(header=_hdr(P.PacketType.BIND_ACK, 3, 0), sec_trailer=None, max_xmit_frag=0, max_recv_frag=0, assoc_group=0, sec_addr="", results=res)
    CL._process_bind_result(_contexts(req), ack, desired)
    return None


def pred_bind_result(arg, out):
    req, results, desired = arg
    if out is None:  # accepted
        ok = any(results[i] == 0 and i < len(req) and req[i] == desired for i in range(len(results)))
        return None if ok else "a request would be issued on a presentation context the server did not accept"
    return None


def units(ctx: Ctx, only=None):
    replaying = getattr(ctx, "replay_only", False)
    cases = [] if replaying else gen_cases(ctx)
    br = []
    if not replaying:
        for req in ([0], [0, 1], [5, 7, 9]):
            for n in range(0, 4):
                for results in itertools.product((0, 2, 3), repeat=n):
                    for d in (0, 1, 7):
                        br.append([req, list(results), d])
    return [
        Unit("handshake.scripts", "handshake", cases, impl_handshake, prop_pred=pred),
        Unit("handshake.bind_result", "bind_result", br, impl_bind_result, prop_pred=pred_bind_result),
    ]


def search(ctx: Ctx):
    from ..core import run_impl
    from ..val import dec, enc

    tried = 0
    for c in gen_cases(ctx):
        for fl in (0, 1):
            arg = [fl] + c[1:]
            tried += 1
            why = pred(arg, dec(run_impl(impl_handshake, arg)))
            if why:
                return {"unit": "handshake.scripts", "input": enc(arg), "why": why, "tried": tried, "key": None}
    ctx.notes.append(f"search: {tried} scripted handshakes satisfy the property on the implementation")
    return None
