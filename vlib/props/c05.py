"""C05 -- decrypting untrusted bytes ends promptly with a deliberate error type."""
from __future__ import annotations

from .. import e2e, hostile, sym
from ..runner import Ctx, Unit
from ..val import Err

AREA = "e2e"
MANIFEST = {
    "text": "The whole offline unprotect pipeline (DER reader, CMS/blob decoders, key identifier, SID -> security descriptor, KeyCache lookup with a loaded root key, key-chain "
            "derivation, KEK derivation, key unwrap, content decryption) is one executable Coq function `unprotect_offline` (Model/Client.v) composed of the models of the other "
            "properties, faithful on ARBITRARY input bytes. Theorems (coq/Properties/C05.v): for every byte string and every cache the outcome is a value, NeedNetwork, or one of the "
            "deliberate error classes (never IndexError / OverflowError / struct.error / TypeError / KeyError / OutOfFuel), with a bounded number of KDF calls. Tie: the model is "
            "differentially executed against ncrypt_unprotect_secret on all truncations, all single-bit flips, structure-aware DER mutations and key-identifier boundary values of "
            "library-made blobs (outcome buckets), under the symbolic crypto with a KDF-call budget and again with the real crypto. "
            "Proved (Proofs/C05*.v, one lemma per function of the pipeline, bottom-up, combined with Safe_bind / SafeP_bind): C05_deliberate / C05_error_classes (forall CryptoLaws c, "
            "forall cache and bytes: wfb data -> cache_ok cache -> the outcome is a value, NeedNetwork, ValueError, NotImplementedError, NotEnoughData, InvalidTag or InvalidUnwrap), "
            "C05_no_fuel_exhaustion (no fuelled loop runs out: reader loops have fuel = length of the bytes they walk, the key-chain loops 100), C05_blob_unpack (the parser layer alone), "
            "C05_cache_ok_initial / _load / _preserved (cache_ok := every cached seed envelope has L1 <= 31 and L2 <= 31; holds after loading any root keys, kept by every call; nothing is "
            "assumed of root keys, cached L0 or key material), C05_bounded_kdf_partial + C05_l2_loops_within_fuel (<= 63 KDF calls in compute_l2_key for any instrumented kdf, same key as "
            "the uninstrumented run), C05_kdf_context_overflow (outside the signed range the context IS an OverflowError: the L0 guard and the 0..31 guards are load-bearing). `wfb data` is "
            "the type invariant of a Python bytes object (model bytes = list Z). Examples run in Coq: valid / truncated / L0=2^31 / L1=32 / L2=2^32-1 / wrong tag / empty input; a cache "
            "holding an envelope at L1=200 (not cache_ok) gives OutOfFuel, so cache_ok cannot be dropped.",
    "note": "Crypto primitives are parameters constrained only in the exception classes they may raise (CryptoLaws); modular exponentiation cost on attacker-supplied DH parameters is polynomial, not linear, and is not bounded by the theorem.",
    "technique": "Coq proof (compositional error-class analysis of the faithful pipeline model) + hostile-input correspondence",
}
ASSUMPTIONS = ["exception classes of the cryptography primitives (InvalidUnwrap/ValueError, InvalidTag/ValueError, ValueError)",
               "offline = the cache holds root keys; a miss is the library trying to contact a DC (NeedNetwork)"]
STEP_BASE, STEP_PER_OCTET = 20000, 40

PARTIAL = [
    "C05_bounded_kdf_partial: wanted C05_bounded_kdf = at most 2 + 63 + 3 KDF calls per unprotect_offline call as a theorem about a counter threaded through the whole pipeline. "
    "The Crypto record's KDFs are pure functions and the model has no call counter (Model files are not instrumented), so the theorem covers the only loops that call a KDF: the "
    "regenerated kernel k_compute_l2_key with ANY kdf instrumented by a counter makes <= 31 + 1 + 31 calls from an envelope at a position <= (31, 31), returns the key of the "
    "uninstrumented run and never exhausts a fuel >= 32. The constant number of calls of the straight-line code around it (compute_l1_key 2, get_kek / "
    "compute_kek_from_public_key / compute_kek <= 3) is now a theorem about the regenerated source syntax (C05_kdf_call_sites: call sites and loop-freeness of every function on the "
    "path); what is still missing is ONE theorem that threads a counter through the whole pipeline, and the cost of pow(b, e, m) on attacker-chosen DH parameters is not bounded; the harness "
    "enforces the KDF-call budget on the implementation (symbolic crypto budget).",
    "'parser steps proportional to input size' has no theorem of its own: C05_no_fuel_exhaustion / C05_l2_loops_within_fuel bound every LOOP of the model by the input length or by 32, "
    "which bounds the work of the model but is not stated as one linear bound; on the implementation the real-crypto oracle runs every hostile blob under an interpreter-step budget "
    "of 20000 + 40 per octet (a valid blob takes about 5000 steps whatever its size), a wall-clock limit and a memory limit",
    "'tries to contact a domain controller' is modelled as the outcome NeedNetwork at the cache miss; the harness replaces lookup_dc, so what dnspython / the socket layer raise while "
    "trying (including dns.name.EmptyLabel / LabelTooLong for a hostile domain name in the key identifier, raised before any packet is sent) counts as that outcome and is not examined",
]
RULE = ("per valid blob (4 hashes x positions, both layouts): all truncations, all single-bit flips (quick: every 5th), structure-aware DER mutations (zero-length / huge / "
        "indefinite / non-minimal lengths, wrong tags and classes, high tag numbers, INTEGER/OID content edits), key-identifier fields at {0,1,2,31,32,2^31-1,2^31,2^32-1}, "
        "byte insert/delete/substitute, random bytes; with the root key loaded and with an empty cache; non-trivial = distinct outcome (value / error class) on a distinct input")

# the model (like the code it mirrors) materialises `key_length` octets; once the decoder bounds the declared length by the
# input size, the huge declared lengths are part of the model-compared unit too
MODEL_BOUNDS_DECLARED_LENGTHS = True

# generous per-call budgets for blobs of a few hundred octets (a normal unprotect takes ~1 ms and no measurable memory)
WORK_SECONDS, WORK_MBYTES = 3.0, 256

DELIBERATE = {"ValueError", "NotImplementedError", "NotEnoughData", "InvalidTag", "InvalidUnwrap"}


def bucket(text: str) -> str:
    if text.startswith("e"):
        n = text[1:]
        if n in DELIBERATE:
            return "deliberate-error"
        if n == "NeedNetwork":
            return "needs-network"
        if n == "OutOfFuel":
            return "budget-exceeded"
        return "internal-error:" + n
    if text.startswith("b"):
        return text
    return "other:" + text[:40]


def pred(arg, out):
    if isinstance(out, Err):
        if out.name in DELIBERATE or out.name == "NeedNetwork":
            return None
        if out.name == "OutOfFuel":
            return "work is not bounded: KDF-call / time budget exceeded"
        return f"escaped with the internal error {out.name}"
    return None


def corpus(ctx: Ctx):
    roots = [e2e.root_spec(4)]
    blobs = []
    for hid, pos, trailing in ((4, (361, 17, 13), False), (2, (361, 31, 31), True), (1, (362, 0, 0), False), (3, (361, 5, 31), False)):
        blobs.append(([e2e.root_spec(hid)], hostile.valid_blob(hid=hid, pos=pos, trailing=trailing)))
    # blobs protected with the group PUBLIC key (DH small group, ECDH): unprotect takes the public-key branch of get_kek
    # (positions close to (31,31): short derivation chains keep the symbolic key terms - and the model's bignum arithmetic on them - small)
    for hid, pos, mode in ((4, (361, 31, 29), "DH"), (2, (361, 31, 31), "ECDH_P256"), (3, (361, 30, 31), "ECDH_P384")):
        blobs.append(hostile.valid_blob_pub(hid=hid, pos=pos, mode=mode))
    return blobs


def _pub_edits(blob):
    """key_info edits for the model-compared unit"""
    out = []
    for m in hostile.pubkey_field_edits(blob):
        big = False
        for magic in (b"DHPB", b"ECK1", b"ECK3", b"ECK5"):
            i = m.find(magic)
            if i >= 0 and int.from_bytes(m[i + 4 : i + 8], "little") >= (1 << 20):
                big = True
        if not big or MODEL_BOUNDS_DECLARED_LENGTHS:
            out.append(m)
    return out


def gen_cases(ctx: Ctx):
    cases = []
    seen = set()
    for n, (roots, blob) in enumerate(corpus(ctx)):
        step = 1 if ctx.thorough else (5 if n == 0 else 23)
        muts = list(hostile.mutations(blob, ctx.rng, ctx.thorough and n == 0, flips_step=step)) + list(hostile.keyid_field_edits(blob)) \
            + _pub_edits(blob)
        clm = list(hostile.consistent_length_mutations(blob))
        if n == 0:
            clm += list(hostile.protection_descriptor_edits(blob))
        if n in (0, 1, 4) or ctx.thorough:
            clm += list(hostile.structural_mutations(blob))
        if not ctx.thorough and n > 0:
            muts = muts[:: (4 if n < 4 else 12)] + _pub_edits(blob)
        muts += clm if (ctx.thorough or n in (0, 1, 4)) else clm[:: 5]
        for m in [blob] + muts:
            if m in seen:
                continue
            seen.add(m)
            cases.append([roots, m])
        for m in list(hostile.keyid_field_edits(blob))[:: 3]:
            cases.append([[], m])
    return cases


def units(ctx: Ctx, only=None):
    cases = [] if getattr(ctx, "replay_only", False) else gen_cases(ctx)
    return [Unit("hostile.blob", "e2e.unprotect", cases, e2e.impl_unprotect, prop_pred=pred, bucket=bucket)]


def oracles(ctx: Ctx):
    """The same stream against the REAL crypto (no model): only the property predicate."""
    from ..core import run_impl
    from ..rpc_util import run_budgeted
    from ..val import dec, enc

    n = 0
    corp = [([e2e.root_spec(4)], hostile.valid_blob(hid=4, symbolic=False)), hostile.valid_blob_pub(hid=4, mode="DH", symbolic=False),
            hostile.valid_blob_pub(hid=2, mode="ECDH_P256", symbolic=False)]
    for roots, blob in corp:
        ok = dec(run_impl(lambda a: e2e.impl_unprotect(a, symbolic=False), [roots, blob]))
        if ok != hostile.PLAIN:
            ctx.violation("no-failing-input-found", "oracle:hostile.real.corpus", {"why": f"corpus blob does not decrypt with the real crypto: {str(ok)[:60]}"})
            return
        import resource
        import time as _time

        for m in list(hostile.pubkey_field_edits(blob)) + list(hostile.keyid_field_edits(blob)) \
                + list(hostile.mutations(blob, ctx.rng, False, flips_step=(11 if not ctx.thorough else 1))):
            n += 1
            rss0, t0 = resource.getrusage(resource.RUSAGE_SELF).ru_maxrss, _time.time()
            # interpreter steps (line events) of the whole call: "parser steps proportional to input size" - a valid blob takes about
            # 5000 whatever its size (the content is never walked octet by octet), the budget is 20000 + 40 per octet
            budget = STEP_BASE + STEP_PER_OCTET * len(m)
            out = dec(run_impl(lambda a: run_budgeted(lambda: e2e.impl_unprotect(a, symbolic=False), budget), [roots, m]))
            dt, drss = _time.time() - t0, (resource.getrusage(resource.RUSAGE_SELF).ru_maxrss - rss0) // 1024
            why = pred([roots, m], out)
            if isinstance(out, Err) and out.name == "OutOfFuel":
                why = f"more than {budget} interpreter steps on a {len(m)}-octet blob (a valid blob of any size takes about 5000)"
            if not why and (dt > WORK_SECONDS or drss > WORK_MBYTES):
                why = (f"work is not proportional to the input: a {len(m)}-octet blob took {dt:.1f} s and {drss} MB of additional memory "
                       f"(limits for inputs of this size: {WORK_SECONDS} s, {WORK_MBYTES} MB)")
            if why:
                ctx.violation("failing-input", "oracle:hostile.real", {"unit": "hostile.real", "input": enc([roots, m]), "why": why},
                              key="hostile.real:" + why[:40])
                ctx.oracle_runs += n
                return
    ctx.oracle_runs += n


def _impl_real(a):
    return e2e.impl_unprotect(a, symbolic=False)


ORACLE_REPLAY = {"hostile.real": (_impl_real, pred)}


def search(ctx: Ctx):
    from ..core import run_impl
    from ..val import dec, enc

    tried = 0
    for c in gen_cases(ctx):
        tried += 1
        why = pred(c, dec(run_impl(e2e.impl_unprotect, c)))
        if why:
            return {"unit": "hostile.blob", "input": enc(c), "why": why, "tried": tried, "key": None}
    ctx.notes.append(f"search: {tried} hostile inputs end with a value, NeedNetwork or a deliberate error")
    return None
