"""Hostile-input generators shared by C04 / C05: valid blobs (per configuration and layout) and
structure-aware mutations of them."""
from __future__ import annotations

import os
import time
import typing as t
import uuid

from . import sym
from .impl_util import HASH_NAMES

B = 360000000000
EPOCH = 116444736000000000
RKID = uuid.UUID("d778c271-9025-9a82-f6dc-b8960b8ad8c5")
ROOT = bytes(range(64))
SID = "S-1-5-21-2185496602-3367037166-1388177638-1103"
PLAIN = b"hostile-corpus plaintext \x00\x01\x02"


def ns_of_pos(l0, l1, l2, off=777):
    return (((l0 * 1024 + l1 * 32 + l2) * B + off) - EPOCH) * 100


class Det:
    """deterministic os.urandom"""

    def __init__(self, seed=1):
        self.n = seed

    def __call__(self, k):
        self.n += 1
        return (self.n.to_bytes(4, "big") * (k // 4 + 1))[:k]


def fresh_cache(hid=4, with_root=True):
    import dpapi_ng
    from dpapi_ng._gkdi import KDFParameters

    c = dpapi_ng.KeyCache()
    if with_root:
        c.load_key(ROOT, RKID, kdf_parameters=KDFParameters(HASH_NAMES[hid]).pack())
    return c


def valid_blob(hid=4, pos=(361, 17, 13), data=PLAIN, trailing=False, symbolic=True, seed=1) -> bytes:
    """A blob produced by the library itself (offline, root key loaded, patched clock and RNG)."""
    import dpapi_ng
    from dpapi_ng._blob import DPAPINGBlob

    real_ns, real_ur = time.time_ns, os.urandom
    time.time_ns = lambda: ns_of_pos(*pos)
    os.urandom = Det(seed)
    try:
        if symbolic:
            with sym.patched():
                blob = dpapi_ng.ncrypt_protect_secret(data, SID, root_key_identifier=RKID, cache=fresh_cache(hid))
        else:
            blob = dpapi_ng.ncrypt_protect_secret(data, SID, root_key_identifier=RKID, cache=fresh_cache(hid))
    finally:
        time.time_ns, os.urandom = real_ns, real_ur
    if trailing:
        b = DPAPINGBlob.unpack(blob)
        blob = b.pack(blob_in_envelope=False)
    return blob


def valid_blob_pub(hid=4, pos=(361, 17, 13), mode="DH", data=PLAIN, symbolic=True, seed=5):
    """A blob protected by a caller who only received the group PUBLIC key (DH small group / ECDH); the matching root key
    spec (for the model and for KeyCache.load_key) is returned with it: unprotect derives the group private key offline."""
    from dpapi_ng._blob import ProtectionDescriptor

    from . import e2e

    from dpapi_ng._gkdi import FFCDHParameters

    salg = "DH" if mode == "DH" else mode
    # the root key is configured with the group the DC's envelope uses (since the repair of D16 the receiver refuses a key blob
    # whose parameters are not the root key's)
    spar = FFCDHParameters(key_length=e2e.SMALL_DH[0], field_order=e2e.SMALL_DH[1], generator=e2e.SMALL_DH[2]).pack() if mode == "DH" else None
    roots = [e2e.root_spec(hid, secret_alg=salg, secret_params=spar, priv=64)]
    plen = 8
    draws = [bytes((seed + i) % 256 for i in range(32)), bytes((seed * 3 + i) % 256 for i in range(12)), bytes((seed * 7 + i + 1) % 256 for i in range(plen))]
    cm = sym.patched() if symbolic else sym.kdf_budget(10 ** 6)
    with cm:
        sd = ProtectionDescriptor.parse(SID).get_target_sd()
        penv, _ = e2e.dc_envelopes(hid, sd, pos, mode)
    blob = e2e.protect_with_env(penv, draws if symbolic else None, data, SID, symbolic=symbolic)
    return roots, blob


def pubkey_field_edits(blob: bytes) -> t.Iterator[bytes]:
    """key_info of a public-key blob is an FFCDHKey ('DHPB' magic, key_length, p, g, y) or an ECDHKey ('ECK1/3' magic, length, x, y):
    set the length / the numbers to boundary values (consistent and inconsistent with the octets that follow)."""
    for magic in (b"DHPB", b"ECK1", b"ECK3", b"ECK5"):
        i = blob.find(magic)
        if i < 0:
            continue
        for v in (0, 1, 2, 5, 7, 8, 255, 256, 257, 2 ** 16, 2 ** 31 - 1, 2 ** 31, 2 ** 32 - 1):
            m = bytearray(blob)
            m[i + 4 : i + 8] = v.to_bytes(4, "little")
            yield bytes(m)
        klen = int.from_bytes(blob[i + 4 : i + 8], "little")
        if 0 < klen < 64:
            for field in range(3):
                off = i + 8 + field * klen
                for fill in (b"\x00", b"\xff", b"\x01"):
                    m = bytearray(blob)
                    m[off : off + klen] = fill * klen
                    yield bytes(m)
            # a shorter, self-consistent key (re-encoded with key_length - 1 .. 1)
            for nl in (klen - 1, 1):
                body = b"".join(blob[i + 8 + f * klen : i + 8 + f * klen + klen][-nl:] for f in range(3 if magic == b"DHPB" else 2))
                yield blob[: i + 4] + nl.to_bytes(4, "little") + body + blob[i + 8 + (3 if magic == b"DHPB" else 2) * klen :]
        for mg in (b"DHPM", b"XXXX", b"ECK1", b"DHPB"):
            if mg != magic:
                m = bytearray(blob)
                m[i : i + 4] = mg
                yield bytes(m)


def der_len(n: int) -> bytes:
    if n < 128:
        return bytes([n])
    b = n.to_bytes((n.bit_length() + 7) // 8, "big")
    return bytes([0x80 | len(b)]) + b


def find_tlvs(data: bytes, limit=400) -> t.List[t.Tuple[int, int, int]]:
    """(offset, header_len, content_len) of every TLV found by a tolerant recursive walk"""
    out = []

    def walk(lo, hi, depth):
        pos = lo
        while pos < hi and len(out) < limit:
            if pos + 2 > hi:
                return
            tag = data[pos]
            p = pos + 1
            if tag & 0x1F == 0x1F:
                while p < hi and data[p] & 0x80:
                    p += 1
                p += 1
            if p >= hi:
                return
            l0 = data[p]
            p += 1
            if l0 & 0x80:
                k = l0 & 0x7F
                if k == 0 or p + k > hi:
                    return
                n = int.from_bytes(data[p : p + k], "big")
                p += k
            else:
                n = l0
            if p + n > hi:
                return
            out.append((pos, p - pos, n))
            if tag & 0x20 and depth < 12:
                walk(p, p + n, depth + 1)
            elif tag == 0x04 and n > 2 and depth < 12 and data[p] in (0x30, 0x31):
                walk(p, p + n, depth + 1)
            pos = p + n

    walk(0, len(data), 0)
    return out


def mutations(blob: bytes, rng, thorough: bool, flips_step: int = 1) -> t.Iterator[bytes]:
    n = len(blob)
    # all truncations
    step = 1 if (thorough or n < 600) else 3
    for k in range(0, n, step):
        yield blob[:k]
    # single-bit flips
    k = 0
    for byte in range(n):
        for bit in range(8):
            k += 1
            if k % flips_step:
                continue
            m = bytearray(blob)
            m[byte] ^= 1 << bit
            yield bytes(m)
    # structure-aware DER mutations
    for (off, hl, cl) in find_tlvs(blob):
        tag = blob[off]
        # zero-length this element (keeping outer lengths inconsistent) and zero-length with outer fix is not attempted
        yield blob[:off] + bytes([tag, 0]) + blob[off + hl + cl :]
        yield blob[:off] + bytes([tag, 0]) + blob[off + hl :]
        # huge / indefinite / non-minimal lengths
        yield blob[:off + 1] + b"\x84\xff\xff\xff\xff" + blob[off + hl :]
        yield blob[:off + 1] + b"\x80" + blob[off + hl :]
        yield blob[:off + 1] + b"\x81" + bytes([cl % 256]) + blob[off + hl :]
        yield blob[:off + 1] + b"\x88" + (cl).to_bytes(8, "big") + blob[off + hl :]
        # wrong tags / classes / high tag numbers
        for nt in (0x02, 0x04, 0x05, 0x06, 0x0C, 0x30, 0x31, 0xA0, 0x80, 0x1F, 0xFF):
            if nt != tag:
                yield blob[:off] + bytes([nt]) + blob[off + 1 :]
        yield blob[:off] + bytes([tag | 0x1F, 0x85, 0x00]) + blob[off + 1 :]
        # INTEGER / OID content edits
        if tag in (0x02, 0x06) and cl > 0:
            yield blob[: off + hl] + b"\xff" * cl + blob[off + hl + cl :]
            yield blob[: off + hl] + b"\x80" + blob[off + hl + 1 : ]
            yield blob[: off + hl] + b"\x00" * cl + blob[off + hl + cl :]
    # random bytes / junk appended / inserted / deleted
    for _ in range(60 if not thorough else 600):
        i = rng.randrange(n)
        yield blob[:i] + bytes([rng.randrange(256)]) + blob[i:]
        yield blob[:i] + blob[i + 1 :]
        j = rng.randrange(n)
        m = bytearray(blob)
        m[i] = rng.randrange(256)
        m[j] = rng.randrange(256)
        yield bytes(m)
    for _ in range(40 if not thorough else 400):
        yield bytes(rng.randrange(256) for _ in range(rng.randrange(0, 80)))


def keyid_field_edits(blob: bytes) -> t.Iterator[bytes]:
    """The key identifier octet string carries version, magic, flags, L0, L1, L2, root key id, lengths: set them to boundary values."""
    magic = b"\x4b\x44\x53\x4b"
    i = blob.find(magic)
    if i < 4:
        return
    base = i - 4  # start of the 52-byte header
    fields = {"version": 0, "flags": 8, "l0": 12, "l1": 16, "l2": 20, "key_info_len": 40, "domain_len": 44, "forest_len": 48}
    vals = [0, 1, 2, 31, 32, 2 ** 31 - 1, 2 ** 31, 2 ** 32 - 1]
    for name, off in fields.items():
        for v in vals:
            m = bytearray(blob)
            m[base + off : base + off + 4] = v.to_bytes(4, "little")
            yield bytes(m)
    # L1/L2 pairs beyond what the root envelope covers
    for (a, b) in [(32, 0), (0, 32), (31, 32), (255, 255), (2 ** 31, 2 ** 31)]:
        m = bytearray(blob)
        m[base + 16 : base + 20] = a.to_bytes(4, "little")
        m[base + 20 : base + 24] = b.to_bytes(4, "little")
        yield bytes(m)
    m = bytearray(blob)
    m[i : i + 4] = b"XXXX"
    yield bytes(m)


def field_substitutions(blob: bytes, other: bytes) -> t.Iterator[bytes]:
    """Structure-aware tampering: decode the blob with the library's own decoder, replace ONE field group by a variant
    (prefix / suffix / empty / zeros / the corresponding field of another valid blob with a different plaintext) and
    re-encode it in both layouts, so that all enclosing lengths stay consistent."""
    import dataclasses

    from dpapi_ng._blob import DPAPINGBlob, SIDDescriptor

    b = DPAPINGBlob.unpack(blob)
    o = DPAPINGBlob.unpack(other)
    c, w = bytes(b.enc_content), bytes(b.enc_cek)
    variants = []
    for v in (c[:16], c[-16:], c[:-1], c[1:], c + b"\x00", b"\x00" * 16, b"\x00" * len(c), c[:17], c[:15], bytes(o.enc_content)):
        variants.append({"enc_content": v})
    for v in (w[:-1], w[1:], w + b"\x00", b"\x00" * len(w), w[:24], bytes(o.enc_cek)):
        variants.append({"enc_cek": v})
    par = bytes(b.enc_content_parameters or b"")
    if par:
        for i in (4, len(par) // 2, len(par) - 1):
            m = bytearray(par)
            m[i] ^= 1
            variants.append({"enc_content_parameters": bytes(m)})
        variants.append({"enc_content_parameters": bytes(o.enc_content_parameters)})
    variants.append({"enc_cek_parameters": b"\x05\x00"})
    k = b.key_identifier
    for ch in ({"l0": k.l0 + 1}, {"l1": (k.l1 + 1) % 32}, {"l2": (k.l2 + 1) % 32}, {"l2": (k.l2 - 1) % 32}, {"flags": k.flags ^ 1},
               {"key_info": bytes(k.key_info)[:-1] + bytes([bytes(k.key_info)[-1] ^ 1]) if k.key_info else b"\x01"},
               {"key_info": bytes(o.key_identifier.key_info)}, {"version": k.version + 1}, {"flags": k.flags ^ 4},
               {"domain_name": k.domain_name + "x"}, {"forest_name": ""}):
        variants.append({"key_identifier": dataclasses.replace(k, **ch)})
    variants.append({"protection_descriptor": SIDDescriptor("S-1-5-18")})
    # two-field splices from the other blob (never all of them)
    variants.append({"enc_content": bytes(o.enc_content), "enc_content_parameters": bytes(o.enc_content_parameters)})
    variants.append({"enc_cek": bytes(o.enc_cek), "key_identifier": o.key_identifier})
    for v in variants:
        try:
            nb = dataclasses.replace(b, **v)
            yield nb.pack()
            yield nb.pack(blob_in_envelope=False)
        except Exception:  # noqa: BLE001 - a variant the encoder refuses is simply not a test input
            continue
    # trailing layout: every truncation of the trailing ciphertext (the envelope stays intact)
    t = b.pack(blob_in_envelope=False)
    head = len(t) - len(c)
    for n in range(0, len(c)):
        yield t[: head + n]


def tlv_tree(data: bytes, limit=400):
    """[(offset, header_len, content_len, parent_index)] by a tolerant recursive walk (OCTET STRINGs that look like DER are entered too)"""
    out = []

    def walk(lo, hi, depth, parent):
        pos = lo
        while pos < hi and len(out) < limit:
            if pos + 2 > hi:
                return
            tag = data[pos]
            p = pos + 1
            if tag & 0x1F == 0x1F:
                while p < hi and data[p] & 0x80:
                    p += 1
                p += 1
            if p >= hi:
                return
            l0 = data[p]
            p += 1
            if l0 & 0x80:
                k = l0 & 0x7F
                if k == 0 or p + k > hi:
                    return
                n = int.from_bytes(data[p : p + k], "big")
                p += k
            else:
                n = l0
            if p + n > hi:
                return
            me = len(out)
            out.append((pos, p - pos, n, parent))
            if tag & 0x20 and depth < 12:
                walk(p, p + n, depth + 1, me)
            elif tag == 0x04 and n > 2 and depth < 12 and data[p] in (0x30, 0x31):
                walk(p, p + n, depth + 1, me)
            pos = p + n

    walk(0, len(data), 0, -1)
    return out


def replace_content(data: bytes, tree, idx: int, new_content: bytes) -> bytes:
    """Replace the content of TLV `idx` and re-encode the lengths of the TLV and of all its ancestors (minimal DER lengths)."""
    off, hl, cl, parent = tree[idx]
    # identifier octets = header minus length octets
    p = off + 1
    if data[off] & 0x1F == 0x1F:
        while data[p] & 0x80:
            p += 1
        p += 1
    ident = data[off:p]
    piece = ident + der_len(len(new_content)) + new_content
    out = data[:off] + piece + data[off + hl + cl :]
    delta = len(piece) - (hl + cl)
    # fix the ancestors, innermost first; offsets of ancestors are unaffected by changes inside them
    cur = parent
    while cur >= 0:
        aoff, ahl, acl, aparent = tree[cur]
        q = aoff + 1
        if out[aoff] & 0x1F == 0x1F:
            while out[q] & 0x80:
                q += 1
            q += 1
        aident = out[aoff:q]
        new_len = acl + delta
        newhdr = aident + der_len(new_len)
        out = out[:aoff] + newhdr + out[aoff + ahl :]
        delta += len(newhdr) - ahl
        cur = aparent
    return out


def consistent_length_mutations(blob: bytes, max_each=70) -> t.Iterator[bytes]:
    """For every primitive element: its content cut to every length (small elements) or to a spread of lengths, grown by
    one octet, emptied - with the lengths of the element and of all enclosing elements re-encoded consistently."""
    tree = tlv_tree(blob)
    has_child = {t[3] for t in tree}
    for idx, (off, hl, cl, parent) in enumerate(tree):
        if idx in has_child:
            continue
        content = blob[off + hl : off + hl + cl]
        lens = set(range(0, min(cl, max_each)))
        lens.update({cl - 1, cl - 2, cl // 2})
        for n in sorted(x for x in lens if 0 <= x < cl):
            yield replace_content(blob, tree, idx, content[:n])
        yield replace_content(blob, tree, idx, content + b"\x00")
        if cl:
            yield replace_content(blob, tree, idx, content[1:])


def param_byte_sweep(blob: bytes, both_layouts=False) -> t.Iterator[bytes]:
    """every octet of the content-encryption parameters (SEQUENCE { nonce, ICV length }) set to every other value, re-encoded consistently"""
    import dataclasses

    from dpapi_ng._blob import DPAPINGBlob

    b = DPAPINGBlob.unpack(blob)
    par = bytes(b.enc_content_parameters or b"")
    for i in range(len(par)):
        for v in range(256):
            if v == par[i]:
                continue
            m = bytearray(par)
            m[i] = v
            try:
                nb = dataclasses.replace(b, enc_content_parameters=bytes(m))
                yield nb.pack()
                if both_layouts:
                    yield nb.pack(blob_in_envelope=False)
            except Exception:  # noqa: BLE001
                continue


def valid_blob_with_cek(hid=4, pos=(361, 17, 13), data=PLAIN, seed=1):
    """valid_blob(symbolic=False) plus the content-encryption key and nonce the library drew for it (observed at the
    module attribute _client.cek_generate; (blob, None, None) when the library no longer draws them there)."""
    import dpapi_ng._client as C

    seen = []
    real = C.cek_generate

    def spy(*a, **kw):
        r = real(*a, **kw)
        seen.append(r)
        return r

    C.cek_generate = spy
    try:
        blob = valid_blob(hid=hid, pos=pos, data=data, symbolic=False, seed=seed)
    finally:
        C.cek_generate = real
    if len(seen) == 1 and isinstance(seen[0], tuple) and len(seen[0]) == 2:
        return blob, bytes(seen[0][0]), bytes(seen[0][1])
    return blob, None, None


def key_aware_forgeries(blob: bytes, cek: bytes, iv: bytes, forged: bytes) -> t.Iterator[t.Tuple[str, bytes]]:
    """Multi-site alterations only someone holding the CEK (or 2^(8t) attempts) can make: another plaintext encrypted under
    the same CEK and nonce, the GCM tag cut to t octets, and the ICV length in the parameters set to t (or left at 16, or
    omitted). A conforming reader verifies a full 16-octet tag whatever the parameters say, so every one of them must fail."""
    import dataclasses

    from cryptography.hazmat.primitives.ciphers.aead import AESGCM

    from dpapi_ng._asn1 import ASN1Writer
    from dpapi_ng._blob import DPAPINGBlob

    b = DPAPINGBlob.unpack(blob)
    full = AESGCM(cek).encrypt(iv, forged, None)
    ct, tag = full[:-16], full[-16:]

    def params(icv):
        w = ASN1Writer()
        with w.push_sequence() as s:
            s.write_octet_string(iv)
            if icv is not None:
                s.write_integer(icv)
        return w.get_data()

    for t_len in (0, 1, 4, 8, 12, 13, 14, 15):
        for icv in (t_len, 16, None):
            for trailing in (False, True):
                try:
                    nb = dataclasses.replace(b, enc_content=ct + tag[:t_len], enc_content_parameters=params(icv))
                    yield f"tag cut to {t_len}, ICVlen {icv}, {'trailing' if trailing else 'in-envelope'}", nb.pack(blob_in_envelope=not trailing)
                except Exception:  # noqa: BLE001
                    continue


def library_registry_words() -> t.Tuple[t.List[str], t.List[str]]:
    """(dotted OIDs, identifier-like names) the library itself knows: the values and member names of every Enum and every
    module-level *_OID string constant under dpapi_ng. Crossing them reaches the branches a parser takes for each
    registered-but-unusual value."""
    import enum
    import importlib
    import pkgutil
    import re

    import dpapi_ng

    oids, names = set(), set()
    for mi in pkgutil.walk_packages(dpapi_ng.__path__, "dpapi_ng."):
        try:
            mod = importlib.import_module(mi.name)
        except Exception:  # noqa: BLE001
            continue
        for obj in list(vars(mod).values()):
            members = []
            if isinstance(obj, type) and issubclass(obj, enum.Enum):
                members = [(m.name, m.value) for m in obj]
            elif isinstance(obj, type):
                members = [(k, v) for k, v in vars(obj).items() if isinstance(v, str)]
            for k, v in members:
                if isinstance(v, str) and re.fullmatch(r"[0-2](\.\d+)+", v):
                    oids.add(v)
                    names.add(k)
    return sorted(oids), sorted(names)


class _RawDescriptor:
    def __init__(self, raw: bytes):
        self.raw = raw

    def pack(self) -> bytes:
        return self.raw


def protection_descriptor_edits(blob: bytes) -> t.Iterator[bytes]:
    """the protection descriptor rebuilt (well-formed DER, consistent lengths) with every (OID, type name) pair over the OIDs
    and names the library knows plus near misses, and with the value / nesting varied"""
    import dataclasses

    from dpapi_ng._asn1 import ASN1Writer
    from dpapi_ng._blob import DPAPINGBlob

    b = DPAPINGBlob.unpack(blob)
    oids, names = library_registry_words()
    oids = oids + ["1.3.6.1.4.1.311.74.1.0", "1.3.6.1.4.1.311.74.1.3", "1.3.6.1.4.1.311.74.1.1.1", "1.3.6.1.4.1.311.74.2.1", "0.0", "2.999.1"]
    names = names + [n.lower() for n in names[:6]] + ["", "SID ", "SIDS", "﻿SID", "sid", "Sid"]
    value = getattr(b.protection_descriptor, "value", "S-1-5-18")

    def build(oid, name, val, extra_pair=False, empty=False):
        w = ASN1Writer()
        with w.push_sequence() as s0:
            s0.write_object_identifier(oid)
            with s0.push_sequence() as s1:
                with s1.push_sequence() as s2:
                    if not empty:
                        with s2.push_sequence() as s3:
                            s3.write_utf8_string(name)
                            s3.write_utf8_string(val)
                    if extra_pair:
                        with s2.push_sequence() as s3:
                            s3.write_utf8_string("SID")
                            s3.write_utf8_string("S-1-1-0")
        return w.get_data()

    def tryb(*a, **kw):
        try:
            return [build(*a, **kw)]
        except Exception:  # noqa: BLE001  (the library's own writer refuses this OID / string)
            return []

    raws = [r for o in oids for n in names for r in tryb(o, n, value)]
    sid_oid = "1.3.6.1.4.1.311.74.1.1"
    raws += [r for v in ("", "S-1-5", "S-1-5-", "s-1-5-18", "S-1-5-18-", "S-1-5-18\x00", "S-1-" + "9" * 40 + "-1", "S-1-5" + "-1" * 300, "O:SYG:SY",
                        # range boundaries of the SID parts (the descriptor's SID reaches sid_to_bytes through get_target_sd)
                        "S-1-5-4294967295", "S-1-5-4294967296", "S-1-5-4294967297", "S-1-5-21-4294967296-1", "S-1-5-18446744073709551616",
                        "S-1-281474976710655-1", "S-1-281474976710656-1", "S-1-18446744073709551615-1", "S-1-18446744073709551616-18",
                        "S-1-4294967296-7", "S-2-5-18", "S-1-5" + "-7" * 15, "S-1-5" + "-7" * 16, "S-1-5-" + "0" * 4301 + "18")
             for r in tryb(sid_oid, "SID", v)]
    raws += tryb(sid_oid, "SID", value, extra_pair=True) + tryb(sid_oid, "SID", value, empty=True)
    for raw in raws:
        try:
            yield dataclasses.replace(b, protection_descriptor=_RawDescriptor(raw)).pack()
        except Exception:  # noqa: BLE001
            continue


def structural_mutations(blob: bytes) -> t.Iterator[bytes]:
    """For EVERY element (primitive or constructed): the element removed, duplicated, swapped with its next sibling, emptied,
    replaced by NULL, its tag's constructed bit / class toggled - all with the lengths of every enclosing element re-encoded
    consistently. Reaches the states 'optional field absent', 'field twice', 'fields out of order', 'wrong type' that no
    octet-level change of a valid blob produces."""
    tree = tlv_tree(blob)
    for idx, (off, hl, cl, parent) in enumerate(tree):
        whole = blob[off : off + hl + cl]
        sibs = [j for j, t_ in enumerate(tree) if t_[3] == parent and j > idx]
        nxt = None
        if sibs:
            noff, nhl, ncl, _ = tree[sibs[0]]
            nxt = blob[noff : noff + nhl + ncl]
        variants = [b"", whole + whole, b"\x05\x00", bytes([whole[0] ^ 0x20]) + whole[1:], bytes([whole[0] ^ 0x80]) + whole[1:],
                    whole[:1] + b"\x00"]
        if nxt is not None:
            variants.append(None)  # swap marker
        for v in variants:
            if parent < 0:
                if v is None:
                    yield blob[:off] + nxt + whole + blob[off + hl + cl + len(nxt) :]
                else:
                    yield blob[:off] + v + blob[off + hl + cl :]
                continue
            poff, phl, pcl, _ = tree[parent]
            pcontent = blob[poff + phl : poff + phl + pcl]
            rel = off - (poff + phl)
            if v is None:
                newc = pcontent[:rel] + nxt + whole + pcontent[rel + len(whole) + len(nxt) :]
            else:
                newc = pcontent[:rel] + v + pcontent[rel + len(whole) :]
            try:
                yield replace_content(blob, tree, parent, newc)
            except Exception:  # noqa: BLE001
                continue


def _sp800_108_ctr_hmac(hash_name: str, key: bytes, label: bytes, context: bytes, length: int) -> bytes:
    """SP800-108 counter mode, HMAC, 32-bit counter before the fixed data, 32-bit length in bits (what _crypto.kdf configures)"""
    import hashlib
    import hmac

    fixed = label + b"\x00" + context + (length * 8).to_bytes(4, "big")
    out = b""
    i = 1
    while len(out) < length:
        out += hmac.new(key, i.to_bytes(4, "big") + fixed, getattr(hashlib, hash_name)).digest()
        i += 1
    return out[:length]


def _sp800_56a_concat(hash_name: str, z: bytes, otherinfo: bytes, length: int) -> bytes:
    import hashlib

    out = b""
    i = 1
    while len(out) < length:
        out += getattr(hashlib, hash_name)(i.to_bytes(4, "big") + z + otherinfo).digest()
        i += 1
    return out[:length]


def kek_from_dh_secret(hash_name: str, shared_secret: bytes) -> bytes:
    """the KEK MS-GKDI derives from a DH shared secret (independent of the library: hashlib / hmac only)"""
    label = "KDS service\0".encode("utf-16-le")
    ctx = "KDS public key\0".encode("utf-16-le")
    secret = _sp800_56a_concat("sha256", shared_secret, "SHA512\0".encode("utf-16-le") + ctx + label, 32)
    return _sp800_108_ctr_hmac(hash_name, secret, label, ctx, 32)


def retarget_to_public_key_mode(blob: bytes, hash_name: str, p: int, g: int, pub: int, key_length: int, shared_secret_int: int,
                                forged: bytes) -> bytes:
    """A multi-site alteration of a valid blob by someone who holds NO secret of the group: the key identifier is switched to
    public-key mode (flag bit 0) with a DH key blob (key_length, p, g, pub) of the modifier's choosing, the CEK is the modifier's
    own, wrapped under the KEK that follows from the shared secret the modifier predicts, and the content is the modifier's."""
    import dataclasses

    from cryptography.hazmat.primitives import keywrap
    from cryptography.hazmat.primitives.ciphers.aead import AESGCM

    from dpapi_ng._asn1 import ASN1Writer
    from dpapi_ng._blob import DPAPINGBlob
    from dpapi_ng._gkdi import FFCDHKey

    b = DPAPINGBlob.unpack(blob)
    ffk = FFCDHKey(key_length=key_length, field_order=p, generator=g, public_key=pub).pack()
    kek = kek_from_dh_secret(hash_name, shared_secret_int.to_bytes(key_length, "big"))
    cek, iv = b"C" * 32, b"N" * 12
    w = ASN1Writer()
    with w.push_sequence() as s:
        s.write_octet_string(iv)
        s.write_integer(16)
    kid = dataclasses.replace(b.key_identifier, flags=b.key_identifier.flags | 1, key_info=ffk)
    nb = dataclasses.replace(b, key_identifier=kid, enc_cek=keywrap.aes_key_wrap(kek, cek),
                             enc_content=AESGCM(cek).encrypt(iv, forged, None), enc_content_parameters=w.get_data())
    return nb.pack()


def keyless_public_key_forgeries(blob: bytes, hash_name: str, group_p: int, group_g: int, group_kl: int) -> t.Iterator[t.Tuple[str, bytes]]:
    """degenerate public values and modifier-chosen groups: the shared secret pub^y mod p is known whatever the group's private key y is"""
    forged = b"FORGED without any key material"
    fam = [
        ("own group p=23, public key 1", 23, 5, 1, 1, 1),
        ("own group p=23, public key 0", 23, 5, 0, 1, 0),
        ("own modulus 1", 1, 1, 0, 1, 0),
        ("own group p=2^127-1, public key 1", 2 ** 127 - 1, 3, 1, 16, 1),
        ("the group's own parameters, public key 1", group_p, group_g, 1, group_kl, 1),
        ("the group's own parameters, public key 0", group_p, group_g, 0, group_kl, 0),
        # p - 1 has order 2: the secret is 1 or p - 1, both are tried
        ("the group's own parameters, public key p-1 (secret 1)", group_p, group_g, group_p - 1, group_kl, 1),
        ("the group's own parameters, public key p-1 (secret p-1)", group_p, group_g, group_p - 1, group_kl, group_p - 1),
    ]
    # cross-parameter family (added after the seeded change C04-dh-exchange-in-group-field-claimed-modulus-r8): the key blob keeps the
    # group's key length but CLAIMS another modulus, and its public value is degenerate modulo the group's real modulus (or modulo the
    # claimed one). A receiver that range-checks against one modulus and exponentiates in the other computes a secret anyone knows.
    top = 256 ** group_kl
    for claimed in (top - 1, group_p + 2, 2 * group_p + 1, group_p - 2):
        if not 3 < claimed < top:
            continue
        for pub in (group_p, group_p + 1, group_p - 1, 2 * group_p - 1, 2 * group_p, 2 * group_p + 1, claimed - 1, claimed, claimed + 1, 0, 1):
            if not 0 <= pub < top:
                continue
            for secret in sorted({0, 1, group_p - 1, claimed - 1}):
                fam.append((f"group key length, claimed modulus {'2^n-1' if claimed == top - 1 else 'p%+d' % (claimed - group_p) if abs(claimed - group_p) < 9 else '2p+1'}, "
                            f"public value {pub - group_p:+d} from the group modulus, candidate secret {secret if secret < 2 else 'modulus-1'}",
                            claimed, group_g, pub, group_kl, secret))
    for what, p, g, pub, kl, secret in fam:
        try:
            yield what, retarget_to_public_key_mode(blob, hash_name, p, g, pub, kl, secret, forged)
        except Exception:  # noqa: BLE001
            continue


def small_subgroup_forgeries(blob: bytes, hash_name: str, p: int, g: int, kl: int, r: int) -> t.Iterator[t.Tuple[str, bytes]]:
    """The group's own parameters and a public value of small order r (r divides p - 1): pub^y mod p is one of only r values whatever the
    private key y is, so one of the r candidate blobs carries the right KEK. Needs no key material; a range check cannot refuse it
    (the test pub^q = 1 needs the subgroup order q, which the MS-GKDI parameter blob does not carry)."""
    if (p - 1) % r:
        return
    h = 2
    pub = pow(h, (p - 1) // r, p)
    while pub in (0, 1, p - 1):
        h += 1
        pub = pow(h, (p - 1) // r, p)
    for k in range(r):
        try:
            yield (f"group parameters, public value of order {r}, candidate secret pub^{k}",
                   retarget_to_public_key_mode(blob, hash_name, p, g, pub, kl, pow(pub, k, p), b"FORGED with a small-subgroup public value"))
        except Exception:  # noqa: BLE001
            continue
