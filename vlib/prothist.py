"""Histories of protect calls on ONE shared KeyCache (root key loaded) at scripted clock values, then unprotect of EVERY blob of the
history with that same cache and with a fresh one. Used as an oracle by C01 (every blob comes back as its plaintext, whatever was
protected before or after it with the same cache) and C09 (every blob names the interval of the instant it was protected at, whatever
the cache served before). Real crypto, public API only. Added after two seeded changes that need a second protect call to manifest
(a memo of the protection envelope keyed without L1; a cache that lets the L2-only envelope of a later protect evict the seed key)."""
from __future__ import annotations

import random
import typing as t

from . import e2e
from .val import Err

B = 360000000000
EPOCH = 116444736000000000
D0, D1, D2 = 1024 * B, 32 * B, B


def ns_of(l0: int, l1: int, l2: int, off: int = 12345) -> int:
    """a clock value (ns since 1970) inside the interval (l0, l1, l2)"""
    ft = l0 * D0 + l1 * D1 + l2 * D2 + off
    return (ft - EPOCH) * 100


def spec(ns: int) -> t.List[int]:
    ft = ns // 100 + EPOCH
    return [ft // D0, (ft // D1) % 32, (ft // D2) % 32]


def histories(n_random: int, seed: int) -> t.List[list]:
    """[[positions...], flavour]: fixed shapes (same L2 slot in the next / previous L1, same (L1, L2) in another L0, L2 = 31, L1 = 31,
    backwards steps, revisits) plus seeded random walks"""
    L0 = 361
    fixed = [
        [(L0, 7, 12), (L0, 8, 12)], [(L0, 8, 12), (L0, 7, 12)], [(L0, 7, 12), (L0, 8, 12), (L0, 7, 12)],
        [(L0, 4, 7), (L0, 5, 3)], [(L0, 5, 3), (L0, 4, 7)], [(L0, 4, 7), (L0, 4, 9), (L0, 4, 7)],
        [(L0, 4, 31), (L0, 5, 0)], [(L0, 4, 31), (L0, 4, 31), (L0, 3, 31)], [(L0, 31, 31), (L0 + 1, 0, 0)],
        [(L0, 0, 0), (L0, 31, 31), (L0, 0, 0)], [(L0, 7, 12), (L0 + 1, 7, 12), (L0, 7, 12)], [(L0 + 1, 7, 12), (L0, 8, 12)],
        [(L0, 3, 3), (L0, 3, 3), (L0, 9, 3), (L0, 3, 3)], [(L0, 30, 31), (L0, 31, 31), (L0, 31, 30)],
        [(L0, 10, 1), (L0, 11, 1), (L0, 12, 1), (L0, 10, 1)], [(L0, 2, 5), (L0, 2, 6), (L0, 3, 5), (L0, 1, 5)],
    ]
    out = [[[list(p) for p in h], k % 2] for k, h in enumerate(fixed)]
    rnd = random.Random(seed * 7919 + 17)
    for k in range(n_random):
        n = rnd.choice((2, 3, 3, 4, 5))
        base = (L0 + rnd.choice((0, 0, 0, 1)), rnd.randrange(32), rnd.randrange(32))
        h = [list(base)]
        for _ in range(n - 1):
            mv = rnd.randrange(6)
            l0, l1, l2 = h[rnd.randrange(len(h))]
            if mv == 0:
                l1 = rnd.randrange(32)                       # same L2 slot, another L1
            elif mv == 1:
                l2 = rnd.randrange(32)                       # same L1, another L2
            elif mv == 2:
                l0 = l0 + rnd.choice((-1, 1))                # same (L1, L2) in a neighbouring L0
            elif mv == 3:
                l1, l2 = rnd.randrange(32), rnd.choice((0, 31, l2))
            elif mv == 4:
                l1, l2 = rnd.choice((0, 31, l1)), rnd.randrange(32)
            h.append([l0, l1, l2])
        out.append([h, k % 2])
    return out


def impl_history(arg):
    """-> one row per protect call: [l0, l1, l2 named by the blob, unprotect with the shared cache, unprotect with a fresh cache]
    (unprotect results: 1 = the plaintext, otherwise the exception class or 0 for other bytes)"""
    import asyncio
    import time

    import dpapi_ng
    from dpapi_ng._blob import DPAPINGBlob

    hist, flavour = arg
    cache = e2e.mk_cache([e2e.root_spec(4)])
    blobs = []
    real = time.time_ns
    try:
        for i, pos in enumerate(hist):
            now = ns_of(*pos)
            time.time_ns = lambda now=now: now
            data = b"history secret %d" % i
            if flavour:
                blob = asyncio.run(dpapi_ng.async_ncrypt_protect_secret(data, "S-1-5-21-1-2-3-512", root_key_identifier=e2e.RKID, cache=cache))
            else:
                blob = dpapi_ng.ncrypt_protect_secret(data, "S-1-5-21-1-2-3-512", root_key_identifier=e2e.RKID, cache=cache)
            blobs.append((data, blob))
    finally:
        time.time_ns = real

    def back(blob, data, c):
        try:
            if flavour:
                r = asyncio.run(dpapi_ng.async_ncrypt_unprotect_secret(blob, cache=c))
            else:
                r = dpapi_ng.ncrypt_unprotect_secret(blob, cache=c)
        except Exception as exc:  # noqa: BLE001
            return type(exc).__name__
        return 1 if r == data else 0

    rows = []
    for data, blob in blobs:
        kid = DPAPINGBlob.unpack(blob).key_identifier
        rows.append([kid.l0, kid.l1, kid.l2, back(blob, data, cache), back(blob, data, e2e.mk_cache([e2e.root_spec(4)]))])
    return rows


def pred_roundtrip(arg, out) -> t.Optional[str]:
    hist, flavour = arg
    if isinstance(out, Err) or out is None or len(out) != len(hist):
        return f"the history of protect calls at {hist} ({'async' if flavour else 'sync'}) fails: {out}"
    for i, (pos, row) in enumerate(zip(hist, out)):
        for which, r in (("the same cache", row[3]), ("a fresh cache holding the same root key", row[4])):
            if r != 1:
                return (f"protect calls at {hist} on one cache ({'async' if flavour else 'sync'}): blob {i} (protected at {pos}) is not "
                        f"unprotected to its plaintext with {which}: {r if r else 'other bytes'}")
    return None


def pred_interval(arg, out) -> t.Optional[str]:
    hist, flavour = arg
    if isinstance(out, Err) or out is None or len(out) != len(hist):
        return f"the history of protect calls at {hist} ({'async' if flavour else 'sync'}) fails: {out}"
    for i, (pos, row) in enumerate(zip(hist, out)):
        want = spec(ns_of(*pos))
        if [int(x) for x in row[:3]] != want:
            return (f"protect calls at {hist} on one cache ({'async' if flavour else 'sync'}): blob {i}, protected at an instant of interval "
                    f"{want}, names {list(row[:3])}")
    return None


def run_oracle(ctx, prop_pred, unit: str) -> int:
    from .core import run_impl
    from .val import dec, enc

    n = 0
    for arg in histories(ctx.n(40, 600), ctx.seed):
        n += 1
        out = dec(run_impl(impl_history, arg))
        why = prop_pred(arg, out)
        if why:
            ctx.violation("failing-input", "oracle:" + unit, {"unit": unit, "input": enc(arg), "why": why}, key=unit)
            break
    ctx.oracle_runs += n
    ctx.extra["protect_histories"] = n
    return n
