"""Shared machinery of the checks: build, proof-obligation accounting, model runner, evidence."""
from __future__ import annotations

import contextlib
import fcntl
import glob
import json
import os
import re
import shutil
import subprocess
import sys
import time
import typing as t

from . import kernel_table, kernels
from .val import Err, dec, enc

VERIF = os.path.dirname(os.path.dirname(os.path.abspath(__file__)))
COQ = os.path.join(VERIF, "coq")
BUILD = os.path.join(VERIF, "build")
REPO = os.environ.get("VERIF_REPO", "/repo")  # the tree under test (a scratch worktree when a seeded change is tried out)
NPROC = str(min(16, os.cpu_count() or 4))

ALLOWED_AXIOMS: t.Set[str] = set()  # every property theorem is expected to be closed

FORBIDDEN = re.compile(
    r"\b(Admitted|admit|Axiom|Axioms|Parameter|Parameters|Conjecture|Conjectures|bypass_check|Admit\s+Obligations)\b"
    r"|Unset\s+Guard|Unset\s+Positivity|Unset\s+Universe\s+Checking|type-in-type|impredicative-set"
)
SECTION_ONLY = re.compile(r"^\s*(Variable|Variables|Hypothesis|Hypotheses|Context)\b")


def sh(cmd: t.Sequence[str], timeout: int, cwd: t.Optional[str] = None, inp: t.Optional[bytes] = None,
       env: t.Optional[dict] = None) -> t.Tuple[int, str]:
    try:
        p = subprocess.run(list(cmd), cwd=cwd, input=inp, stdout=subprocess.PIPE, stderr=subprocess.STDOUT,
                           timeout=timeout, env=env)
        return p.returncode, p.stdout.decode("utf-8", "replace")
    except subprocess.TimeoutExpired as exc:
        out = exc.stdout.decode("utf-8", "replace") if exc.stdout else ""
        return 124, out + f"\n[timeout after {timeout}s]"


@contextlib.contextmanager
def build_lock():
    os.makedirs(BUILD, exist_ok=True)
    with open(os.path.join(BUILD, ".lock"), "w") as fh:
        fcntl.flock(fh, fcntl.LOCK_EX)
        try:
            yield
        finally:
            fcntl.flock(fh, fcntl.LOCK_UN)


# ---------------------------------------------------------------------------------------------
# Coq project
# ---------------------------------------------------------------------------------------------
def coq_files() -> t.List[str]:
    out = []
    for sub in ("Prelude", "gen", "Spec", "Model", "Flow", "Proofs", "Properties", "Refuted"):
        out += sorted(glob.glob(os.path.join(COQ, sub, "*.v")))
    # files whose name starts with '_' or '.' are scratch files of whoever is working there
    return [os.path.relpath(p, COQ) for p in out if not os.path.basename(p).startswith(("_", "."))]


def ensure_makefile() -> None:
    files = coq_files()
    text = "-Q . V\n-arg -w -arg -notation-overridden,-deprecated-hint-without-locality,-deprecated\n" + "\n".join(files) + "\n"
    path = os.path.join(COQ, "_CoqProject")
    old = open(path).read() if os.path.exists(path) else None
    if old != text or not os.path.exists(os.path.join(COQ, "Makefile")):
        with open(path, "w") as fh:
            fh.write(text)
        try:
            os.remove(os.path.join(COQ, ".Makefile.d"))  # stale dependencies of files that no longer exist
        except OSError:
            pass
        rc, out = sh(["coq_makefile", "-f", "_CoqProject", "-o", "Makefile"], 120, cwd=COQ)
        if rc != 0:
            raise RuntimeError("coq_makefile failed: " + out)


def regen() -> t.Dict[str, dict]:
    """Regenerate coq/gen/*.v from /repo's current source."""
    from . import consts

    st = kernels.generate()
    st.update(consts.generate())
    return st


ERR_RE = re.compile(r'File "\./([^"]+)", line (\d+), characters (\d+)-(\d+):\s*\n(Error:.*?)(?=\n(?:make|File|\S+ \(real)|\Z)', re.S)


def enclosing_statement(relpath: str, line: int) -> str:
    try:
        lines = open(os.path.join(COQ, relpath)).read().split("\n")
    except OSError:
        return "?"
    for i in range(min(line, len(lines)) - 1, -1, -1):
        m = re.match(r"\s*(?:Local\s+|Global\s+)?(Theorem|Lemma|Corollary|Example|Definition|Fixpoint|Fact|Remark|Proposition)\s+([A-Za-z0-9_']+)", lines[i])
        if m:
            return m.group(2)
    return "?"


def make(targets: t.Sequence[str], timeout: int = 600) -> dict:
    """make the given .vo targets. Returns {ok, log, errors:[{file,line,stmt,msg}]}"""
    ensure_makefile()
    rc, out = sh(["make", "-j" + NPROC, "-k"] + list(targets), timeout, cwd=COQ)
    errors = []
    for m in ERR_RE.finditer(out):
        errors.append({"file": m.group(1), "line": int(m.group(2)),
                       "stmt": enclosing_statement(m.group(1), int(m.group(2))),
                       "msg": " ".join(m.group(5).split())[:400]})
    if rc != 0 and not errors:
        errors.append({"file": "?", "line": 0, "stmt": "?", "msg": out[-600:]})
    return {"ok": rc == 0, "log": out, "errors": errors}


THM_RE = re.compile(r"^\s*(Theorem|Example)\s+([A-Za-z0-9_']+)", re.M)


def compile_properties(prop: str, timeout: int = 300) -> dict:
    """Force-compile coq/Properties/<prop>.v and account for every Theorem in it:
    each must be followed by a Print Assumptions whose output is admissible."""
    rel = f"Properties/{prop}.v"
    src = open(os.path.join(COQ, rel)).read()
    theorems = [m.group(2) for m in THM_RE.finditer(src) if m.group(1) == "Theorem"]
    printed = re.findall(r"Print\s+Assumptions\s+([A-Za-z0-9_']+)\s*\.", src)
    # compiled into a private directory: the shared tree is only read, so this can run outside the build lock
    outdir = os.path.join(BUILD, "pp", f"{prop}.{os.getpid()}")
    os.makedirs(outdir, exist_ok=True)
    try:
        rc, out = sh(["coqc", "-Q", ".", "V", "-w", "-notation-overridden,-deprecated", "-noglob", "-o", os.path.join(outdir, prop + ".vo"), rel],
                     timeout, cwd=COQ)
    finally:
        shutil.rmtree(outdir, ignore_errors=True)
    res = {"ok": rc == 0, "theorems": theorems, "assumptions": {}, "log": out, "errors": []}
    if rc != 0:
        for m in ERR_RE.finditer(out):
            res["errors"].append({"file": m.group(1), "line": int(m.group(2)),
                                  "stmt": enclosing_statement(m.group(1), int(m.group(2))),
                                  "msg": " ".join(m.group(5).split())[:400]})
        if not res["errors"]:
            res["errors"].append({"file": rel, "line": 0, "stmt": "?", "msg": out[-600:]})
        return res
    # split the output into one block per Print Assumptions, in order
    blocks = re.split(r"(?m)^(?=Closed under the global context|Axioms:|Section Variables:)", out)
    blocks = [b for b in blocks if b.startswith(("Closed under", "Axioms:", "Section Variables:"))]
    if len(blocks) != len(printed):
        res["ok"] = False
        res["errors"].append({"file": rel, "line": 0, "stmt": "?", "msg": f"{len(printed)} Print Assumptions but {len(blocks)} outputs"})
        return res
    for name, blk in zip(printed, blocks):
        if blk.startswith("Closed under"):
            res["assumptions"][name] = []
        else:
            ax = re.findall(r"(?m)^([A-Za-z0-9_.']+)\s*:", blk)
            ax = [a for a in ax if a not in ("Axioms", "Section Variables")]
            res["assumptions"][name] = ax
    for th in theorems:
        if th not in res["assumptions"]:
            res["ok"] = False
            res["errors"].append({"file": rel, "line": 0, "stmt": th, "msg": "no Print Assumptions for this theorem"})
        else:
            bad = [a for a in res["assumptions"][th] if a not in ALLOWED_AXIOMS]
            if bad:
                res["ok"] = False
                res["errors"].append({"file": rel, "line": 0, "stmt": th, "msg": "depends on axioms " + ", ".join(bad)})
    return res


IMPORT_RE = re.compile(r"(?:From\s+V\s+)?Require\s+(?:Import|Export)\s+([^.]*(?:\.[A-Za-z_][^.\s]*)*)\s*\.", re.S)


def cone(root_rel: str) -> t.List[str]:
    """The .v files of this development that `root_rel` (e.g. Properties/C09.v) depends on, transitively (by its Require lines)."""
    seen: t.List[str] = []
    todo = [root_rel]
    while todo:
        rel = todo.pop()
        if rel in seen:
            continue
        path = os.path.join(COQ, rel)
        if not os.path.exists(path):
            continue
        seen.append(rel)
        src = re.sub(r"\(\*.*?\*\)", "", open(path).read(), flags=re.S)
        for m in re.finditer(r"Require\s+(?:Import|Export)\s+(.*?)\.\s", src, re.S):
            for tok in m.group(1).split():
                tok = tok.strip()
                if tok.startswith("V."):
                    tok = tok[2:]
                cand = tok.replace(".", "/") + ".v"
                if os.path.exists(os.path.join(COQ, cand)):
                    todo.append(cand)
    return sorted(seen)


def coqchk(prop: str, timeout: int = 2400) -> dict:
    """Re-checks the compiled dependency cone of Properties/<prop>.vo with Coq's independent checker and lists the axioms it rests on."""
    t0 = time.time()
    rc, out = sh(["coqchk", "-silent", "-o", "-Q", ".", "V", f"V.Properties.{prop}"], timeout, cwd=COQ)
    res = {"ok": rc == 0, "seconds": round(time.time() - t0, 1), "axioms": None, "tail": out[-600:]}
    m = re.search(r"\* Axioms:\s*(.*?)\n\s*\n\* Constants/Inductives relying on type-in-type:\s*(.*?)\n\s*\n\* Constants/Inductives relying on unsafe \(co\)fixpoints:\s*(.*?)\n\s*\n\* Inductives whose positivity is assumed:\s*(.*?)\n", out, re.S)
    if m:
        res["axioms"] = [x.strip() for x in m.group(1).split("\n") if x.strip() and x.strip() != "<none>"]
        res["type_in_type"] = m.group(2).strip()
        res["unsafe_fixpoints"] = m.group(3).strip()
        res["assumed_positivity"] = m.group(4).strip()
        res["ok"] = res["ok"] and not res["axioms"] and res["type_in_type"] == "<none>" and res["unsafe_fixpoints"] == "<none>" \
            and res["assumed_positivity"] == "<none>"
    else:
        res["ok"] = False
    return res


def forbidden_scan(prop: t.Optional[str] = None) -> t.List[str]:
    """Scans the dependency cone of Properties/<prop>.v (the whole development when prop is None)."""
    hits = []
    files = cone(f"Properties/{prop}.v") if prop else coq_files()
    for rel in files:
        path = os.path.join(COQ, rel)
        depth = 0
        in_comment = 0
        for ln, line in enumerate(open(path), 1):
            code = re.sub(r"\(\*.*?\*\)", "", line)
            if "(*" in code and "*)" not in code:
                in_comment += 1
                code = code.split("(*")[0]
            elif "*)" in code and in_comment:
                in_comment -= 1
                code = code.split("*)", 1)[1]
            elif in_comment:
                continue
            if re.match(r"\s*Section\b", code):
                depth += 1
            if re.match(r"\s*End\b", code) and depth:
                depth -= 1
            if FORBIDDEN.search(code):
                hits.append(f"{rel}:{ln}: {line.strip()[:120]}")
            if SECTION_ONLY.match(code) and depth == 0:
                hits.append(f"{rel}:{ln}: {line.strip()[:120]} (outside a Section)")
    return hits


# ---------------------------------------------------------------------------------------------
# Extracted model
# ---------------------------------------------------------------------------------------------
def modelrun_path(area: str = "core") -> str:
    return os.path.join(BUILD, f"modelrun_{area}")


def ensure_modelrun(area: str = "core", timeout: int = 900) -> t.Tuple[bool, str]:
    """(Re)build build/modelrun_<area> from Model/Units_<area>.vo when that is newer."""
    units_vo = os.path.join(COQ, "Model", f"Units_{area}.vo")
    binp = modelrun_path(area)
    drv = os.path.join(VERIF, "ocaml", "driver.ml")
    if not os.path.exists(units_vo):
        return False, f"Model/Units_{area}.vo missing"
    if os.path.exists(binp) and os.path.getmtime(binp) >= max(os.path.getmtime(units_vo), os.path.getmtime(drv)):
        return True, "up to date"
    mld = os.path.join(BUILD, f"ml_{area}")
    os.makedirs(mld, exist_ok=True)
    # Extraction file: only ExtrOcamlBasic's directives; Z, positive, nat, string, ascii stay Coq inductives.
    with open(os.path.join(mld, "Extract.v"), "w") as fh:
        # the entry point gets a name no library definition has (Prelude/PyAst.v also defines a `run`)
        fh.write(f"From V Require Import Model.Units_{area}.\nRequire Import ExtrOcamlBasic.\n"
                 f"Definition modelrun_entry := Units_{area}.run.\n"
                 "Extraction Language OCaml.\nExtraction \"model.ml\" modelrun_entry.\n")
    rc, out = sh(["coqc", "-Q", COQ, "V", "Extract.v"], timeout, cwd=mld)
    if rc != 0:
        return False, "extraction failed: " + out[-800:]
    with open(os.path.join(mld, "driver.ml"), "w") as fh:
        fh.write(open(drv).read())
    rc, out = sh(["ocamlfind", "ocamlopt", "-O3", "-w", "-a", "-o", binp + ".new", "model.mli", "model.ml", "driver.ml"], timeout, cwd=mld)
    if rc != 0:
        return False, "ocamlopt failed: " + out[-800:]
    os.replace(binp + ".new", binp)
    return True, "rebuilt"


def run_model(cases: t.Sequence[t.Tuple[str, str]], timeout: int = 900, shards: int = 8, area: str = "core") -> t.List[str]:
    """cases: (unit, value-text). Returns the model's output text per case (in order)."""
    if not cases:
        return []
    binp = modelrun_path(area)
    shards = max(1, min(16, len(cases) // 4))  # cheap to start; some units are CPU-heavy per case
    chunks = [cases[i::shards] for i in range(shards)]
    procs = []
    for ch in chunks:
        data = "".join(f"{u}\t{a}\n" for u, a in ch).encode()
        p = subprocess.Popen(["bash", "-c", "ulimit -s unlimited 2>/dev/null; exec " + binp], stdin=subprocess.PIPE,
                             stdout=subprocess.PIPE, stderr=subprocess.PIPE)
        procs.append((p, data))
    outs: t.List[t.List[str]] = []
    import threading

    results: t.List[t.Optional[t.List[str]]] = [None] * len(procs)

    def work(i: int) -> None:
        p, data = procs[i]
        try:
            o, e = p.communicate(data, timeout=timeout)
            lines = o.decode().split("\n")
            if lines and lines[-1] == "":
                lines.pop()
            results[i] = lines
        except subprocess.TimeoutExpired:
            p.kill()
            results[i] = []

    ths = [threading.Thread(target=work, args=(i,)) for i in range(len(procs))]
    for th in ths:
        th.start()
    for th in ths:
        th.join()
    out: t.List[str] = [""] * len(cases)
    for s, ch in enumerate(chunks):
        lines = results[s] or []
        for j in range(len(ch)):
            out[s + j * shards] = lines[j] if j < len(lines) else "!model-no-output"
    return out


# ---------------------------------------------------------------------------------------------
# Implementation side
# ---------------------------------------------------------------------------------------------
def setup_impl_path() -> None:
    src = os.path.join(REPO, "src")
    if src not in sys.path:
        sys.path.insert(0, src)
    os.environ["PYTHONPATH"] = src
    os.environ.setdefault("PYTHONHASHSEED", "0")


def classify(exc: BaseException) -> Err:
    import asyncio
    import struct

    name = type(exc).__name__
    try:
        from cryptography.exceptions import InvalidTag
        from cryptography.hazmat.primitives.keywrap import InvalidUnwrap
    except Exception:  # pragma: no cover
        InvalidTag = InvalidUnwrap = ()  # type: ignore
    if name == "NotEnougData" or name == "NotEnoughData":
        return Err("NotEnoughData")
    if name == "NeedNetwork":
        return Err("NeedNetwork")
    if name in ("BudgetExceeded", "OutOfFuel"):
        return Err("OutOfFuel")
    if InvalidTag and isinstance(exc, InvalidTag):
        return Err("InvalidTag")
    if InvalidUnwrap and isinstance(exc, InvalidUnwrap):
        return Err("InvalidUnwrap")
    if isinstance(exc, asyncio.IncompleteReadError):
        return Err("IncompleteRead")
    if isinstance(exc, struct.error):
        return Err("StructError")
    for cls, nm in ((NotImplementedError, "NotImplementedError"), (IndexError, "IndexError"),
                    (OverflowError, "OverflowError"), (TypeError, "TypeError"), (KeyError, "KeyError"),
                    (AttributeError, "AttributeError"), (EOFError, "EOFError"), (ValueError, "ValueError")):
        if isinstance(exc, cls):
            return Err(nm)
    return Err("Other_" + name)


class CaseTimeout(Exception):
    """one implementation run exceeded its wall-clock budget: reported as non-termination (OutOfFuel)"""


CASE_TIMEOUT_S = float(os.environ.get("VERIF_CASE_TIMEOUT", "20"))


def _alarm(signum, frame):  # pragma: no cover - only fires on a runaway implementation
    raise CaseTimeout()


def run_impl(fn: t.Callable[[t.Any], t.Any], arg: t.Any) -> str:
    """Runs the implementation on one case under a wall-clock watchdog (a changed implementation may loop)."""
    import signal
    import threading

    use_alarm = threading.current_thread() is threading.main_thread()
    if use_alarm:
        old = signal.signal(signal.SIGALRM, _alarm)
        signal.setitimer(signal.ITIMER_REAL, CASE_TIMEOUT_S)
    try:
        return enc(fn(arg))
    except CaseTimeout:
        return "eOutOfFuel"
    except RecursionError:
        return "eOther_RecursionError"
    except MemoryError:
        return "eOutOfFuel"
    except Exception as exc:  # noqa: BLE001 - classification is the point
        return enc(classify(exc))
    finally:
        if use_alarm:
            signal.setitimer(signal.ITIMER_REAL, 0)
            signal.signal(signal.SIGALRM, old)


# ---------------------------------------------------------------------------------------------
# Known findings
# ---------------------------------------------------------------------------------------------
def known_findings() -> t.List[dict]:
    path = os.path.join(VERIF, "known_findings.txt")
    out = []
    if os.path.exists(path):
        for line in open(path):
            line = line.strip()
            m = re.match(r"finding:\s+property=(\S+)\s+key=(\S+)\s+(.*)", line)
            if m:
                out.append({"property": m.group(1), "key": m.group(2), "text": m.group(3)})
    return out
