"""Implementation-side helpers of area `rpc` (C12, C18): conversion between the library's message objects and
the boundary values of coq/Model/Units_rpc.v, a step-budgeted runner, structured generators."""
from __future__ import annotations

import ast
import os
import sys
import typing as t
import uuid

from .val import Err


class BudgetExceeded(Exception):
    """Raised by run_budgeted; vlib.core.classify maps the class name to OutOfFuel."""


def run_budgeted(fn: t.Callable[[], t.Any], budget: int) -> t.Any:
    """Runs fn() counting interpreter line events; a decoder that does not finish within `budget`
    events is reported as BudgetExceeded (-> OutOfFuel) instead of being waited for."""
    count = [0]

    def tracer(frame, event, arg):
        if event == "line":
            count[0] += 1
            if count[0] > budget:
                raise BudgetExceeded(f"more than {budget} line events")
        return tracer

    old = sys.gettrace()
    sys.settrace(tracer)
    try:
        return fn()
    finally:
        sys.settrace(old)


def count_steps(fn: t.Callable[[], t.Any], cap: int = 10_000_000) -> int:
    """Number of line events fn() takes (exceptions swallowed), capped."""
    count = [0]

    def tracer(frame, event, arg):
        if event == "line":
            count[0] += 1
            if count[0] > cap:
                raise BudgetExceeded()
        return tracer

    old = sys.gettrace()
    sys.settrace(tracer)
    try:
        fn()
    except Exception:  # noqa: BLE001
        pass
    finally:
        sys.settrace(old)
    return count[0]


def step_budget(n: int) -> int:
    """Linear step budget for decoding n octets (line events; ~10 per loop iteration, a few hundred fixed)."""
    return 3000 + 40 * n


# ---------------------------------------------------------------------------------------------------
# library objects -> values
# ---------------------------------------------------------------------------------------------------
def L():
    import dpapi_ng._epm as epm
    import dpapi_ng._rpc as rpc
    from dpapi_ng._rpc import _pdu

    return rpc, epm, _pdu


def v_dr(d):
    return [int(d.byte_order), int(d.character), int(d.floating_point)]


def v_hdr(h):
    return [h.version, h.version_minor, int(h.packet_type), int(h.packet_flags), v_dr(h.data_rep), h.frag_len, h.auth_len, h.call_id]


def v_st(s):
    if s is None:
        return None
    return [int(s.type), int(s.level), s.pad_length, s.context_id, bytes(s.auth_value)]


def v_sy(s):
    return [s.uuid.bytes_le, s.version, s.version_minor]


def v_ce(c):
    return [c.context_id, v_sy(c.abstract_syntax), [v_sy(x) for x in c.transfer_syntaxes]]


def v_cr(r):
    return [int(r.result), r.reason, r.syntax.bytes_le, r.syntax_version]


def v_pdu(m):
    rpc, epm, _pdu = L()
    h, s = v_hdr(m.header), v_st(m.sec_trailer)
    if isinstance(m, rpc.Request):
        return [0, [h, s, m.alloc_hint, m.context_id, m.opnum, m.obj.bytes_le if m.obj is not None else None, bytes(m.stub_data)]]
    if isinstance(m, rpc.Response):
        return [2, [h, s, m.alloc_hint, m.context_id, m.cancel_count, bytes(m.stub_data)]]
    if isinstance(m, rpc.Fault):
        return [3, [h, s, m.alloc_hint, m.context_id, m.cancel_count, m.status, int(m.flags), bytes(m.stub_data)]]
    if isinstance(m, rpc.BindNak):
        return [13, [h, s, m.reject_reason, [[a, b] for a, b in m.versions]]]
    if isinstance(m, rpc.BindAck):  # AlterContextResponse is a subclass
        tag = 15 if isinstance(m, rpc.AlterContextResponse) else 12
        return [tag, [h, s, m.max_xmit_frag, m.max_recv_frag, m.assoc_group, m.sec_addr, [v_cr(r) for r in m.results]]]
    if isinstance(m, rpc.Bind):
        tag = 14 if isinstance(m, rpc.AlterContext) else 11
        return [tag, [h, s, m.max_xmit_frag, m.max_recv_frag, m.assoc_group, [v_ce(c) for c in m.contexts]]]
    raise TypeError(type(m).__name__)


def v_cmd(c):
    rpc, epm, _pdu = L()
    base = [c.command.value, int(c.flags), bytes(c.value)]
    if isinstance(c, rpc.CommandBitmask):
        return [1] + base + [c.bits]
    if isinstance(c, rpc.CommandPContext):
        return [2] + base + [v_sy(c.interface_id), v_sy(c.transfer_syntax)]
    if isinstance(c, rpc.CommandHeader2):
        return [3] + base + [int(c.packet_type), v_dr(c.data_rep), c.call_id, c.context_id, c.opnum]
    return [0] + base


def v_floor(f):
    rpc, epm, _pdu = L()
    base = [f.protocol.value, bytes(f.lhs), bytes(f.rhs)]
    if isinstance(f, epm.TCPFloor):
        return [1] + base + [f.port]
    if isinstance(f, epm.IPFloor):
        return [2] + base + [f.addr]
    if isinstance(f, epm.RPCConnectionOrientedFloor):
        return [3] + base + [f.version_minor]
    if isinstance(f, epm.UUIDFloor):
        return [4] + base + [f.uuid.bytes_le, f.version, f.version_minor]
    return [0] + base


def v_handle(h):
    return None if h is None else [h[0], h[1].bytes_le]


def v_ept_map(m):
    return [m.obj.bytes_le if m.obj is not None else None, [v_floor(f) for f in m.tower], v_handle(m.entry_handle), m.max_towers]


def v_ept_map_result(m):
    return [v_handle(m.entry_handle), [[v_floor(f) for f in t] for t in m.towers], m.status]


# ---------------------------------------------------------------------------------------------------
# values -> library objects
# ---------------------------------------------------------------------------------------------------
def o_dr(v):
    rpc, epm, _pdu = L()
    return rpc.DataRep(rpc.IntegerRep(v[0]), rpc.CharacterRep(v[1]), rpc.FloatingPointRep(v[2]))


def o_hdr(v):
    rpc, epm, _pdu = L()
    return rpc.PDUHeader(version=v[0], version_minor=v[1], packet_type=rpc.PacketType(v[2]), packet_flags=rpc.PacketFlags(v[3]),
                         data_rep=o_dr(v[4]), frag_len=v[5], auth_len=v[6], call_id=v[7])


def o_st(v):
    rpc, epm, _pdu = L()
    if v is None:
        return None
    return rpc.SecTrailer(type=rpc.SecurityProvider(v[0]), level=rpc.AuthenticationLevel(v[1]), pad_length=v[2], context_id=v[3],
                          auth_value=bytes(v[4]))


def o_uuid(b):
    return uuid.UUID(bytes_le=bytes(b))


def o_sy(v):
    rpc, epm, _pdu = L()
    return rpc.SyntaxId(o_uuid(v[0]), v[1], v[2])


def o_ce(v):
    rpc, epm, _pdu = L()
    return rpc.ContextElement(context_id=v[0], abstract_syntax=o_sy(v[1]), transfer_syntaxes=[o_sy(x) for x in v[2]])


def o_cr(v):
    rpc, epm, _pdu = L()
    return rpc.ContextResult(result=rpc.ContextResultCode(v[0]), reason=v[1], syntax=o_uuid(v[2]), syntax_version=v[3])


def o_pdu(v):
    rpc, epm, _pdu = L()
    tag, m = v
    h, s = o_hdr(m[0]), o_st(m[1])
    if tag == 0:
        return rpc.Request(header=h, sec_trailer=s, alloc_hint=m[2], context_id=m[3], opnum=m[4],
                           obj=o_uuid(m[5]) if m[5] is not None else None, stub_data=bytes(m[6]))
    if tag == 2:
        return rpc.Response(header=h, sec_trailer=s, alloc_hint=m[2], context_id=m[3], cancel_count=m[4], stub_data=bytes(m[5]))
    if tag == 3:
        return rpc.Fault(header=h, sec_trailer=s, alloc_hint=m[2], context_id=m[3], cancel_count=m[4], status=m[5],
                         flags=_pdu.FaultFlags(m[6]), stub_data=bytes(m[7]))
    if tag in (11, 14):
        cls = rpc.Bind if tag == 11 else rpc.AlterContext
        return cls(header=h, sec_trailer=s, max_xmit_frag=m[2], max_recv_frag=m[3], assoc_group=m[4], contexts=[o_ce(c) for c in m[5]])
    if tag in (12, 15):
        cls = rpc.BindAck if tag == 12 else rpc.AlterContextResponse
        return cls(header=h, sec_trailer=s, max_xmit_frag=m[2], max_recv_frag=m[3], assoc_group=m[4], sec_addr=m[5],
                   results=[o_cr(r) for r in m[6]])
    if tag == 13:
        return rpc.BindNak(header=h, sec_trailer=s, reject_reason=m[2], versions=[(a, b) for a, b in m[3]])
    raise TypeError(f"pdu tag {tag}")


def o_cmd(v):
    rpc, epm, _pdu = L()
    kind, command, flags, value = v[0], v[1], rpc.CommandFlags(v[2]), bytes(v[3])
    if kind == 0:
        return rpc.Command(rpc.CommandType(command), flags, value)
    if kind == 1:
        return rpc.CommandBitmask(flags=flags, bits=v[4])
    if kind == 2:
        return rpc.CommandPContext(flags=flags, interface_id=o_sy(v[4]), transfer_syntax=o_sy(v[5]))
    if kind == 3:
        return rpc.CommandHeader2(flags=flags, packet_type=rpc.PacketType(v[4]), data_rep=o_dr(v[5]), call_id=v[6], context_id=v[7], opnum=v[8])
    raise TypeError(f"command kind {kind}")


def o_floor(v):
    rpc, epm, _pdu = L()
    kind = v[0]
    if kind == 0:
        return epm.Floor(epm.FloorProtocol(v[1]), bytes(v[2]), bytes(v[3]))
    if kind == 1:
        return epm.TCPFloor(v[4])
    if kind == 2:
        return epm.IPFloor(v[4])
    if kind == 3:
        return epm.RPCConnectionOrientedFloor(v[4])
    if kind == 4:
        return epm.UUIDFloor(o_uuid(v[4]), v[5], v[6])
    raise TypeError(f"floor kind {kind}")


def o_handle(v):
    return None if v is None else (v[0], o_uuid(v[1]))


def o_ept_map(v):
    rpc, epm, _pdu = L()
    return epm.EptMap(obj=o_uuid(v[0]) if v[0] is not None else None, tower=[o_floor(f) for f in v[1]],
                      entry_handle=o_handle(v[2]), max_towers=v[3])


def o_ept_map_result(v):
    rpc, epm, _pdu = L()
    return epm.EptMapResult(entry_handle=o_handle(v[0]), towers=[[o_floor(f) for f in t] for t in v[1]], status=v[2])


# ---------------------------------------------------------------------------------------------------
# round-trip runner: [packed, decoded fields, re-packed]; a decoding failure is part of the value
# ---------------------------------------------------------------------------------------------------
def roundtrip(obj, unpack, to_val, budget_extra: int = 0):
    from .core import classify

    b = obj.pack()
    try:
        m2 = run_budgeted(lambda: unpack(b), step_budget(len(b)) + budget_extra)
    except Exception as exc:  # noqa: BLE001
        return [b, classify(exc)]
    try:
        b2 = m2.pack()
    except Exception as exc:  # noqa: BLE001
        b2 = classify(exc)
    return [b, to_val(m2), b2]


# ---------------------------------------------------------------------------------------------------
# captured byte strings of the test-suite
# ---------------------------------------------------------------------------------------------------
def captured_bytes() -> t.List[bytes]:
    out: t.List[bytes] = []
    seen = set()
    base = "/repo/tests"
    files = [os.path.join(base, "_rpc", f) for f in sorted(os.listdir(os.path.join(base, "_rpc"))) if f.endswith(".py")]
    files.append(os.path.join(base, "test_epm.py"))
    for path in files:
        try:
            tree = ast.parse(open(path).read())
        except (OSError, SyntaxError):
            continue
        for node in ast.walk(tree):
            if isinstance(node, ast.Constant) and isinstance(node.value, bytes) and len(node.value) >= 4:
                if node.value not in seen:
                    seen.add(node.value)
                    out.append(node.value)
    return out


# ---------------------------------------------------------------------------------------------------
# generators (values in the Units_rpc shapes)
# ---------------------------------------------------------------------------------------------------
SEC_PROVIDERS = [0, 9, 10, 14, 16, 68, 255]
PACKET_TYPES = [0, 1, 2, 3, 4, 5, 6, 7, 8, 9, 10, 11, 12, 13, 14, 15, 17, 18, 19]


def rbytes(rng, n):
    return bytes(rng.randrange(256) for _ in range(n))


def g_uuid(rng):
    return rbytes(rng, 16)


def g_sy(rng):
    return [g_uuid(rng), rng.choice([0, 1, 2, 65535, rng.randrange(65536)]), rng.choice([0, 1, 65535, rng.randrange(65536)])]


def g_dr(rng, i=None):
    i = rng.randrange(16) if i is None else i
    return [i & 1, (i >> 1) & 1, (i >> 2) & 3]


def g_st(rng, auth_len):
    if auth_len == 0:
        return None
    return [rng.choice(SEC_PROVIDERS), rng.randrange(7), rng.choice([0, 1, 15, 255]), rng.choice([0, 1, 2 ** 32 - 1, rng.randrange(2 ** 32)]),
            rbytes(rng, auth_len)]


def g_hdr(rng, pt, flags, auth_len, frag_len=0):
    return [rng.choice([5, 0, 255]), rng.choice([0, 1, 255]), pt, flags, g_dr(rng), frag_len, auth_len,
            rng.choice([0, 1, 2 ** 32 - 1, rng.randrange(2 ** 32)])]


def with_frag_len(pduval):
    """Sets header.frag_len to the packed length (what RpcClient._prepare_pdu does)."""
    obj = o_pdu(pduval)
    n = len(obj.pack())
    pduval[1][0][5] = n
    return pduval


AUTH_LENS = list(range(0, 65))
