"""Whole-function translator: Python ast  ->  a term of the deep embedding coq/Prelude/PyAst.v.

Purely syntactic and library-agnostic: it knows nothing about what a name, attribute or call means (that is the
`world` a proof file supplies).  Fail-closed: any construct outside the subset raises Unsupported and the committed
fallback text is used, which the runner reports as a broken obligation of the properties the flow is listed under.

Subset: assignments to names / tuples of names (annotated ones too), augmented assignment, return, raise <Class>(...),
attribute assignment on a local (x.a = e, also spelled object.__setattr__(x, "a", e)), if/elif/else, while and for (without break/continue/else), `with <ctx> [as y]`
(one item), subscript/slice assignment on a local or its attribute, break/continue, expression statements, pass, docstrings; expressions: names, dotted module-level names, attributes,
int/bytes/str/None/bool constants, f-strings (as a call "f-string"), calls (positional + keyword), method calls,
comparisons (chained), not/and/or, binary operators, unary minus, tuples, lists, dict displays (as a call "dict"),
single-generator list comprehensions / generator expressions, conditional expressions, subscripts and slices without step.
"""
import ast
import os
import typing as t

from .kernels import REPO_SRC, Unsupported, _find_func

HEADER = """(* GENERATED on every run by vlib/flow.py from /repo/src/dpapi_ng -- do not edit. *)
From Coq Require Import ZArith List String.
From V Require Import Prelude.Base Prelude.PyAst.
Import ListNotations.
Open Scope Z_scope.
Open Scope string_scope.

"""


class Flow(t.NamedTuple):
    name: str            # Coq identifier, k_flow_...
    file: str
    func: str            # qualified name (Class.method)
    props: t.Tuple[str, ...] = ()


def _s(x: str) -> str:
    if any(ord(c) < 32 or ord(c) > 126 for c in x):
        raise Unsupported(f"non-printable identifier {x!r}")
    return '"' + x.replace('"', '""') + '"'


def _zl(xs: t.Iterable[int]) -> str:
    return "[" + "; ".join(str(int(x)) for x in xs) + "]"


def _z(n: int) -> str:
    return f"({n})" if n < 0 else str(n)


CMP = {ast.Eq: "==", ast.NotEq: "!=", ast.Lt: "<", ast.LtE: "<=", ast.Gt: ">", ast.GtE: ">=", ast.Is: "is", ast.IsNot: "is not",
       ast.In: "in", ast.NotIn: "not in"}
BIN = {ast.Add: "+", ast.Sub: "-", ast.Mult: "*", ast.FloorDiv: "//", ast.Mod: "%", ast.LShift: "<<", ast.RShift: ">>", ast.BitAnd: "&",
       ast.BitOr: "|", ast.BitXor: "^", ast.Pow: "**", ast.Div: "/"}


class FlowTranslator:
    def __init__(self, func: ast.AST):
        self.func = func
        a = func.args
        if a.vararg or a.kwarg or a.posonlyargs:
            raise Unsupported("*args / **kwargs / positional-only parameters")
        self.params = [x.arg for x in a.args + a.kwonlyargs]
        self.locals = set(self.params)
        keyed: t.Set[int] = set()      # lambdas that are the key of sorted(<local>, key=lambda p: E): desugared, see e()
        for n in ast.walk(func):
            if isinstance(n, ast.Name) and isinstance(n.ctx, ast.Store):
                self.locals.add(n.id)
            if isinstance(n, ast.Call):
                lam = self._sort_key_lambda(n)
                if lam is not None:
                    keyed.add(id(lam))
            if isinstance(n, (ast.Lambda, ast.DictComp, ast.SetComp, ast.Yield, ast.YieldFrom, ast.Global,
                              ast.Nonlocal, ast.Try, ast.Delete, ast.Starred, ast.NamedExpr)):
                if id(n) in keyed:
                    continue
                if not self._inside_raise(n):
                    raise Unsupported(type(n).__name__)
            if isinstance(n, (ast.FunctionDef, ast.AsyncFunctionDef, ast.ClassDef)) and n is not func:
                raise Unsupported("nested definition")
        self._alias_check()

    def _alias_check(self) -> None:
        """Fail closed on stores through a possible alias. The semantics is single-owner: after `v = <expression that can hand
        out a reference into another object>` (a plain name, attribute or subscript of a local, the result of a method called on a
        local, or memoryview(..)), a later store INTO v (v[i] = e, v[a:b] = e, v.a = e, augmented forms) would, in Python, also change
        the object v came from; the desugared store would not. Such a function is refused rather than mistranslated."""
        tainted: t.Dict[str, str] = {}

        def reaches_into_local(e: ast.AST) -> t.Optional[str]:
            if isinstance(e, ast.Await):
                return reaches_into_local(e.value)
            if isinstance(e, ast.Name) and e.id in self.locals:
                return f"the local {e.id}"
            if isinstance(e, (ast.Attribute, ast.Subscript)):
                root = e
                while isinstance(root, (ast.Attribute, ast.Subscript)):
                    root = root.value
                if isinstance(root, ast.Call):
                    return reaches_into_local(root)
                if isinstance(root, ast.Name) and root.id in self.locals:
                    # a slice of bytes/list copies, but a slice of a memoryview does not: judged by the root below
                    return f"{ast.unparse(e)[:40]}"
                return None
            if isinstance(e, ast.Call):
                if isinstance(e.func, ast.Name) and e.func.id == "memoryview":
                    return "memoryview(..)"
                if isinstance(e.func, ast.Attribute):
                    root = e.func.value
                    while isinstance(root, (ast.Attribute, ast.Subscript)):
                        root = root.value
                    if isinstance(root, ast.Call):
                        return reaches_into_local(root)
                    if isinstance(root, ast.Name) and root.id in self.locals:
                        return f"the result of {ast.unparse(e.func)[:40]}(..)"
            return None

        for n in ast.walk(self.func):
            if isinstance(n, ast.Assign) and len(n.targets) == 1 and isinstance(n.targets[0], ast.Name):
                why = reaches_into_local(n.value)
                v = n.targets[0].id
                if why is not None and not (isinstance(n.value, ast.Subscript) and isinstance(n.value.slice, ast.Slice) and v not in tainted
                                            and not (isinstance(n.value.value, ast.Name) and n.value.value.id in tainted)):
                    tainted.setdefault(v, why)
        if not tainted:
            return
        for n in ast.walk(self.func):
            tg = None
            if isinstance(n, ast.Assign) and len(n.targets) == 1:
                tg = n.targets[0]
            elif isinstance(n, (ast.AugAssign, ast.AnnAssign)):
                tg = n.target
            if isinstance(tg, (ast.Subscript, ast.Attribute)):
                root = tg.value
                if isinstance(root, ast.Name) and root.id in tainted and root.id != "self":
                    raise Unsupported(f"store into {root.id}, which may alias {tainted[root.id]}")

    @staticmethod
    def _sort_key_lambda(c: ast.Call) -> t.Optional[ast.Lambda]:
        """sorted(<name>, key=lambda p: E) - the only use of a lambda that is given a meaning. CPython's sorted() copies the
        iterable into a list, computes key(x) for every element in list order BEFORE comparing anything, then sorts stably by the
        keys. With a plain local name as first argument (evaluating it twice has no effect) that is
        sorted/key(<name>, [E for p in <name>]): same evaluations in the same order, same exceptions; the lambda's parameter is
        local to it, as the comprehension's variable is. The sort itself is the world's `sorted/key`."""
        if (isinstance(c.func, ast.Name) and c.func.id == "sorted" and len(c.args) == 1 and isinstance(c.args[0], ast.Name)
                and len(c.keywords) == 1 and c.keywords[0].arg == "key" and isinstance(c.keywords[0].value, ast.Lambda)):
            lam = c.keywords[0].value
            a = lam.args
            if (len(a.args) == 1 and not a.vararg and not a.kwarg and not a.posonlyargs and not a.kwonlyargs and not a.defaults
                    and not any(isinstance(m, (ast.Lambda, ast.NamedExpr, ast.Yield, ast.YieldFrom, ast.Await))
                                for m in ast.walk(lam.body))):
                return lam
        return None

    def _inside_raise(self, node) -> bool:
        for r in ast.walk(self.func):
            if isinstance(r, ast.Raise):
                for sub in ast.walk(r):
                    if sub is node:
                        return True
        return False

    # ---- expressions -------------------------------------------------------------------------
    def dotted(self, e: ast.AST) -> t.Optional[str]:
        """a.b.c whose root is NOT a local: a module-level dotted name"""
        parts = []
        while isinstance(e, ast.Attribute):
            parts.append(e.attr)
            e = e.value
        if isinstance(e, ast.Name) and e.id not in self.locals:
            return ".".join([e.id] + parts[::-1])
        return None

    def e(self, x: ast.AST) -> str:
        if isinstance(x, ast.Await):
            return self.e(x.value)
        if isinstance(x, ast.Name):
            return f"(PName {_s(x.id)})"
        if isinstance(x, ast.Attribute):
            d = self.dotted(x)
            if d is not None:
                return f"(PName {_s(d)})"
            return f"(PAttr {self.e(x.value)} {_s(x.attr)})"
        if isinstance(x, ast.Constant):
            v = x.value
            if v is None:
                return "PNone"
            if isinstance(v, bool):
                return f"(PBool {'true' if v else 'false'})"
            if isinstance(v, int):
                return f"(PInt {_z(v)})"
            if isinstance(v, bytes):
                return f"(PBytes {_zl(v)})"
            if isinstance(v, str):
                return f"(PStr {_zl(map(ord, v))})"
            raise Unsupported(f"constant {type(v).__name__}")
        if isinstance(x, ast.Call):
            lam = self._sort_key_lambda(x)
            if lam is not None:
                if x.args[0].id not in self.locals:
                    raise Unsupported("sorted(.., key=lambda) of a non-local")
                seq = self.e(x.args[0])
                keys = f"(PComp {self.e(lam.body)} [{_s(lam.args.args[0].arg)}] {seq} [])"
                return f"(PCall {_s('sorted/key')} [{seq}; {keys}])"
            args = [self.e(a) for a in x.args]
            kws = []
            for kw in x.keywords:
                if kw.arg is None:
                    raise Unsupported("**kwargs in a call")
                kws.append(kw.arg)
                args.append(self.e(kw.value))
            d = self.dotted(x.func)
            if d is not None:
                key = d
            elif isinstance(x.func, ast.Attribute):
                key = x.func.attr + ("/" + ",".join(kws) if kws else "")
                return f"(PMeth {_s(key)} {self.e(x.func.value)} [{'; '.join(args)}])"
            elif isinstance(x.func, ast.Name):
                key = "()"            # calling a local value
                args = [self.e(x.func)] + args
            else:
                raise Unsupported("call of a computed callee")
            if kws:
                key += "/" + ",".join(kws)
            return f"(PCall {_s(key)} [{'; '.join(args)}])"
        if isinstance(x, ast.Compare):
            terms = [x.left] + list(x.comparators)
            out = None
            for op, a, b in zip(x.ops, terms, terms[1:]):
                if type(op) not in CMP:
                    raise Unsupported("comparison operator")
                c = f"(PCmp {_s(CMP[type(op)])} {self.e(a)} {self.e(b)})"
                out = c if out is None else f"(PAnd {out} {c})"
            return out
        if isinstance(x, ast.UnaryOp):
            if isinstance(x.op, ast.Not):
                return f"(PNot {self.e(x.operand)})"
            if isinstance(x.op, ast.USub):
                if isinstance(x.operand, ast.Constant) and isinstance(x.operand.value, int) and not isinstance(x.operand.value, bool):
                    return f"(PInt {_z(-x.operand.value)})"
                return f"(PNeg {self.e(x.operand)})"
            raise Unsupported("unary operator")
        if isinstance(x, ast.BoolOp):
            vals = [self.e(v) for v in x.values]
            ctor = "PAnd" if isinstance(x.op, ast.And) else "POr"
            out = vals[-1]
            for v in reversed(vals[:-1]):
                out = f"({ctor} {v} {out})"
            return out
        if isinstance(x, ast.BinOp):
            if type(x.op) not in BIN:
                raise Unsupported("binary operator")
            return f"(PBin {_s(BIN[type(x.op)])} {self.e(x.left)} {self.e(x.right)})"
        if isinstance(x, ast.Tuple):
            return f"(PTuple [{'; '.join(self.e(v) for v in x.elts)}])"
        if isinstance(x, ast.List):
            return f"(PList [{'; '.join(self.e(v) for v in x.elts)}])"
        if isinstance(x, ast.IfExp):
            return f"(PIfExp {self.e(x.test)} {self.e(x.body)} {self.e(x.orelse)})"
        if isinstance(x, ast.Subscript):
            sl = x.slice
            if isinstance(sl, ast.Slice):
                if sl.step is not None:
                    raise Unsupported("slice step")
                lo = self.e(sl.lower) if sl.lower is not None else "PNone"
                hi = self.e(sl.upper) if sl.upper is not None else "PNone"
                return f"(PSlice {self.e(x.value)} {lo} {hi})"
            return f"(PSub {self.e(x.value)} {self.e(sl)})"
        if isinstance(x, ast.JoinedStr):
            parts = []
            for v in x.values:
                if isinstance(v, ast.Constant) and isinstance(v.value, str):
                    parts.append(f"(PStr {_zl(map(ord, v.value))})")
                elif isinstance(v, ast.FormattedValue) and v.conversion == -1 and v.format_spec is None:
                    parts.append(self.e(v.value))
                else:
                    raise Unsupported("f-string conversion / format spec")
            return f"(PCall {_s('f-string')} [{'; '.join(parts)}])"
        if isinstance(x, ast.Dict):
            if any(k is None for k in x.keys):
                raise Unsupported("dict unpacking")
            items = [f"(PTuple [{self.e(k)}; {self.e(v)}])" for k, v in zip(x.keys, x.values)]
            return f"(PCall {_s('dict')} [{'; '.join(items)}])"
        if isinstance(x, (ast.ListComp, ast.GeneratorExp)):
            if len(x.generators) != 1 or x.generators[0].is_async:
                raise Unsupported("comprehension with several generators")
            g = x.generators[0]
            xs = self.targets(g.target)
            return (f"(PComp {self.e(x.elt)} [{'; '.join(_s(v) for v in xs)}] {self.e(g.iter)} "
                    f"[{'; '.join(self.e(c) for c in g.ifs)}])")
        raise Unsupported(f"expression {type(x).__name__}")

    # ---- statements --------------------------------------------------------------------------
    def targets(self, tg: ast.AST) -> t.List[str]:
        if isinstance(tg, ast.Name):
            return [tg.id]
        if isinstance(tg, ast.Tuple) and all(isinstance(v, ast.Name) for v in tg.elts) and len(tg.elts) >= 2:
            return [v.id for v in tg.elts]
        raise Unsupported("assignment target")

    def block(self, body: t.Sequence[ast.stmt], ind: int) -> str:
        out = [s for s in (self.s(st, ind + 2) for st in body) if s]
        pad = " " * ind
        if not out:
            return "[]"
        return "[\n" + ";\n".join(" " * (ind + 2) + s for s in out) + "\n" + pad + "]"

    def s(self, st: ast.stmt, ind: int) -> str:
        if isinstance(st, ast.Expr):
            if isinstance(st.value, ast.Constant) and isinstance(st.value.value, str):
                return ""
            c = st.value
            if (isinstance(c, ast.Call) and ast.unparse(c.func) == "object.__setattr__" and len(c.args) == 3 and not c.keywords
                    and isinstance(c.args[0], ast.Name) and c.args[0].id in self.locals
                    and isinstance(c.args[1], ast.Constant) and isinstance(c.args[1].value, str)):
                # object.__setattr__(x, "a", e) on a local x is the attribute store x.a = e (it only bypasses a frozen dataclass's guard)
                return f"SSetAttr {_s(c.args[0].id)} {_s(c.args[1].value)} {self.e(c.args[2])}"
            return f"SExpr {self.e(st.value)}"
        if isinstance(st, ast.Pass):
            return "SPass"
        if isinstance(st, ast.Break):
            return "SBreak"
        if isinstance(st, ast.Continue):
            return "SContinue"
        if isinstance(st, ast.Assign):
            if len(st.targets) != 1:
                raise Unsupported("chained assignment")
            tg = st.targets[0]
            if isinstance(tg, ast.Attribute) and isinstance(tg.value, ast.Name) and tg.value.id in self.locals:
                return f"SSetAttr {_s(tg.value.id)} {_s(tg.attr)} {self.e(st.value)}"
            if isinstance(tg, ast.Subscript):
                # single-owner desugaring: x[i] = e  ==>  x = setitem(x, i, e);  x.a[i] = e  ==>  x.a = setitem(x.a, i, e)
                sl = tg.slice
                if isinstance(sl, ast.Slice):
                    if sl.step is not None:
                        raise Unsupported("slice step")
                    idx = [self.e(sl.lower) if sl.lower is not None else "PNone", self.e(sl.upper) if sl.upper is not None else "PNone"]
                    fn = "setslice"
                else:
                    idx = [self.e(sl)]
                    fn = "setitem"
                new = f"(PCall {_s(fn)} [{'; '.join([self.e(tg.value)] + idx + [self.e(st.value)])}])"
                base = tg.value
                if isinstance(base, ast.Name) and base.id in self.locals:
                    return f"SAssign [{_s(base.id)}] {new}"
                if isinstance(base, ast.Attribute) and isinstance(base.value, ast.Name) and base.value.id in self.locals:
                    return f"SSetAttr {_s(base.value.id)} {_s(base.attr)} {new}"
                raise Unsupported("subscript assignment to a non-local")
            xs = self.targets(tg)
            return f"SAssign [{'; '.join(_s(v) for v in xs)}] {self.e(st.value)}"
        if isinstance(st, ast.AnnAssign):
            if st.value is None:
                return ""
            tg = st.target
            if isinstance(tg, ast.Attribute) and isinstance(tg.value, ast.Name) and tg.value.id in self.locals:
                return f"SSetAttr {_s(tg.value.id)} {_s(tg.attr)} {self.e(st.value)}"
            return f"SAssign [{_s(self.targets(tg)[0])}] {self.e(st.value)}"
        if isinstance(st, ast.AugAssign):
            tg = st.target
            if (isinstance(tg, ast.Subscript) and isinstance(tg.value, ast.Name) and tg.value.id in self.locals and type(st.op) in BIN
                    and isinstance(tg.slice, (ast.Name, ast.Constant))):
                # x[i] op= e  ==>  x = setitem(x, i, x[i] op e)   (i is a name or a constant: evaluating it twice is harmless)
                x, i = self.e(tg.value), self.e(tg.slice)
                return f"SAssign [{_s(tg.value.id)}] (PCall {_s('setitem')} [{x}; {i}; (PBin {_s(BIN[type(st.op)])} (PSub {x} {i}) {self.e(st.value)})])"
            if (isinstance(tg, ast.Attribute) and isinstance(tg.value, ast.Name) and tg.value.id in self.locals and type(st.op) in BIN):
                # x.a op= e  ==>  x.a = x.a op e
                return (f"SSetAttr {_s(tg.value.id)} {_s(tg.attr)} (PBin {_s(BIN[type(st.op)])} (PAttr (PName {_s(tg.value.id)}) {_s(tg.attr)}) "
                        f"{self.e(st.value)})")
            if not isinstance(st.target, ast.Name) or type(st.op) not in BIN:
                raise Unsupported("augmented assignment")
            return f"SAssign [{_s(st.target.id)}] (PBin {_s(BIN[type(st.op)])} (PName {_s(st.target.id)}) {self.e(st.value)})"
        if isinstance(st, ast.Return):
            return f"SReturn {self.e(st.value) if st.value is not None else 'PNone'}"
        if isinstance(st, ast.Raise):
            exc = st.exc
            if isinstance(exc, ast.Call):
                exc = exc.func
            nm = self.dotted(exc) if exc is not None else None
            if nm is None:
                raise Unsupported("raise of a computed exception")
            return f"SRaise {_s(nm)}"
        if isinstance(st, ast.If):
            return f"SIf {self.e(st.test)} {self.block(st.body, ind)} {self.block(st.orelse, ind)}"
        if isinstance(st, ast.While):
            if st.orelse:
                raise Unsupported("while/else")
            return f"SWhile {self.e(st.test)} {self.block(st.body, ind)}"
        if isinstance(st, (ast.For, ast.AsyncFor)):
            if st.orelse:
                raise Unsupported("for/else")
            xs = self.targets(st.target)
            return f"SFor [{'; '.join(_s(v) for v in xs)}] {self.e(st.iter)} {self.block(st.body, ind)}"
        if isinstance(st, (ast.With, ast.AsyncWith)):
            if len(st.items) != 1:
                raise Unsupported("with: several items")
            it = st.items[0]
            if it.optional_vars is None:
                y = "None"
            elif isinstance(it.optional_vars, ast.Name):
                y = f"(Some {_s(it.optional_vars.id)})"
            else:
                raise Unsupported("with: target")
            return f"SWith {self.e(it.context_expr)} {y} {self.block(st.body, ind)}"
        raise Unsupported(f"statement {type(st).__name__}")


_CACHE: t.Dict[str, ast.Module] = {}


def _module(file: str) -> ast.Module:
    path = os.path.join(REPO_SRC, file)
    if path not in _CACHE:
        with open(path) as fh:
            _CACHE[path] = ast.parse(fh.read())
    return _CACHE[path]


def translate(k: Flow) -> str:
    func = _find_func(_module(k.file), k.func)
    tr = FlowTranslator(func)
    body = tr.block(func.body, 2)
    kind = "async def" if isinstance(func, ast.AsyncFunctionDef) else "def"
    text = (f"(* {k.file} :: {kind} {k.func}({', '.join(tr.params)}) : whole body *)\n"
            f"Definition {k.name} : pfun :=\n  {{| pf_params := [{'; '.join(_s(p) for p in tr.params)}];\n     pf_body := {body} |}}.\n")
    # default values of the parameters (evaluated once, at definition time, in Python): regenerated next to the body so that a
    # tie or a theorem can speak about them; a function without defaults gets no such definition
    a = func.args
    pos = a.args
    dfl = [(p.arg, d) for p, d in zip(pos[len(pos) - len(a.defaults):], a.defaults)]
    dfl += [(p.arg, d) for p, d in zip(a.kwonlyargs, a.kw_defaults) if d is not None]
    if dfl:
        items = "; ".join(f"({_s(n)}, {tr.e(d)})" for n, d in dfl)
        text += f"Definition {k.name}_defaults : list (string * pexp) := [{items}].\n"
    return text
