"""Kernel extractor (K): regenerates coq/gen/Kernels.v from /repo's current Python source.

For each kernel spec the translator locates one expression in the current AST by a structural
selector (function qualname + n-th assignment to a name / n-th if/while test / n-th return /
argument of a call), translates it to a Gallina term over Z / bool and emits a Definition.
It is fail-closed: an unsupported AST node, a selector miss or an unexpected free name makes the
kernel "not located"; the committed fallback text (coq/gen_fallback/<name>.v) is used instead
and the caller is told so.
"""
from __future__ import annotations

import ast
import os
import typing as t

REPO_SRC = os.environ.get("VERIF_REPO_SRC", os.path.join(os.environ.get("VERIF_REPO", "/repo"), "src", "dpapi_ng"))
HERE = os.path.dirname(os.path.abspath(__file__))
COQ = os.path.join(os.path.dirname(HERE), "coq")


class Unsupported(Exception):
    pass


class Kernel(t.NamedTuple):
    name: str
    file: str
    func: str  # qualname, e.g. "KeyCache._get_key"
    sel: tuple  # ("assign", var, n) | ("if", n) | ("while", n) | ("return", n) | ("augassign", var, n) | ("callarg", callee, n_call, argidx_or_kw)
    params: t.List[t.Tuple[str, str]]  # [(name, "Z"|"bool")]
    ty: str = "Z"  # result type: Z | bool | tuple types like "(Z * Z)"
    inline_locals: bool = True
    props: t.Tuple[str, ...] = ()
    calls: t.Tuple[t.Tuple[str, str], ...] = ()  # zero-argument calls treated as parameters


def _find_func(tree: ast.Module, qualname: str) -> ast.AST:
    node: ast.AST = tree
    for part in qualname.split("."):
        for child in ast.iter_child_nodes(node):
            if isinstance(child, (ast.FunctionDef, ast.AsyncFunctionDef, ast.ClassDef)) and child.name == part:
                node = child
                break
        else:
            raise Unsupported(f"no {part} in {qualname}")
    return node


def _walk_own(func: ast.AST):
    """Walk statements of the function body, not descending into nested defs."""
    stack = list(reversed(func.body))
    while stack:
        n = stack.pop()
        yield n
        kids = []
        for fld in ("body", "handlers", "orelse", "finalbody"):
            sub = getattr(n, fld, None)
            if isinstance(sub, list) and not isinstance(n, (ast.FunctionDef, ast.AsyncFunctionDef, ast.ClassDef)):
                kids.extend(sub)
        stack.extend(reversed(kids))


def _select(func: ast.AST, sel: tuple) -> ast.AST:
    kind = sel[0]
    count = 0
    for st in _walk_own(func):
        if kind == "assign" and isinstance(st, (ast.Assign, ast.AnnAssign)):
            targets = st.targets if isinstance(st, ast.Assign) else [st.target]
            if len(targets) == 1 and isinstance(targets[0], ast.Name) and targets[0].id == sel[1]:
                if count == sel[2]:
                    if st.value is None:
                        raise Unsupported("annotation without value")
                    return st.value
                count += 1
        elif kind == "augassign" and isinstance(st, ast.AugAssign):
            if isinstance(st.target, ast.Name) and st.target.id == sel[1]:
                if count == sel[2]:
                    return ast.BinOp(left=ast.Name(id=sel[1], ctx=ast.Load()), op=st.op, right=st.value)
                count += 1
        elif kind == "if" and isinstance(st, ast.If):
            if count == sel[1]:
                return st.test
            count += 1
        elif kind == "if_mentions" and isinstance(st, ast.If):
            # the n-th `if` whose test mentions the given text (robust against new statements in front of it)
            if sel[1] in ast.unparse(st.test):
                if count == sel[2]:
                    return st.test
                count += 1
        elif kind == "while" and isinstance(st, ast.While):
            if count == sel[1]:
                return st.test
            count += 1
        elif kind == "return" and isinstance(st, ast.Return):
            if count == sel[1]:
                if st.value is None:
                    raise Unsupported("bare return")
                return st.value
            count += 1
        elif kind == "lambda":
            for sub in ast.walk(st):
                if isinstance(sub, ast.Lambda):
                    if count == sel[1]:
                        return sub.body
                    count += 1
        elif kind == "callarg":
            for sub in ast.walk(st):
                if isinstance(sub, ast.Call) and _callee(sub) == sel[1]:
                    if count == sel[2]:
                        key = sel[3]
                        if isinstance(key, int):
                            if key < len(sub.args):
                                return sub.args[key]
                            raise Unsupported("call has too few positional args")
                        for kw in sub.keywords:
                            if kw.arg == key:
                                return kw.value
                        raise Unsupported(f"call has no keyword {key}")
                    count += 1
    raise Unsupported(f"selector {sel} not found")


def _callee(call: ast.Call) -> str:
    f = call.func
    parts = []
    while isinstance(f, ast.Attribute):
        parts.append(f.attr)
        f = f.value
    if isinstance(f, ast.Name):
        parts.append(f.id)
    else:
        parts.append("?")
    return ".".join(reversed(parts))


def _dotted(e: ast.AST) -> t.Optional[str]:
    parts = []
    while isinstance(e, ast.Attribute):
        parts.append(e.attr)
        e = e.value
    if isinstance(e, ast.Name):
        parts.append(e.id)
        return "_".join(reversed(parts))
    return None


class Translator:
    def __init__(self, module: ast.Module, func: ast.AST, params: t.Dict[str, str], inline_locals: bool,
                 calls: t.Dict[str, str] = {}):
        self.calls = calls
        self.module = module
        self.func = func
        self.params = params
        self.inline_locals = inline_locals
        self.depth = 0

    # -- name resolution ------------------------------------------------------------------
    def _module_const(self, name: str) -> t.Optional[ast.AST]:
        for st in self.module.body:
            if isinstance(st, ast.Assign) and len(st.targets) == 1 and isinstance(st.targets[0], ast.Name):
                if st.targets[0].id == name:
                    return st.value
        return None

    def _local_const(self, name: str) -> t.Optional[ast.AST]:
        """A local assigned exactly once in the function (used for `base = 360000000000`)."""
        found = []
        for st in _walk_own(self.func):
            if isinstance(st, ast.Assign) and len(st.targets) == 1 and isinstance(st.targets[0], ast.Name):
                if st.targets[0].id == name:
                    found.append(st.value)
            elif isinstance(st, ast.AugAssign) and isinstance(st.target, ast.Name) and st.target.id == name:
                return None
        if len(found) == 1:
            return found[0]
        return None

    def name(self, ident: str, want: str) -> str:
        if ident not in self.params and getattr(self, "alpha", None) is not None:
            # alpha mode (second attempt after a free name was met): an identifier that is neither a declared parameter nor a constant
            # is bound to the next declared parameter that does not occur under its own name, in order of first occurrence
            if ident in self.alpha:
                ident = self.alpha[ident]
            elif self._resolvable(ident) is False and self.alpha_pool:
                self.alpha[ident] = self.alpha_pool.pop(0)
                ident = self.alpha[ident]
        if ident in self.params:
            have = self.params[ident]
            if have == want:
                return ident
            if have == "Z" and want == "bool":
                return f"(negb ({ident} =? 0))"
            if have == "list Z" and want == "bool":
                return f"(negb (Nat.eqb (length {ident}) 0))"
            raise Unsupported(f"{ident} : {have} used as {want}")
        self.depth += 1
        if self.depth > 20:
            raise Unsupported("inlining too deep")
        try:
            if self.inline_locals:
                v = self._local_const(ident)
                if v is not None:
                    return self.z(v) if want == "Z" else self.b(v)
            v = self._module_const(ident)
            if v is not None:
                return self.z(v) if want == "Z" else self.b(v)
        finally:
            self.depth -= 1
        raise Unsupported(f"free name {ident}")

    def _resolvable(self, ident: str) -> bool:
        if self.inline_locals and self._local_const(ident) is not None:
            return True
        return self._module_const(ident) is not None

    # -- integer expressions --------------------------------------------------------------
    def z(self, e: ast.AST) -> str:
        if isinstance(e, ast.Constant):
            if isinstance(e.value, bool) or not isinstance(e.value, int):
                raise Unsupported(f"constant {e.value!r}")
            return f"({e.value})" if e.value < 0 else str(e.value)
        if isinstance(e, ast.Name):
            return self.name(e.id, "Z")
        if isinstance(e, ast.Attribute):
            d = _dotted(e)
            if d is None:
                raise Unsupported("attribute base")
            return self.name(d, "Z")
        if isinstance(e, ast.UnaryOp) and isinstance(e.op, ast.USub):
            return f"(- {self.z(e.operand)})"
        if isinstance(e, ast.UnaryOp) and isinstance(e.op, ast.UAdd):
            return self.z(e.operand)
        if isinstance(e, ast.BinOp):
            if isinstance(e.op, ast.Div):
                raise Unsupported("true division outside int()/math.ceil()")
            ops = {
                ast.Add: "({} + {})",
                ast.Sub: "({} - {})",
                ast.Mult: "({} * {})",
                ast.FloorDiv: "({} / {})",
                ast.Mod: "({} mod {})",
                ast.LShift: "(Z.shiftl {} {})",
                ast.RShift: "(Z.shiftr {} {})",
                ast.BitAnd: "(Z.land {} {})",
                ast.BitOr: "(Z.lor {} {})",
                ast.BitXor: "(Z.lxor {} {})",
                ast.Pow: "({} ^ {})",
            }
            for k, fmt in ops.items():
                if isinstance(e.op, k):
                    return fmt.format(self.z(e.left), self.z(e.right))
            raise Unsupported(f"binop {type(e.op).__name__}")
        if isinstance(e, ast.Call):
            callee = _callee(e)
            if callee in self.calls and not e.args and not e.keywords:
                return self.name(self.calls[callee], "Z")
            if callee == "len" and len(e.args) == 1:
                d = _dotted(e.args[0])
                if d is None:
                    raise Unsupported("len of non-name")
                return self.name("len_" + d, "Z")
            if callee in ("int", "math.ceil", "math.floor") and len(e.args) == 1 and not e.keywords:
                a = e.args[0]
                if isinstance(a, ast.BinOp) and isinstance(a.op, ast.Div):
                    fn = "py_truediv_ceil" if callee == "math.ceil" else "py_truediv_trunc"
                    return f"({fn} {self.z(a.left)} {self.z(a.right)})"
                if callee == "int":
                    return self.z(a)
                raise Unsupported(f"{callee} of non-division")
            if callee in ("max", "min") and len(e.args) == 2:
                return f"(Z.{callee} {self.z(e.args[0])} {self.z(e.args[1])})"
            raise Unsupported(f"call {callee}")
        if isinstance(e, ast.IfExp):
            return f"(if {self.b(e.test)} then {self.z(e.body)} else {self.z(e.orelse)})"
        raise Unsupported(f"node {type(e).__name__}")

    # -- boolean expressions --------------------------------------------------------------
    def b(self, e: ast.AST) -> str:
        if isinstance(e, ast.Constant) and isinstance(e.value, bool):
            return "true" if e.value else "false"
        if isinstance(e, ast.BoolOp):
            op = " && " if isinstance(e.op, ast.And) else " || "
            return "(" + op.join(self.b(v) for v in e.values) + ")"
        if isinstance(e, ast.UnaryOp) and isinstance(e.op, ast.Not):
            return f"(negb {self.b(e.operand)})"
        if isinstance(e, ast.Compare):
            parts = []
            left = e.left
            for op, right in zip(e.ops, e.comparators):
                fm = {
                    ast.Lt: "({} <? {})",
                    ast.LtE: "({} <=? {})",
                    ast.Gt: "({} >? {})",
                    ast.GtE: "({} >=? {})",
                    ast.Eq: "({} =? {})",
                    ast.NotEq: "(negb ({} =? {}))",
                }.get(type(op))
                if fm is None:
                    raise Unsupported(f"compare {type(op).__name__}")
                parts.append(fm.format(self.z(left), self.z(right)))
                left = right
            return "(" + " && ".join(parts) + ")" if len(parts) > 1 else parts[0]
        if isinstance(e, ast.Name):
            return self.name(e.id, "bool")
        if isinstance(e, ast.Attribute):
            d = _dotted(e)
            if d is None:
                raise Unsupported("attribute base")
            return self.name(d, "bool")
        if isinstance(e, (ast.BinOp, ast.Call, ast.UnaryOp, ast.Constant)):
            # an int-valued expression used as a truth value
            return f"(negb ({self.z(e)} =? 0))"
        raise Unsupported(f"bool node {type(e).__name__}")

    def s(self, e: ast.AST) -> str:
        """str-valued expressions as lists of code points"""
        if isinstance(e, ast.Constant) and isinstance(e.value, str):
            return "[" + "; ".join(str(ord(c)) for c in e.value) + "]"
        if isinstance(e, ast.JoinedStr):
            parts = []
            for v in e.values:
                if isinstance(v, ast.Constant):
                    parts.append(self.s(v))
                elif isinstance(v, ast.FormattedValue) and v.conversion == -1 and v.format_spec is None:
                    parts.append(self.s(v.value))
                else:
                    raise Unsupported("format spec in f-string")
            return "(" + " ++ ".join(parts or ["[]"]) + ")"
        if isinstance(e, ast.Name):
            return self.name(e.id, "list Z")
        if isinstance(e, ast.BinOp) and isinstance(e.op, ast.Add):
            return f"({self.s(e.left)} ++ {self.s(e.right)})"
        raise Unsupported(f"str node {type(e).__name__}")

    def any(self, e: ast.AST, ty: str) -> str:
        if ty == "Z":
            return self.z(e)
        if ty == "list Z":
            return self.s(e)
        if ty == "bool":
            return self.b(e)
        if ty.startswith("("):  # tuple type "(Z * Z)"
            comps = [c.strip() for c in ty.strip("()").split("*")]
            if not isinstance(e, ast.Tuple) or len(e.elts) != len(comps):
                raise Unsupported("tuple shape")
            return "(" + ", ".join(self.any(x, c) for x, c in zip(e.elts, comps)) + ")"
        raise Unsupported(f"type {ty}")


class FuncKernel(t.NamedTuple):
    """A whole function translated statement by statement (control skeleton) over an abstract
    key type K and an abstract kdf : K -> Z -> Z -> K."""

    name: str
    file: str
    func: str
    params: t.List[t.Tuple[str, str]]  # Gallina binders in order, types Z | bool | K
    locals: t.Dict[str, str]  # python local -> type
    attr_params: t.Dict[str, str]  # dotted attribute (rk_l1) -> param name
    props: t.Tuple[str, ...] = ()
    # expected constant arguments of kdf(...) / compute_kdf_context(...)
    kdf_shape: t.Tuple[str, ...] = ("algorithm", "KDS_SERVICE_LABEL", "64")
    ctx_shape: t.Tuple[str, ...] = ("rk.root_key_identifier", "rk.l0")
    sel: tuple = ("function",)
    ty: str = "res K"


class FuncTranslator(Translator):
    def __init__(self, module, func, spec: FuncKernel):
        super().__init__(module, func, dict(spec.params), inline_locals=False)
        self.spec = spec
        self.defined: t.Dict[str, str] = {}

    def name(self, ident: str, want: str) -> str:
        if ident in self.defined:
            have = self.defined[ident]
            if have == want:
                return ident
            if have == "Z" and want == "bool":
                return f"(negb ({ident} =? 0))"
            raise Unsupported(f"{ident} : {have} used as {want}")
        if ident in self.spec.attr_params:
            ident = self.spec.attr_params[ident]
        return super().name(ident, want)

    def key(self, e: ast.AST) -> str:
        if isinstance(e, ast.Name):
            return self.name(e.id, "K")
        if isinstance(e, ast.Attribute):
            d = _dotted(e)
            if d is None:
                raise Unsupported("attribute base")
            return self.name(d, "K")
        if isinstance(e, ast.Call) and _callee(e) == "kdf" and len(e.args) == 5 and not e.keywords:
            if ast.unparse(e.args[0]) != self.spec.kdf_shape[0] or ast.unparse(e.args[2]) != self.spec.kdf_shape[1] \
                    or ast.unparse(e.args[4]) != self.spec.kdf_shape[2]:
                raise Unsupported("kdf(...) called with unexpected algorithm/label/length")
            c = e.args[3]
            if not (isinstance(c, ast.Call) and _callee(c) == "compute_kdf_context" and len(c.args) == 4 and not c.keywords):
                raise Unsupported("kdf context is not compute_kdf_context(...)")
            if ast.unparse(c.args[0]) != self.spec.ctx_shape[0] or ast.unparse(c.args[1]) != self.spec.ctx_shape[1]:
                raise Unsupported("compute_kdf_context called with unexpected key id / l0")
            return f"(kdf {self.key(e.args[1])} {self.z(c.args[2])} {self.z(c.args[3])})"
        raise Unsupported(f"key expression {type(e).__name__}")

    def typed(self, e: ast.AST, ty: str) -> str:
        return {"Z": self.z, "bool": self.b, "K": self.key}[ty](e)

    def _assigned(self, body: t.Sequence[ast.stmt]) -> t.List[str]:
        out: t.List[str] = []
        for st in body:
            if isinstance(st, ast.Assign) and len(st.targets) == 1 and isinstance(st.targets[0], ast.Name):
                v = st.targets[0].id
            elif isinstance(st, ast.AugAssign) and isinstance(st.target, ast.Name):
                v = st.target.id
            elif isinstance(st, ast.Expr) and isinstance(st.value, ast.Constant) and isinstance(st.value.value, str):
                continue
            else:
                raise Unsupported(f"statement {type(st).__name__} in a simple block")
            if v not in out:
                out.append(v)
        return out

    def _tuple(self, vs: t.Sequence[str]) -> str:
        return vs[0] if len(vs) == 1 else "(" + ", ".join(vs) + ")"

    def _pat(self, vs: t.Sequence[str]) -> str:
        return vs[0] if len(vs) == 1 else "'(" + ", ".join(vs) + ")"

    def simple_block(self, body: t.Sequence[ast.stmt], result: str) -> str:
        """straight-line assignments ending in `result` (a Gallina term)"""
        out = []
        for st in body:
            if isinstance(st, ast.Expr):
                continue
            if isinstance(st, ast.Assign):
                v = st.targets[0].id
                ty = self.spec.locals.get(v)
                if ty is None:
                    raise Unsupported(f"unexpected local {v}")
                out.append(f"let {v} := {self.typed(st.value, ty)} in")
                self.defined[v] = ty
            elif isinstance(st, ast.AugAssign):
                v = st.target.id
                if self.defined.get(v) != "Z":
                    raise Unsupported(f"augmented assignment to {v}")
                rhs = self.z(ast.BinOp(left=ast.Name(id=v, ctx=ast.Load()), op=st.op, right=st.value))
                out.append(f"let {v} := {rhs} in")
        return " ".join(out + [result])

    def block(self, body: t.Sequence[ast.stmt], depth: int = 1) -> str:
        ind = "  " * depth
        if not body:
            raise Unsupported("function falls off the end")
        st, rest = body[0], body[1:]
        if isinstance(st, ast.Expr) and isinstance(st.value, ast.Constant) and isinstance(st.value.value, str):
            return self.block(rest, depth)
        if isinstance(st, ast.Return):
            if st.value is None:
                raise Unsupported("bare return")
            return f"{ind}Ok {self.key(st.value)}"
        if isinstance(st, (ast.Assign, ast.AugAssign)):
            line = self.simple_block([st], "")
            return f"{ind}{line.strip()}\n" + self.block(rest, depth)
        if isinstance(st, ast.If):
            if len(st.body) == 1 and isinstance(st.body[0], ast.Raise) and not st.orelse:
                exc = st.body[0].exc
                nm = _callee(exc) if isinstance(exc, ast.Call) else (exc.id if isinstance(exc, ast.Name) else "?")
                if nm not in ("ValueError", "NotImplementedError"):
                    raise Unsupported(f"raise {nm}")
                return f"{ind}if {self.b(st.test)} then Raise {nm} else\n" + self.block(rest, depth)
            if st.orelse:
                raise Unsupported("if/else")
            vs = self._assigned(st.body)
            for v in vs:
                if v not in self.defined:
                    raise Unsupported(f"{v} assigned only inside if")
            test = self.b(st.test)
            saved = dict(self.defined)
            inner = self.simple_block(st.body, self._tuple(vs))
            self.defined = saved
            return f"{ind}let {self._pat(vs)} := if {test} then ({inner}) else {self._tuple(vs)} in\n" + self.block(rest, depth)
        if isinstance(st, ast.While):
            if st.orelse:
                raise Unsupported("while/else")
            vs = self._assigned(st.body)
            for v in vs:
                if v not in self.defined:
                    raise Unsupported(f"{v} assigned only inside while")
            saved = dict(self.defined)
            test = self.b(st.test)
            inner = self.simple_block(st.body, self._tuple(vs))
            self.defined = saved
            fn = "fun " + (self._pat(vs) if len(vs) > 1 else vs[0]) + " =>"
            return (f"{ind}let* {self._tuple(vs)} := while fuel ({fn} {test}) ({fn} {inner}) {self._tuple(vs)} in\n"
                    + self.block(rest, depth))
        raise Unsupported(f"statement {type(st).__name__}")


def translate_func(k: FuncKernel) -> str:
    mod = _module(k.file)
    func = _find_func(mod, k.func)
    tr = FuncTranslator(mod, func, k)
    body = tr.block(func.body)
    binders = " ".join(f"({n} : {ty})" for n, ty in k.params)
    return (f"(* {k.file} :: {k.func} : statement-level translation of the whole body *)\n"
            f"Section {k.name}_sec.\nContext {{K : Type}} (kdf : K -> Z -> Z -> K).\n"
            f"Definition {k.name} (fuel : nat) {binders} : res K :=\n{body}.\nEnd {k.name}_sec.\n")


_AST_CACHE: t.Dict[str, ast.Module] = {}


def _module(file: str) -> ast.Module:
    path = os.path.join(REPO_SRC, file)
    if path not in _AST_CACHE:
        with open(path) as fh:
            _AST_CACHE[path] = ast.parse(fh.read())
    return _AST_CACHE[path]


def translate(k: Kernel) -> str:
    mod = _module(k.file)
    func = _find_func(mod, k.func)
    if k.sel[0] == "custom":
        # a structural (shape) kernel: sel[1](function_ast) returns (gallina_body, python_source) or raises Unsupported
        body, src = k.sel[1](func)
        binders = " ".join(f"({n} : {ty})" for n, ty in k.params)
        return f"(* {k.file} :: {k.func} :: shape kernel :  {src} *)\nDefinition {k.name} {binders} : {k.ty} :=\n  {body}.\n"
    expr = _select(func, k.sel)
    tr = Translator(mod, func, dict(k.params), k.inline_locals, dict(k.calls))
    note = ""
    try:
        body = tr.any(expr, k.ty)
    except Unsupported as first:
        if not str(first).startswith("free name"):
            raise
        # the expression may be the declared one up to a renaming of locals: bind the unknown identifiers to the declared parameters
        # that do not occur under their own name, by order of first occurrence; all of them must be used, otherwise give up
        idents = set()
        for n in ast.walk(expr):
            if isinstance(n, ast.Name):
                idents.add(n.id)
            d = _dotted(n) if isinstance(n, ast.Attribute) else None
            if d:
                idents.add(d)
                idents.add("len_" + d)
            if isinstance(n, ast.Name):
                idents.add("len_" + n.id)
        pool = [p for p, _ in k.params if p not in idents]
        tr = Translator(mod, func, dict(k.params), k.inline_locals, dict(k.calls))
        tr.alpha, tr.alpha_pool = {}, list(pool)
        try:
            body = tr.any(expr, k.ty)
        except Unsupported:
            raise first
        if tr.alpha_pool or not tr.alpha:
            raise first
        note = " (locals renamed: " + ", ".join(f"{a} = {b}" for a, b in tr.alpha.items()) + ")"
    binders = " ".join(f"({n} : {ty})" for n, ty in k.params)
    src = ast.unparse(expr)
    return f"(* {k.file} :: {k.func} :: {k.sel!r} :  {src}{note} *)\nDefinition {k.name} {binders} : {k.ty} :=\n  {body}.\n"


def python_source(k: Kernel) -> str:
    mod = _module(k.file)
    func = _find_func(mod, k.func)
    if k.sel[0] == "custom":
        return k.sel[1](func)[1]
    return ast.unparse(_select(func, k.sel))


HEADER = """(* GENERATED on every run by vlib/kernels.py from /repo/src/dpapi_ng -- do not edit. *)
From Coq Require Import ZArith Bool.
From V Require Import Prelude.Base Prelude.Loops Prelude.TrueDiv.
Open Scope Z_scope.

"""


def generate(kernels=None) -> t.Dict[str, dict]:
    """Writes coq/gen/<file>.v per area (only when content changes). Returns per-kernel status.
    A kernel that is not located falls back to coq/gen_fallback/<name>.v; without a fallback it is
    omitted (only that area's model then fails to build)."""
    from . import kernel_table as _kt

    _AST_CACHE.clear()
    status: t.Dict[str, dict] = {}
    for area, mod in _kt.areas().items():
        if isinstance(mod, Exception):
            status[f"ktab_{area}"] = {"located": False, "reason": f"table import failed: {mod}", "text": ""}
            continue
        out = [HEADER]
        for k in getattr(mod, "KERNELS", []):
            fb_path = os.path.join(COQ, "gen_fallback", k.name + ".v")
            try:
                if isinstance(k, FuncKernel):
                    text = translate_func(k)
                    status[k.name] = {"located": True, "source": f"<whole body of {k.func}>"}
                else:
                    text = translate(k)
                    status[k.name] = {"located": True, "source": python_source(k)}
            except Exception as exc:  # noqa: BLE001  (any failure of a translator on changed source = this kernel is not located)
                status[k.name] = {"located": False, "reason": f"{type(exc).__name__}: {exc}" if not isinstance(exc, Unsupported) else str(exc)}
                if os.path.exists(fb_path):
                    with open(fb_path) as fh:
                        text = fh.read()
                else:
                    status[k.name]["reason"] += " (no committed fallback: omitted)"
                    text = f"(* kernel {k.name} not located and no fallback *)\n"
            status[k.name]["text"] = text
            status[k.name]["props"] = list(k.props)
            out.append(text + "\n")
        for prop, file, fsync, fasync, ren in getattr(mod, "TWINS", []):
            same, why = same_modulo_async(file, fsync, fasync, ren)
            nm = "twin_" + fsync.strip("_").replace(".", "_")
            status[nm] = {"located": True, "source": f"{file}: {fsync} vs {fasync}: {why}", "same": same, "props": [prop]}
            cmt = why.replace("(*", "( *").replace("*)", "* )")
            out.append(f"(* {file}: {fsync} and {fasync} compared as normalised ASTs: {cmt} *)\n"
                       f"Definition {nm} : bool := {'true' if same else 'false'}.\n\n")
        _write_if_changed(os.path.join(COQ, "gen", _kt.kernel_file(area)), "".join(out))
        # whole functions as deep-embedded syntax (vlib/flow.py -> Prelude/PyAst.v)
        flows = list(getattr(mod, "FLOWS", []))
        if flows:
            from . import flow as _flow

            _flow._CACHE.clear()
            fout = [_flow.HEADER]
            for k in flows:
                fb_path = os.path.join(COQ, "gen_fallback", k.name + ".v")
                try:
                    text = _flow.translate(k)
                    status[k.name] = {"located": True, "source": f"<whole body of {k.file}::{k.func} as Prelude/PyAst syntax>"}
                except Exception as exc:  # noqa: BLE001
                    status[k.name] = {"located": False, "reason": f"{type(exc).__name__}: {exc}" if not isinstance(exc, Unsupported) else str(exc)}
                    if os.path.exists(fb_path):
                        with open(fb_path) as fh:
                            text = fh.read()
                    else:
                        status[k.name]["reason"] += " (no committed fallback: omitted)"
                        text = f"(* flow {k.name} not translated and no fallback *)\n"
                status[k.name]["text"] = text
                status[k.name]["props"] = list(k.props)
                fout.append(text + "\n")
            if getattr(mod, "FLOW_INDEX", None):
                # an index of the area's flows by Python name (used by the semantics self-test)
                items = "; ".join(f'("{k.func}", {k.name})' for k in flows if status[k.name]["located"])
                fout.append(f"Definition {mod.FLOW_INDEX} : list (string * pfun) := [{items}].\n")
            _write_if_changed(os.path.join(COQ, "gen", _kt.flow_file(area)), "".join(fout))
    return status


def _write_if_changed(path: str, new: str) -> None:
    old = None
    if os.path.exists(path):
        with open(path) as fh:
            old = fh.read()
    if old != new:
        os.makedirs(os.path.dirname(path), exist_ok=True)
        with open(path, "w") as fh:
            fh.write(new)


def same_modulo_async(file: str, sync_name: str, async_name: str, renames: t.Dict[str, str]) -> t.Tuple[bool, str]:
    """Normalised-AST comparison of a sync function and its async twin: `await` dropped,
    `async with`/`async for` -> plain, names renamed by `renames` (async spelling -> sync spelling),
    docstrings dropped. Returns (equal, reason)."""
    _AST_CACHE.pop(os.path.join(REPO_SRC, file), None)
    try:
        mod = _module(file)
        fs = _find_func(mod, sync_name)
        fa = _find_func(mod, async_name)
    except (Unsupported, OSError, SyntaxError) as exc:
        return False, f"not located: {exc}"

    class Norm(ast.NodeTransformer):
        def visit_Await(self, node):
            return self.visit(node.value)

        def visit_AsyncWith(self, node):
            self.generic_visit(node)
            return ast.With(items=node.items, body=node.body)

        def visit_AsyncFor(self, node):
            self.generic_visit(node)
            return ast.For(target=node.target, iter=node.iter, body=node.body, orelse=node.orelse)

        def visit_Name(self, node):
            return ast.Name(id=renames.get(node.id, node.id), ctx=node.ctx)

        def visit_Call(self, node):
            self.generic_visit(node)
            # self._wrap_sync(f, *args)  ->  f(*args)
            if isinstance(node.func, ast.Attribute) and node.func.attr == "_wrap_sync" and node.args:
                return ast.Call(func=node.args[0], args=node.args[1:], keywords=node.keywords)
            return node

        def visit_Attribute(self, node):
            self.generic_visit(node)
            return ast.Attribute(value=node.value, attr=renames.get(node.attr, node.attr), ctx=node.ctx)

    def norm(f):
        body = list(f.body)
        if body and isinstance(body[0], ast.Expr) and isinstance(body[0].value, ast.Constant) and isinstance(body[0].value.value, str):
            body = body[1:]
        m = ast.Module(body=[Norm().visit(b) for b in body], type_ignores=[])
        args = ast.unparse(f.args)
        return args + "\n" + ast.unparse(ast.fix_missing_locations(m))

    import copy

    a, b = norm(copy.deepcopy(fs)), norm(copy.deepcopy(fa))
    if a == b:
        return True, "identical after normalisation"
    import difflib

    d = "\n".join(list(difflib.unified_diff(a.split("\n"), b.split("\n"), lineterm="", n=0))[:12])
    return False, d


def write_fallbacks(kernels=None) -> None:
    """Commit-time helper: store the current translation of every located kernel as its fallback."""
    from . import kernel_table as _kt

    os.makedirs(os.path.join(COQ, "gen_fallback"), exist_ok=True)
    for k in _kt.all_kernels():
        try:
            text = translate_func(k) if isinstance(k, FuncKernel) else translate(k)
        except Unsupported as exc:
            print("not located:", k.name, exc)
            continue
        with open(os.path.join(COQ, "gen_fallback", k.name + ".v"), "w") as fh:
            fh.write(text)
    from . import flow as _flow

    for area, mod in _kt.areas().items():
        if isinstance(mod, Exception):
            continue
        for k in getattr(mod, "FLOWS", []):
            try:
                text = _flow.translate(k)
            except Unsupported as exc:
                print("not translated:", k.name, exc)
                continue
            with open(os.path.join(COQ, "gen_fallback", k.name + ".v"), "w") as fh:
                fh.write(text)
