"""Generic check flow shared by all properties (DESIGN.md section 3.3 / 5)."""
from __future__ import annotations

import importlib
import json
import os
import random
import sys
import time
import traceback
import typing as t

from . import core, kernel_table
from .val import Err, dec, enc


class Unit(t.NamedTuple):
    """One correspondence unit: the same cases go to the extracted model and the implementation."""

    name: str  # reporting name
    model_unit: str  # key in coq/Model/Units.v
    cases: t.Sequence[t.Any]  # python values (encoded with val.enc)
    impl: t.Callable[[t.Any], t.Any]  # runs the implementation on one case
    # optional predicate evaluating the *property* on the implementation's own output for this case:
    # returns None when it holds, else a short text. Used to decide whether a disagreement is a
    # failing input of the property (see DESIGN 3.2 S).
    prop_pred: t.Optional[t.Callable[[t.Any, t.Any], t.Optional[str]]] = None
    nontrivial: t.Optional[t.Callable[[t.Any, str], bool]] = None  # (arg, impl_out_text) -> counts as non-trivial
    bucket: t.Optional[t.Callable[[str], str]] = None  # canonicalise outputs before diffing
    # False: the predicate is meaningful only on model/implementation DISAGREEMENTS (e.g. under the symbolic crypto a bit flip inside a
    # serialised term is a valid image of another plaintext: integrity is not a property of that world), so it is not swept
    sweep: bool = True


class Ctx:
    def __init__(self, prop: str, tier: str, seed: int):
        self.prop = prop
        self.tier = tier
        self.seed = seed
        self.rng = random.Random(f"{prop}:{seed}")
        self.t0 = time.time()
        self.violations: t.List[dict] = []
        self.known: t.List[str] = []
        self.known_detail: t.List[dict] = []
        self.notes: t.List[str] = []
        self.corr: t.Dict[str, dict] = {}
        self.impl_outputs: t.Dict[str, t.Tuple[t.Any, list]] = {}  # unit name -> (unit, [(case, implementation output text)])
        self.samples: t.List[t.Any] = []
        self.distinct: t.Set[str] = set()
        self.evaluations = 0
        self.obligations: t.List[dict] = []
        self.kernels: t.Dict[str, dict] = {}
        self.oracle_runs = 0
        self.extra: t.Dict[str, t.Any] = {}
        self.area = "core"

    @property
    def thorough(self) -> bool:
        return self.tier == "thorough"

    def n(self, quick: int, thorough: int) -> int:
        return thorough if self.thorough else quick

    # -- reporting ---------------------------------------------------------------------------
    def violation(self, kind: str, broken: str, detail: dict, key: t.Optional[str] = None) -> None:
        """kind: 'failing-input' | 'no-failing-input-found'"""
        for kf in core.known_findings():
            if kf["property"] == self.prop and key is not None and kf["key"] == key:
                line = f"KNOWN-FINDING: property={self.prop} {kf['text']}"
                if line not in self.known:
                    self.known.append(line)
                    # the suppressed failure is part of what this run observed: it goes into the evidence, with its input
                    self.known_detail.append({"key": key, "kind": kind, "broken": broken, "why": str(detail.get("why"))[:600],
                                              "input": str(detail.get("input"))[:4000], "listed_as": kf["text"][:300]})
                return
        self.violations.append({"kind": kind, "broken": broken, "detail": detail, "key": key})

    def write_replays(self) -> t.List[t.Tuple[str, dict]]:
        out = []
        os.makedirs(os.path.join(core.VERIF, "replays"), exist_ok=True)
        # one failing input is enough to decide; keep at most 5 replays per run, failing inputs first
        vs = sorted(self.violations, key=lambda v: 0 if v["kind"] == "failing-input" else 1)[:5]
        for i, v in enumerate(vs):
            path = os.path.join(core.VERIF, "replays", f"{self.prop}_{self.tier}_{i}.json")
            doc = {"property": self.prop, "kind": v["kind"], "broken": v["broken"], **v["detail"],
                   "replay_cmd": f"./check replay {path}"}
            with open(path, "w") as fh:
                json.dump(doc, fh, indent=1, default=str)
            out.append((path, v))
        return out


def _model_bucket(u: Unit, text: str) -> str:
    return u.bucket(text) if u.bucket else text


def run_units(ctx: Ctx, units: t.Sequence[Unit]) -> None:
    """Runs every unit on both sides, records disagreements as violations."""
    all_cases: t.List[t.Tuple[str, str]] = []
    index: t.List[t.Tuple[int, int]] = []
    for ui, u in enumerate(units):
        for ci, c in enumerate(u.cases):
            all_cases.append((u.model_unit, enc(c)))
            index.append((ui, ci))
    model_out = core.run_model(all_cases, area=ctx.area)
    pos = 0
    for ui, u in enumerate(units):
        st = {"cases": len(u.cases), "disagreements": 0, "impl_errors": {}, "sizes": {}}
        dis = 0
        found_failing = False
        nff = 0
        for ci, c in enumerate(u.cases):
            m = model_out[pos]
            pos += 1
            i = core.run_impl(u.impl, c)
            ctx.evaluations += 1
            if u.prop_pred is not None and u.sweep:
                ctx.impl_outputs.setdefault(u.name, (u, []))[1].append((c, i))
            if i.startswith("e"):
                st["impl_errors"][i[1:]] = st["impl_errors"].get(i[1:], 0) + 1
            sz = len(all_cases[pos - 1][1])
            bk = "<=16" if sz <= 16 else "<=128" if sz <= 128 else "<=1024" if sz <= 1024 else ">1024"
            st["sizes"][bk] = st["sizes"].get(bk, 0) + 1
            nt = u.nontrivial(c, i) if u.nontrivial else True
            if nt:
                ctx.distinct.add(u.name + "|" + all_cases[pos - 1][1] if sz < 4096 else u.name + "|" + str(hash(all_cases[pos - 1][1])))
            if ci < 2 and len(ctx.samples) < 12:
                ctx.samples.append({"unit": u.name, "input": all_cases[pos - 1][1][:300], "model": m[:300], "impl": i[:300]})
            if _model_bucket(u, m) != _model_bucket(u, i):
                dis += 1
                # look at disagreements until one of them is a failing input of the property (at most 400 per unit);
                # record at most 3 disagreements that are not
                if not found_failing and dis <= 400:
                    why = None
                    if u.prop_pred is not None:
                        try:
                            why = u.prop_pred(c, dec(i) if not i.startswith("!") else None)
                        except Exception as exc:  # noqa: BLE001
                            why = f"property predicate raised {type(exc).__name__}: {exc}"
                        kind = "failing-input" if why else "no-failing-input-found"
                    else:
                        # the model's output is the proved right answer for this unit
                        kind = "failing-input"
                        why = "implementation output differs from the proved model output"
                    if kind == "failing-input":
                        found_failing = True
                    if kind == "failing-input" or nff < 3:
                        if kind != "failing-input":
                            nff += 1
                        ctx.violation(kind, f"correspondence:{u.name}",
                                      {"unit": u.name, "model_unit": u.model_unit, "input": all_cases[pos - 1][1],
                                       "expected_model": m[:2000], "observed_impl": i[:2000], "why": why},
                                      key=f"{u.name}:{all_cases[pos - 1][1][:80]}")
        st["disagreements"] = dis
        ctx.corr[u.name] = st


def pred_sweep(ctx: Ctx) -> t.Optional[dict]:
    tried = 0
    for name, (u, pairs) in ctx.impl_outputs.items():
        for c, i in pairs:
            tried += 1
            try:
                why = u.prop_pred(c, dec(i) if not i.startswith("!") else None)
            except Exception as exc:  # noqa: BLE001
                why = None
                ctx.notes.append(f"property predicate of {name} raised {type(exc).__name__} during the sweep")
            if why:
                return {"unit": name, "model_unit": u.model_unit, "input": enc(c), "observed_impl": i[:2000], "why": why, "tried": tried, "key": None}
    ctx.notes.append(f"predicate sweep: the property predicate holds on all {tried} implementation outputs of this run")
    return None


ENV_VARIANTS = [
    ("TZ=Pacific/Kiritimati", {"TZ": "Pacific/Kiritimati"}),      # UTC+14
    ("TZ=America/Adak", {"TZ": "America/Adak"}),                  # UTC-10 with DST
    ("python -O", {"PYTHONOPTIMIZE": "1"}),                       # assert statements removed
    ("PYTHONHASHSEED=12345", {"PYTHONHASHSEED": "12345"}),
]


def run_env_matrix(ctx: Ctx) -> None:
    """Process-global state must not matter: a sample of this run's cases (units with a property predicate) is run again in child processes
    started with another time zone, with -O, with another hash seed; an output that differs from the in-process one is judged by the
    predicate (failing input) or reported as an unexplained dependence on the environment."""
    import subprocess

    per_unit = 12 if not ctx.thorough else 60
    variants = ENV_VARIANTS if ctx.thorough else ENV_VARIANTS[:3]
    n_run = 0
    for name, (u, pairs) in ctx.impl_outputs.items():
        if not pairs:
            continue
        idx = sorted(set(list(range(min(4, len(pairs)))) + [ctx.rng.randrange(len(pairs)) for _ in range(per_unit)]))[:per_unit]
        sample = [pairs[i] for i in idx]
        data = "".join(enc(c) + "\n" for c, _ in sample).encode()
        for label, envadd in variants:
            env = dict(os.environ)
            env.update(envadd)
            env["PYTHONPATH"] = core.VERIF + os.pathsep + env.get("PYTHONPATH", "")
            try:
                p = subprocess.run([sys.executable, "-m", "vlib.envrun", ctx.prop, name], input=data, stdout=subprocess.PIPE, stderr=subprocess.PIPE,
                                   env=env, cwd=core.VERIF, timeout=300)
                outs = p.stdout.decode(errors="replace").split("\n")[: len(sample)]
            except subprocess.TimeoutExpired:
                outs = []
            if len(outs) < len(sample):
                ctx.notes.append(f"env matrix: {name} under {label}: child produced {len(outs)} of {len(sample)} outputs")
                continue
            n_run += len(sample)
            for (c, i0), i1 in zip(sample, outs):
                if _model_bucket(u, i0) == _model_bucket(u, i1):
                    continue
                try:
                    why = u.prop_pred(c, dec(i1) if not i1.startswith("!") else None)
                except Exception as exc:  # noqa: BLE001
                    why = None
                    ctx.notes.append(f"env matrix: predicate of {name} raised {type(exc).__name__}")
                kind = "failing-input" if why else "no-failing-input-found"
                ctx.violation(kind, f"environment:{name}",
                              {"unit": name, "model_unit": u.model_unit, "input": enc(c), "environment": label, "observed_in_process": i0[:1000],
                               "observed_impl": i1[:1000], "why": (why or "the output depends on the process environment") + f" (under {label})"},
                              key=f"env:{name}:{label}")
                break
    ctx.extra["env_matrix_cases"] = n_run


def run_flow_semantics(ctx: Ctx) -> None:
    """Properties that rest on flow tie theorems also validate the semantics those theorems are stated in: the functions of
    vlib/pysem_src.py run as regenerated flows in the extracted interpreter (standard world, empty extension) and in CPython."""
    if not any(k.startswith("k_flow_") and ctx.prop in v.get("props", []) for k, v in ctx.kernels.items()):
        return
    from . import pysem

    with core.build_lock():
        r = core.make(["Model/Units_pysem.vo"])
        okm, msg = core.ensure_modelrun("pysem") if r["ok"] else (False, "Model/Units_pysem.vo does not build")
    if not okm:
        ctx.violation("no-failing-input-found", "correspondence:flow.semantics", {"errors": str(r.get("errors") or msg)[:800]})
        return
    area = ctx.area
    ctx.area = "pysem"
    try:
        run_units(ctx, pysem.units(ctx))
    finally:
        ctx.area = area


def build_and_prove(ctx: Ctx, mod) -> bool:
    """Regenerate kernels, build the model and the property's proof cone. Returns True when every
    obligation of the property is discharged."""
    ok = True
    with core.build_lock():
        ctx.kernels = core.regen()
        unlocated = []
        for name, st in ctx.kernels.items():
            if not st["located"]:
                ctx.notes.append(f"kernel {name} not located ({st.get('reason')}); committed fallback definition used")
                if ctx.prop in st.get("props", []):
                    # the theorems of this property would be about the committed fallback text, not about the
                    # current source: the tie is broken, which is reported like a broken proof obligation
                    unlocated.append({"file": "vlib/ktab", "line": 0, "stmt": f"kernel:{name}",
                                      "msg": f"kernel {name} can no longer be located in the source ({st.get('reason')})"})
            elif st.get("same") is False and ctx.prop in st.get("props", []):
                pass  # twins that differ make the twin theorem fail by themselves
        r = core.make([f"Model/Units_{ctx.area}.vo"])
        if not r["ok"]:
            ctx.violation("no-failing-input-found", "model-build", {"errors": r["errors"][:5]})
            ctx.extra["model_build_failed"] = True
            return False
        okm, msg = core.ensure_modelrun(ctx.area)
        if not okm:
            ctx.violation("no-failing-input-found", "modelrun-build", {"errors": msg})
            ctx.extra["model_build_failed"] = True
            return False
        r = core.make([f"Properties/{ctx.prop}.vo"])
        broken_stmts = []
        if not r["ok"]:
            ok = False
            broken_stmts = r["errors"]
    # the statement file is re-compiled (Print Assumptions) into a private directory outside the lock: it only reads the shared
    # tree; if a concurrent build disturbed it, once more under the lock
    pr = core.compile_properties(ctx.prop) if r["ok"] else {"ok": False, "theorems": [], "assumptions": {}, "errors": []}
    if r["ok"] and not pr["ok"]:
        with core.build_lock():
            r2 = core.make([f"Properties/{ctx.prop}.vo"])
            if r2["ok"]:
                pr = core.compile_properties(ctx.prop)
            else:
                r = r2
                ok = False
                broken_stmts = r2["errors"]
    if r["ok"] and not pr["ok"]:
        ok = False
        broken_stmts = pr["errors"]
    hits = core.forbidden_scan(ctx.prop)
    ctx.extra["cone_files"] = len(core.cone(f"Properties/{ctx.prop}.v"))
    if hits:
        ok = False
        broken_stmts = broken_stmts + [{"file": h.split(":")[0], "line": 0, "stmt": "forbidden-token", "msg": h} for h in hits[:5]]
    ths = pr["theorems"] if pr["theorems"] else _declared_theorems(ctx.prop)
    for th in ths:
        discharged = r["ok"] and pr["ok"] and th in pr["assumptions"]
        ctx.obligations.append({"theorem": th, "discharged": bool(discharged), "assumptions": pr["assumptions"].get(th)})
    if unlocated:
        ok = False
        broken_stmts = broken_stmts + unlocated
    # a flow listed under this property must be the subject of at least one theorem of its property file (otherwise the listing
    # claims a tie that nothing checks)
    try:
        psrc = open(os.path.join(core.COQ, "Properties", ctx.prop + ".v")).read()
    except OSError:
        psrc = ""
    import re as _re

    for name, st in ctx.kernels.items():
        if name.startswith("k_flow_") and ctx.prop in st.get("props", []) and not _re.search(r"\b" + _re.escape(name) + r"\b", psrc):
            ok = False
            broken_stmts = broken_stmts + [{"file": f"Properties/{ctx.prop}.v", "line": 0, "stmt": f"flow:{name}",
                                            "msg": f"flow {name} is listed under {ctx.prop} but no theorem of Properties/{ctx.prop}.v mentions it"}]
    ctx.extra["broken_obligations"] = broken_stmts
    return ok


def _declared_theorems(prop: str) -> t.List[str]:
    try:
        src = open(os.path.join(core.COQ, "Properties", prop + ".v")).read()
    except OSError:
        return []
    return [m.group(2) for m in core.THM_RE.finditer(src) if m.group(1) == "Theorem"]


def theorem_statements(prop: str, limit: int = 3) -> t.List[str]:
    try:
        src = open(os.path.join(core.COQ, "Properties", prop + ".v")).read()
    except OSError:
        return []
    import re

    out = []
    for m in re.finditer(r"(?ms)^Theorem\s+.*?\.\s*$", src):
        out.append(" ".join(m.group(0).split())[:600])
        if len(out) >= limit:
            break
    return out


TRUSTED_BASE = [
    "Coq 8.16.1 kernel/coqc (vm_compute used in finite-domain lemmas; no native_compute)",
    "kernel extractor vlib/kernels.py (Python ast -> Gallina over Z/bool; selectors in vlib/ktab/*.py)",
    "extraction: ExtrOcamlBasic only (bool/option/unit/list/prod/sumbool/sumor mapped to OCaml natives, andb/orb inlined); Z, positive, nat, string stay Coq inductives; ocaml/driver.ml I/O glue; OCaml 4.13.1",
    "correspondence harness vlib/ (generators, canonicalisation, monkeypatches of clock/RNG/socket/resolver/crypto in the harness process)",
    "modelled-not-verified: cryptography, pyspnego, dnspython, socket/asyncio, CPython built-ins (see DESIGN.md section 4)",
]


def run_check(prop: str, tier: str, seed: int) -> int:
    core.setup_impl_path()
    ctx = Ctx(prop, tier, seed)
    mod = importlib.import_module(f"vlib.props.{prop.lower()}")
    ctx.area = getattr(mod, "AREA", "core")
    proved = False
    try:
        proved = build_and_prove(ctx, mod)
        if not ctx.extra.get("model_build_failed"):
            units = mod.units(ctx)
            run_units(ctx, units)
            run_env_matrix(ctx)
            run_flow_semantics(ctx)
            if hasattr(mod, "oracles"):
                mod.oracles(ctx)
        if proved and ctx.thorough and os.environ.get("VERIF_COQCHK", "1") != "0":
            # coqchk only reads the compiled files; it runs outside the build lock (it takes minutes) and is retried
            # under the lock if a concurrent build disturbed it
            ck = core.coqchk(ctx.prop)
            if not ck["ok"] and ck.get("axioms") is None:
                with core.build_lock():
                    core.make([f"Properties/{ctx.prop}.vo"])
                    ck = core.coqchk(ctx.prop)
            ctx.extra["coqchk"] = {k: v for k, v in ck.items() if k != "tail"}
            if not ck["ok"]:
                proved = False
                ctx.extra["broken_obligations"] = [{"file": f"Properties/{ctx.prop}.vo", "line": 0, "stmt": "coqchk",
                                                    "msg": "coqchk does not accept the compiled cone, or it rests on axioms: " + str(ck.get("axioms")) + " " + ck["tail"][-200:]}]
        if proved and os.environ.get("VERIF_FORCE_SWEEP") == "1" and not ctx.violations:
            # self-test of the predicates: on a tree where everything is proved and model = implementation, every property predicate
            # must hold on every output (otherwise the sweep below would raise a false alarm the day an obligation breaks)
            bad = pred_sweep(ctx)
            if bad:
                ctx.violation("failing-input", "predicate-self-test", bad, key=None)
        if not proved:
            found = None
            if hasattr(mod, "search"):
                try:
                    found = mod.search(ctx)
                except Exception as exc:  # noqa: BLE001
                    ctx.notes.append(f"search raised {type(exc).__name__}: {exc}")
            if not found:
                # model and implementation may still agree (the model is regenerated from the changed source): evaluate the property
                # predicate on EVERY implementation output of this run, not only on disagreements
                found = pred_sweep(ctx)
            broken = ctx.extra.get("broken_obligations") or [{"stmt": "?", "file": "?", "msg": "?"}]
            names = ", ".join(sorted({f"{b['file']}:{b['stmt']}" for b in broken}))
            if found:
                ctx.violation("failing-input", f"proof:{names}", {"broken_obligations": broken[:5], **found},
                              key=found.get("key"))
            elif not any(v["kind"] == "failing-input" for v in ctx.violations):
                ctx.violation("no-failing-input-found", f"proof:{names}", {"broken_obligations": broken[:5]})
    except Exception as exc:  # noqa: BLE001
        ctx.violation("no-failing-input-found", "check-infrastructure",
                      {"exception": f"{type(exc).__name__}: {exc}", "traceback": traceback.format_exc()[-2000:]})
    write_evidence(ctx, mod)
    for line in ctx.known:
        print(line)
    if ctx.violations:
        for path, v in ctx.write_replays()[:1]:
            tail = " no-failing-input-found" if v["kind"] != "failing-input" else ""
            print(f"VIOLATION property={prop} replay={path}{tail}")
        return 1
    print(f"OK property={prop} tier={tier} obligations={len(ctx.obligations)} corr_cases={ctx.evaluations} "
          f"wall={time.time() - ctx.t0:.1f}s")
    return 0


def write_evidence(ctx: Ctx, mod) -> None:
    os.makedirs(os.path.join(core.VERIF, "evidence"), exist_ok=True)
    my_kernels = {k: v for k, v in ctx.kernels.items() if ctx.prop in v.get("props", [])}
    assumptions_text = {o["theorem"]: ("Closed under the global context" if o["assumptions"] == [] else o["assumptions"])
                        for o in ctx.obligations}
    doc = {
        "property_id": ctx.prop,
        "tier": ctx.tier,
        "seed": ctx.seed,
        "level": "proof",
        "coverage": {
            "obligations": max(1, len(ctx.obligations)),
            "discharged": sum(1 for o in ctx.obligations if o["discharged"]),
            "checker_cmd": f"make -C coq Properties/{ctx.prop}.vo && coqc -Q coq V coq/Properties/{ctx.prop}.v (Print Assumptions parsed) ; ./check {ctx.prop} --tier {ctx.tier}",
            "trusted_base": TRUSTED_BASE + [f"Print Assumptions: {json.dumps(assumptions_text)}"],
            "theorems": [o["theorem"] for o in ctx.obligations],
            "partial": getattr(mod, "PARTIAL", []),
            "kernels_located": sorted(k for k, v in my_kernels.items() if v.get("located")),
            "kernels_fallback": sorted(k for k, v in my_kernels.items() if not v.get("located")),
            "kernel_sources": {k: v.get("source") for k, v in my_kernels.items() if v.get("located")},
            "correspondence": ctx.corr,
            "evaluations": ctx.evaluations,
            "distinct_nontrivial": len(ctx.distinct),
            "rule": getattr(mod, "RULE", "cases are generated from boundary tables plus a PRNG seeded by VERIF_SEED; a case is non-trivial when it exercises a non-error path or a distinct error class; distinct = distinct canonical input text per unit"),
            "samples": theorem_statements(ctx.prop) + ctx.samples[:8],
            "oracle_runs": ctx.oracle_runs,
            "notes": ctx.notes,
            # failures of the property observed by this run that are listed in known_findings.txt (reported as KNOWN-FINDING lines, exit 0)
            "known_findings_observed": ctx.known_detail,
            **{k: v for k, v in ctx.extra.items() if k not in ("broken_obligations", "model_build_failed")},
            "broken_obligations": ctx.extra.get("broken_obligations", []),
        },
        "assumptions": getattr(mod, "ASSUMPTIONS", []),
        "wall_s": round(time.time() - ctx.t0, 2),
        "violations": len(ctx.violations),
    }
    with open(os.path.join(core.VERIF, "evidence", ctx.prop + ".json"), "w") as fh:
        json.dump(doc, fh, indent=1, default=str)


def replay(path: str) -> int:
    core.setup_impl_path()
    doc = json.load(open(path))
    prop = doc["property"]
    mod = importlib.import_module(f"vlib.props.{prop.lower()}")
    print(f"property {prop}: {doc.get('kind')} ; broken: {doc.get('broken')}")
    if "unit" in doc and "input" in doc:
        ctx = Ctx(prop, "quick", 0)
        ctx.area = getattr(mod, "AREA", "core")
        ctx.replay_only = True  # type: ignore[attr-defined]
        units = {u.name: u for u in mod.units(ctx, only=doc["unit"])} if _accepts_only(mod) else {u.name: u for u in mod.units(ctx)}
        u = units.get(doc["unit"])
        if u is None:
            # an oracle unit (property predicate evaluated directly on the implementation, no model side)
            orc = getattr(mod, "ORACLE_REPLAY", {}).get(doc["unit"])
            if orc is None:
                if hasattr(mod, "replay"):
                    return mod.replay(doc)
                print("unit not found")
                return 2
            impl, pred = orc
            arg = dec(doc["input"])
            i = core.run_impl(impl, arg)
            why = pred(arg, dec(i) if not i.startswith("!") else None)
            print("input   :", doc["input"][:1000])
            print("impl    :", i[:1000])
            print("property:", "holds on this input" if not why else "VIOLATED: " + str(why))
            return 1 if why else 0
        arg = dec(doc["input"])
        with core.build_lock():
            core.regen()
            core.make([f"Model/Units_{ctx.area}.vo"])
            core.ensure_modelrun(ctx.area)
        m = core.run_model([(u.model_unit, doc["input"])], area=ctx.area)[0]
        i = core.run_impl(u.impl, arg)
        print("input   :", doc["input"][:1000])
        print("model   :", m[:1000])
        print("impl    :", i[:1000])
        same = (u.bucket(m) == u.bucket(i)) if u.bucket else (m == i)
        print("agree   :", same)
        return 0 if same else 1
    if hasattr(mod, "replay"):
        return mod.replay(doc)
    print(json.dumps(doc, indent=1)[:3000])
    return 0


def _accepts_only(mod) -> bool:
    import inspect

    return "only" in inspect.signature(mod.units).parameters
