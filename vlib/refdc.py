"""Reference MS-GKDI / DCE-RPC domain controller, in-process, written from the specifications
(C706 ch. 12 connection-oriented PDUs, MS-RPCE 2.2.2 extensions: security trailer, header signing, bind-time feature
negotiation, verification trailer 2.2.2.13; MS-RPCE 2.2.5 NDR64; C706 app. L towers / app. N ept_map; MS-GKDI 2.2.1-2.2.4,
3.1.4.1 GetKey and the key derivation chain of 3.1.4.1.2; SP800-108 counter-mode HMAC).

It does not import the library under test: every decoder / encoder here is its own.  It is an independent peer.

  * port 135: endpoint mapper (bind -> bind_ack, ept_map -> reply with a TCP tower for the ISD_KEY port)
  * port ISD: ISD_KEY (bind with authentication, any number of alter_context legs, GetKey sealed at PKT_PRIVACY with the
    interface verification trailer -> conforming GroupKeyEnvelope, sealed back)
  * security contexts: "toy" (vlib/toyctx.py on both sides, scripted tokens) or "ntlm" (real NTLM through spnego.server)
  * hook() connects it to the library from the harness process only: socket.create_connection / asyncio.open_connection
    (and spnego.client in toy mode) are replaced by in-process pipes for the duration of a `with` block.

The DC is strict: anything a conforming client must not send is recorded in `violations` and answered with a fault / bind_nak.
"""
from __future__ import annotations

import asyncio
import contextlib
import hashlib
import hmac
import os
import struct
import typing as t
import uuid

from . import toyctx

# ------------------------------------------------------------------------------------------------------------------
# constants from the specifications
# ------------------------------------------------------------------------------------------------------------------
PT_REQUEST, PT_RESPONSE, PT_FAULT, PT_BIND, PT_BIND_ACK, PT_BIND_NAK, PT_ALTER, PT_ALTER_RESP = 0, 2, 3, 11, 12, 13, 14, 15
PFC_FIRST, PFC_LAST, PFC_SIGN, PFC_OBJECT = 0x01, 0x02, 0x04, 0x80
LEVEL_PRIVACY = 6
AUTHN = {"negotiate": 9, "ntlm": 10, "kerberos": 16}

UUID_EPM = uuid.UUID("e1af8308-5d1f-11c9-91a4-08002b14a0fa")       # C706 app. O, v3.0
UUID_NDR = uuid.UUID("8a885d04-1ceb-11c9-9fe8-08002b104860")       # v2.0
UUID_NDR64 = uuid.UUID("71710533-beba-4937-8319-b5dbef9ccc36")     # MS-RPCE 2.2.5, v1.0
UUID_ISD_KEY = uuid.UUID("b9785960-524f-11df-8b6d-83dcded72085")   # MS-GKDI 1.9, v1.0
BTFN_PREFIX = uuid.UUID("6cb71c2c-9812-4540-0000-000000000000").bytes_le[:8]   # MS-RPCE 2.2.2.14
VT_SIGNATURE = bytes([0x8A, 0xE3, 0x13, 0x71, 0x02, 0xF4, 0x36, 0x71])           # MS-RPCE 2.2.2.13.1
VT_PCONTEXT, VT_END, VT_MUST = 0x0002, 0x4000, 0x8000
KDS_LABEL = "KDS service\0".encode("utf-16-le")
DREP_LE = bytes([0x10, 0, 0, 0])

# a small finite-field group for the DH secret agreement: p = 2^521 - 1 (prime), g = 3
DH_P, DH_G, DH_LEN = (1 << 521) - 1, 3, 66


def syntax(u: uuid.UUID, major: int, minor: int = 0) -> bytes:
    return u.bytes_le + struct.pack("<HH", major, minor)


SYN_EPM, SYN_NDR, SYN_NDR64, SYN_ISD = syntax(UUID_EPM, 3), syntax(UUID_NDR, 2), syntax(UUID_NDR64, 1), syntax(UUID_ISD_KEY, 1)


class Malformed(Exception):
    pass


# ------------------------------------------------------------------------------------------------------------------
# NDR64 running buffer (MS-RPCE 2.2.5: primitives aligned to their size from the start of the stub;
# conformance, pointer referents 8 octets aligned to 8)
# ------------------------------------------------------------------------------------------------------------------
class Ndr:
    def __init__(self, data: bytes = b""):
        self.b = bytearray(data)
        self.pos = 0

    # writer
    def align_w(self, k):
        self.b += b"\x00" * (-len(self.b) % k)

    def u32(self, v):
        self.align_w(4)
        self.b += struct.pack("<I", v)

    def i32(self, v):
        self.align_w(4)
        self.b += struct.pack("<i", v)

    def u64(self, v):
        self.align_w(8)
        self.b += struct.pack("<Q", v)

    def raw(self, v):
        self.b += v

    # reader
    def align_r(self, k):
        n = -self.pos % k
        if bytes(self.b[self.pos:self.pos + n]) != b"\x00" * n or self.pos + n > len(self.b):
            raise Malformed("alignment padding is not zero / missing")
        self.pos += n

    def take(self, n):
        if self.pos + n > len(self.b):
            raise Malformed("stub too short")
        v = bytes(self.b[self.pos:self.pos + n])
        self.pos += n
        return v

    def r_u32(self):
        self.align_r(4)
        return struct.unpack("<I", self.take(4))[0]

    def r_i32(self):
        self.align_r(4)
        return struct.unpack("<i", self.take(4))[0]

    def r_u64(self):
        self.align_r(8)
        return struct.unpack("<Q", self.take(8))[0]


def decode_getkey_request(stub: bytes) -> t.Tuple[tuple, int]:
    """MS-GKDI 3.1.4.1 GetKey [in] parameters, NDR64. Returns ((sd, root_key_id|None, l0, l1, l2), octets consumed)."""
    r = Ndr(stub)
    cb = r.r_u32()
    mx = r.r_u64()
    if mx != cb:
        raise Malformed("conformance of pbTargetSD differs from cbTargetSD")
    sd = r.take(cb)
    ref = r.r_u64()
    rk = None
    if ref != 0:
        r.align_r(4)
        rk = uuid.UUID(bytes_le=r.take(16))
    l0, l1, l2 = r.r_i32(), r.r_i32(), r.r_i32()
    return (sd, rk, l0, l1, l2), r.pos


def encode_getkey_reply(out: bytes, hresult: int = 0) -> bytes:
    w = Ndr()
    if hresult != 0:
        w.u32(0)
        w.u64(0)
        w.u32(hresult)
        return bytes(w.b)
    w.u32(len(out))
    w.u64(0x00020000)
    w.u64(len(out))
    w.raw(out)
    w.u32(hresult)
    return bytes(w.b)


# ---- towers (C706 app. L) and ept_map (C706 app. N / MS-RPCE 2.2.1.2.5) ----------------------------------------------
def floor(proto: int, lhs: bytes, rhs: bytes) -> bytes:
    return struct.pack("<H", 1 + len(lhs)) + bytes([proto]) + lhs + struct.pack("<H", len(rhs)) + rhs


def tower(floors: t.Sequence[bytes]) -> bytes:
    return struct.pack("<H", len(floors)) + b"".join(floors)


def tcpip_tower(iface: bytes, xfer: bytes, port: int, addr: bytes = b"\x00\x00\x00\x00") -> bytes:
    return tower([
        floor(0x0D, iface[:18], iface[18:20]),
        floor(0x0D, xfer[:18], xfer[18:20]),
        floor(0x0B, b"", b"\x00\x00"),
        floor(0x07, b"", struct.pack(">H", port)),
        floor(0x09, b"", addr),
    ])


def parse_tower(octets: bytes) -> t.List[tuple]:
    n = struct.unpack("<H", octets[:2])[0]
    pos, out = 2, []
    for _ in range(n):
        ll = struct.unpack("<H", octets[pos:pos + 2])[0]
        if ll < 1:
            raise Malformed("floor without protocol identifier")
        proto, lhs = octets[pos + 2], octets[pos + 3:pos + 2 + ll]
        pos += 2 + ll
        rl = struct.unpack("<H", octets[pos:pos + 2])[0]
        rhs = octets[pos + 2:pos + 2 + rl]
        pos += 2 + rl
        if len(lhs) != ll - 1 or len(rhs) != rl:
            raise Malformed("truncated floor")
        out.append((proto, lhs, rhs))
    if pos != len(octets):
        raise Malformed("octets after the last floor")
    return out


def decode_ept_map_request(stub: bytes) -> dict:
    r = Ndr(stub)
    obj = None
    if r.r_u64() != 0:
        obj = r.take(16)
    tw = None
    if r.r_u64() != 0:
        mx = r.r_u64()
        ln = r.r_u32()
        if mx != ln:
            raise Malformed("tower conformance differs from tower_length")
        tw = r.take(ln)
        r.align_r(8)  # a conformant structure is padded to its alignment (8: the conformance)
    handle = r.take(20)
    max_towers = r.r_u32()
    if r.pos != len(stub):
        raise Malformed("octets after max_towers")
    return {"obj": obj, "tower": tw, "floors": parse_tower(tw) if tw is not None else None, "handle": handle, "max_towers": max_towers}


def encode_ept_map_reply(towers: t.Sequence[bytes], max_towers: int, status: int) -> bytes:
    w = Ndr()
    w.raw(b"\x00" * 20)
    w.u32(len(towers))
    w.u64(max_towers)
    w.u64(0)
    w.u64(len(towers))
    for i in range(len(towers)):
        w.u64(3 + i)
    for tw in towers:
        w.u64(len(tw))
        w.u32(len(tw))
        w.raw(tw)
    w.u32(status)
    return bytes(w.b)


# ------------------------------------------------------------------------------------------------------------------
# MS-GKDI structures and the key chain
# ------------------------------------------------------------------------------------------------------------------
def utf16z(s: str) -> bytes:
    return (s + "\0").encode("utf-16-le")


def kdf_parameters(hash_name: str) -> bytes:
    name = utf16z(hash_name)
    return bytes([0, 0, 0, 0, 1, 0, 0, 0]) + struct.pack("<I", len(name)) + bytes(4) + name


def ffc_dh_parameters() -> bytes:
    body = b"DHPM" + struct.pack("<I", DH_LEN) + DH_P.to_bytes(DH_LEN, "big") + DH_G.to_bytes(DH_LEN, "big")
    return struct.pack("<I", 4 + len(body)) + body


def ffc_dh_key(pub: int) -> bytes:
    return b"DHPB" + struct.pack("<I", DH_LEN) + DH_P.to_bytes(DH_LEN, "big") + DH_G.to_bytes(DH_LEN, "big") + pub.to_bytes(DH_LEN, "big")


def ecdh_key(curve: str, x: int, y: int) -> bytes:
    n = {"P256": 32, "P384": 48}[curve]
    return {"P256": b"ECK1", "P384": b"ECK3"}[curve] + struct.pack("<I", n) + x.to_bytes(n, "big") + y.to_bytes(n, "big")


def envelope_bytes(version, flags, l0, l1, l2, rkid: uuid.UUID, kdf_alg, kdf_par, sec_alg, sec_par, priv_len, pub_len,
                   domain, forest, l1_key, l2_key) -> bytes:
    ka, sa, dn, fn = utf16z(kdf_alg), utf16z(sec_alg), utf16z(domain), utf16z(forest)
    return b"".join([
        struct.pack("<I", version), b"KDSK", struct.pack("<IIII", flags, l0, l1, l2), rkid.bytes_le,
        struct.pack("<IIIIIIIIII", len(ka), len(kdf_par), len(sa), len(sec_par), priv_len, pub_len, len(l1_key), len(l2_key), len(dn), len(fn)),
        ka, kdf_par, sa, sec_par, dn, fn, l1_key, l2_key])


def sp800_108(hash_name: str, key: bytes, label: bytes, context: bytes, length: int) -> bytes:
    """SP800-108 KDF in counter mode, HMAC PRF, 32-bit counter before the fixed input, 32-bit length in bits."""
    h = {"SHA1": hashlib.sha1, "SHA256": hashlib.sha256, "SHA384": hashlib.sha384, "SHA512": hashlib.sha512}[hash_name]
    fixed = label + b"\x00" + context + struct.pack(">I", length * 8)
    out, i = b"", 1
    while len(out) < length:
        out += hmac.new(key, struct.pack(">I", i) + fixed, h).digest()
        i += 1
    return out[:length]


def gki(rkid: uuid.UUID, l0: int, l1: int, l2: int) -> bytes:
    return rkid.bytes_le + struct.pack("<iii", l0, l1, l2)


class KeyChain:
    """MS-GKDI 3.1.4.1.2: Key(SD, RK, L0, L1, L2)."""

    def __init__(self, hash_name: str, root_key: bytes, rkid: uuid.UUID, sd: bytes, l0: int):
        self.h, self.rkid, self.l0 = hash_name, rkid, l0
        l0_seed = sp800_108(hash_name, root_key, KDS_LABEL, gki(rkid, l0, -1, -1), 64)
        self._l1 = {31: sp800_108(hash_name, l0_seed, KDS_LABEL, gki(rkid, l0, 31, -1) + sd, 64)}
        self._l2: t.Dict[tuple, bytes] = {}

    def l1(self, i: int) -> bytes:
        for j in range(30, i - 1, -1):
            if j not in self._l1:
                self._l1[j] = sp800_108(self.h, self._l1[j + 1], KDS_LABEL, gki(self.rkid, self.l0, j, -1), 64)
        return self._l1[i]

    def l2(self, i: int, j: int) -> bytes:
        if (i, 31) not in self._l2:
            self._l2[(i, 31)] = sp800_108(self.h, self.l1(i), KDS_LABEL, gki(self.rkid, self.l0, i, 31), 64)
        for m in range(30, j - 1, -1):
            if (i, m) not in self._l2:
                self._l2[(i, m)] = sp800_108(self.h, self._l2[(i, m + 1)], KDS_LABEL, gki(self.rkid, self.l0, i, m), 64)
        return self._l2[(i, j)]


# ------------------------------------------------------------------------------------------------------------------
# PDUs (C706 12.6, MS-RPCE 2.2.2)
# ------------------------------------------------------------------------------------------------------------------
def parse_pdu(data: bytes) -> dict:
    if len(data) < 16:
        raise Malformed("short PDU")
    ver, minor, ptype, flags = data[0], data[1], data[2], data[3]
    frag_len, auth_len, call_id = struct.unpack("<HHI", data[8:16])
    if frag_len != len(data):
        raise Malformed("frag_length differs from the PDU size")
    p = {"ver": ver, "minor": minor, "ptype": ptype, "flags": flags, "drep": data[4:8], "frag_len": frag_len, "auth_len": auth_len,
         "call_id": call_id, "sec": None, "raw": bytes(data)}
    end = len(data)
    if auth_len:
        off = len(data) - auth_len - 8
        if off < 16:
            raise Malformed("auth_length larger than the PDU")
        p["sec"] = {"type": data[off], "level": data[off + 1], "pad": data[off + 2], "reserved": data[off + 3],
                    "ctx": struct.unpack("<I", data[off + 4:off + 8])[0], "value": bytes(data[off + 8:]), "off": off}
        end = off
    p["body"] = bytes(data[16:end])
    return p


def parse_bind_body(body: bytes) -> dict:
    max_xmit, max_recv, assoc = struct.unpack("<HHI", body[:8])
    n = body[8]
    pos, ctxs = 12, []
    for _ in range(n):
        cid, nt = struct.unpack("<HB", body[pos:pos + 3])
        abstract = body[pos + 4:pos + 24]
        pos += 24
        xf = []
        for _ in range(nt):
            xf.append(body[pos:pos + 20])
            pos += 20
        ctxs.append((cid, abstract, xf))
    if pos > len(body) or any(len(a) != 20 or any(len(x) != 20 for x in xs) for _, a, xs in ctxs):
        raise Malformed("truncated presentation context list")
    # what follows the context list is alignment padding in front of the security trailer
    return {"max_xmit": max_xmit, "max_recv": max_recv, "assoc": assoc, "contexts": ctxs, "rest": body[pos:]}


def header(ptype: int, flags: int, frag_len: int, auth_len: int, call_id: int) -> bytes:
    return bytes([5, 0, ptype, flags]) + DREP_LE + struct.pack("<HHI", frag_len, auth_len, call_id)


def finish(ptype: int, flags: int, call_id: int, body: bytes, sec: t.Optional[bytes] = None, auth_value: bytes = b"") -> bytes:
    tail = (sec + auth_value) if sec is not None else b""
    total = 16 + len(body) + len(tail)
    return header(ptype, flags, total, len(auth_value) if sec is not None else 0, call_id) + body + tail


def sec_trailer(atype: int, pad: int, ctx: int = 0) -> bytes:
    return bytes([atype, LEVEL_PRIVACY, pad, 0]) + struct.pack("<I", ctx)


def bind_ack_body(sec_addr: str, results: t.Sequence[tuple], assoc: int = 0x1234) -> bytes:
    sa = sec_addr.encode("ascii") + b"\x00"
    b = struct.pack("<HHI", 5840, 5840, assoc) + struct.pack("<H", len(sa)) + sa
    b += b"\x00" * (-len(b) % 4)
    b += bytes([len(results), 0, 0, 0])
    for result, reason, xfer in results:
        b += struct.pack("<HH", result, reason) + xfer
    return b


def plain_response(atype: int, sig_len: int, call_id: int, cid: int, reply: bytes) -> t.Tuple[bytes, bytes, bytes]:
    """A RESPONSE carrying `reply`, before sealing: (PDU header + response header, stub padded to 16, security trailer header)."""
    rpad = -len(reply) % 16
    rstub = reply + b"\x00" * rpad
    total = 16 + 8 + len(rstub) + 8 + sig_len
    hdr24 = header(PT_RESPONSE, PFC_FIRST | PFC_LAST, total, sig_len, call_id) + struct.pack("<IHBB", len(rstub), cid, 0, 0)
    return hdr24, rstub, sec_trailer(atype, rpad)


# ------------------------------------------------------------------------------------------------------------------
# security contexts
# ------------------------------------------------------------------------------------------------------------------
class ToyClientCtx(toyctx.FakeSpnegoCtx):
    """pyspnego-client stand-in: scripted tokens, toy wrap/unwrap."""

    def __init__(self, sig_len: int, tokens: t.Sequence[bytes], server_tokens: t.Sequence[t.Optional[bytes]]):
        super().__init__(sig_len)
        self.complete = False
        self.tokens, self.server_tokens = list(tokens), list(server_tokens)
        self.leg = 0
        self.step_args: t.List[t.Optional[bytes]] = []
        self.step_outs: t.List[bytes] = []

    def step(self, in_token=None):
        self.step_args.append(None if in_token is None else bytes(in_token))
        if self.leg > 0:
            want = self.server_tokens[self.leg - 1] or b""
            if bytes(in_token or b"") != want:
                raise toyctx.BadMIC("toy context: unexpected server token")
        tok = self.tokens[self.leg]
        self.leg += 1
        if self.leg == len(self.tokens):
            self.complete = True
        self.step_outs.append(tok)
        return tok or None


class ToyServerCtx(toyctx.FakeSpnegoCtx):
    def __init__(self, sig_len: int, tokens: t.Sequence[bytes], server_tokens: t.Sequence[t.Optional[bytes]]):
        super().__init__(sig_len)
        self.complete = False
        self.tokens, self.server_tokens = list(tokens), list(server_tokens)
        self.leg = 0

    def step(self, in_token):
        if self.leg >= len(self.tokens) or bytes(in_token) != self.tokens[self.leg]:
            raise toyctx.BadMIC("toy context: unexpected client token")
        out = self.server_tokens[self.leg] if self.leg < len(self.server_tokens) else None
        self.leg += 1
        # the acceptor is established once it has seen every non-empty token of the initiator
        if self.leg >= len([x for x in self.tokens if x]):
            self.complete = True
        return out


class RecordingCtx:
    """Proxy around a real pyspnego client context recording step() traffic (harness side only)."""

    def __init__(self, inner, nested=None):
        self._inner = inner
        self._nested = nested if nested is not None else [0]
        self.step_args: t.List[t.Optional[bytes]] = []
        self.step_outs: t.List[bytes] = []
        self.wrap_calls: t.List[list] = []

    @property
    def complete(self):
        return self._inner.complete

    def step(self, in_token=None, **kw):
        self.step_args.append(None if in_token is None else bytes(in_token))
        self._nested[0] += 1
        try:
            out = self._inner.step(in_token, **kw)
        finally:
            self._nested[0] -= 1
        self.step_outs.append(bytes(out or b""))
        return out

    def wrap_iov(self, iov, encrypt=True, qop=None):
        import spnego.iov as I

        first = iov[0][0] if isinstance(iov[0], tuple) else None
        self.wrap_calls.append([None, None, None, first == I.BufferType.sign_only, True])
        return self._inner.wrap_iov(iov, encrypt=encrypt, qop=qop)

    def __getattr__(self, name):
        return getattr(self._inner, name)


_SHAPES: t.Dict[str, tuple] = {}


def real_handshake_shape(protocol: str) -> tuple:
    """How many tokens the real mechanism exchanges (client side: token empty?, complete afterwards; server side: token present?),
    learnt by letting a pyspnego initiator and acceptor talk to each other directly (no RPC involved)."""
    if protocol not in _SHAPES:
        import spnego

        saved = os.environ.get("NTLM_USER_FILE")
        os.environ["NTLM_USER_FILE"] = ntlm_user_file()
        try:
            req = spnego.ContextReq.default | spnego.ContextReq.dce_style
            c = spnego.client(f"{NTLM_DOMAIN}\\{NTLM_USER}", NTLM_PASSWORD, hostname="dc.test", service="host", protocol=protocol, context_req=req)
            s_ = spnego.server(protocol=protocol, context_req=req)
            legs, stoks, tok = [], [], None
            for _ in range(8):
                out = c.step(tok) if legs else c.step()
                legs.append((bool(out), bool(c.complete)))
                if not out:
                    break
                tok = s_.step(out)
                stoks.append(bool(tok))
                if c.complete:
                    break
            _SHAPES[protocol] = (legs, stoks, int(c.query_message_sizes().header))
        finally:
            if saved is None:
                os.environ.pop("NTLM_USER_FILE", None)
            else:
                os.environ["NTLM_USER_FILE"] = saved
    return _SHAPES[protocol]


def toy_tokens(nlegs: int, final_empty: bool) -> t.Tuple[t.List[bytes], t.List[t.Optional[bytes]]]:
    """client tokens (one per provider leg) and the server's answers (None = no security trailer in the ack)."""
    ctoks = [b"TOY-C%d-" % i + bytes([i + 1]) * (3 + 5 * i) for i in range(nlegs)]
    if final_empty and nlegs > 1:
        ctoks[-1] = b""
    sent = [x for x in ctoks if x]
    stoks: t.List[t.Optional[bytes]] = [b"TOY-S%d-" % i + bytes([0xA0 + i]) * (2 + 3 * i) for i in range(len(sent))]
    if not (final_empty and nlegs > 1):
        stoks[-1] = None  # nothing to say after the last leg (like NTLM's third leg)
    return ctoks, stoks


# ------------------------------------------------------------------------------------------------------------------
# the domain controller
# ------------------------------------------------------------------------------------------------------------------
HASHES = {1: "SHA1", 2: "SHA256", 3: "SHA384", 4: "SHA512"}
KINDS = {0: "seed", 1: "DH", 2: "P256", 3: "P384"}
NTLM_USER, NTLM_DOMAIN, NTLM_PASSWORD = "alice", "TESTDOM", "Passw0rd!"


class Config:
    def __init__(self, **kw):
        self.isd_port = 49664
        self.mode = "toy"            # toy | ntlm
        self.protocol = "negotiate"  # what the client is asked to use (toy: any of the three; ntlm: "ntlm")
        self.sig_len = 16
        self.nlegs = 2
        self.final_empty = False
        self.header_sign = True
        self.hash = "SHA512"
        self.kind = "seed"           # seed | DH | P256 | P384 (secret agreement of the root key; seed = DH configured, caller authorised)
        self.authorized = True       # caller receives seed keys (else only the group public key)
        self.now = (361, 12, 7)
        self.l2_shape = "present"    # at L2 = 31: L2 key present | absent
        self.cover = "exact"         # exact: the requested position; later: a later position of the same L0 that covers it
        self.domain, self.forest = "domain.test", "forest.test"
        self.root_keys = {uuid.UUID("d778c271-9025-9a82-f6dc-b8960b8ad8c5"): bytes(range(1, 65)),
                          uuid.UUID("00000000-1111-2222-3333-444444444444"): bytes(range(64, 128))}
        self.current_rkid = uuid.UUID("d778c271-9025-9a82-f6dc-b8960b8ad8c5")
        self.ept_status = 0
        self.epm_result = 0          # result of the EPM presentation context (0 = acceptance)
        self.isd_result = 0
        self.getkey_hresult = 0
        self.__dict__.update(kw)


class DC:
    def __init__(self, cfg: Config):
        self.cfg = cfg
        self.log: t.List[dict] = []          # one entry per PDU received
        self.sent: t.List[dict] = []         # one entry per PDU sent (plaintext form)
        self.violations: t.List[str] = []
        self.connections: t.List[tuple] = []
        self.getkey_calls: t.List[tuple] = []
        self.envelopes: t.List[bytes] = []
        self.client_ctxs: t.List[t.Any] = []
        self.client_args: t.List[dict] = []

    # ---- keys ------------------------------------------------------------------------------------------------------
    def secret_config(self) -> tuple:
        k = self.cfg.kind
        if k in ("seed", "DH"):
            return "DH", ffc_dh_parameters(), 256, DH_LEN * 8
        if k == "P256":
            return "ECDH_P256", b"", 256, 256
        return "ECDH_P384", b"", 384, 384

    def position_for(self, l0: int, l1: int, l2: int) -> tuple:
        cfg = self.cfg
        if l0 == -1 and l1 == -1 and l2 == -1:
            return tuple(cfg.now)
        if cfg.cover == "later":
            if l0 < cfg.now[0]:
                return (l0, 31, 31)
            if l0 == cfg.now[0] and (cfg.now[1], cfg.now[2]) >= (l1, l2):
                return tuple(cfg.now)
        return (l0, l1, l2)

    def public_key_bytes(self, chain: KeyChain, p1: int, p2: int) -> bytes:
        alg, _par, priv_bits, _pub = self.secret_config()
        priv = sp800_108(self.cfg.hash, chain.l2(p1, p2), KDS_LABEL, utf16z(alg), (priv_bits + 7) // 8)
        d = int.from_bytes(priv, "big")
        if alg == "DH":
            return ffc_dh_key(pow(DH_G, d, DH_P))
        from cryptography.hazmat.primitives.asymmetric import ec

        curve = ec.SECP256R1() if alg == "ECDH_P256" else ec.SECP384R1()
        nums = ec.derive_private_key(d, curve).public_key().public_numbers()
        return ecdh_key(alg[-4:], nums.x, nums.y)

    def envelope_for(self, sd: bytes, rkid: t.Optional[uuid.UUID], l0: int, l1: int, l2: int) -> bytes:
        cfg = self.cfg
        rk = rkid or cfg.current_rkid
        if rk not in cfg.root_keys:
            raise KeyError("unknown root key")
        p0, p1, p2 = self.position_for(l0, l1, l2)
        if not (0 <= p1 <= 31 and 0 <= p2 <= 31 and p0 >= 0):
            raise KeyError("no such key")
        chain = KeyChain(cfg.hash, cfg.root_keys[rk], rk, sd, p0)
        alg, par, priv_bits, pub_bits = self.secret_config()
        if cfg.authorized:
            flags = 2
            l1_key = chain.l1(p1) if p2 == 31 else (chain.l1(p1 - 1) if p1 > 0 else b"")
            l2_key = b"" if (p2 == 31 and cfg.l2_shape == "absent") else chain.l2(p1, p2)
        else:
            flags, l1_key, l2_key = 3, b"", self.public_key_bytes(chain, p1, p2)
        return envelope_bytes(1, flags, p0, p1, p2, rk, "SP800_108_CTR_HMAC", kdf_parameters(cfg.hash), alg, par, priv_bits, pub_bits,
                              cfg.domain, cfg.forest, l1_key, l2_key)

    # ---- transport ---------------------------------------------------------------------------------------------------
    def connect(self, port: int) -> "Conn":
        self.connections.append(("dc.test", port))
        if port == 135:
            return EpmConn(self)
        if port == self.cfg.isd_port:
            return IsdConn(self)
        raise ConnectionRefusedError(f"nothing listens on port {port}")

    def violation(self, text: str) -> None:
        if text not in self.violations:
            self.violations.append(text)


class Conn:
    name = "?"

    def __init__(self, dc: DC):
        self.dc, self.buf, self.closed = dc, b"", False
        self.bound = False
        self.accepted: t.Dict[int, bytes] = {}

    def feed(self, data: bytes) -> bytes:
        """Bytes from the client; returns the bytes the server answers with (complete PDUs)."""
        self.buf += bytes(data)
        out = b""
        while len(self.buf) >= 16:
            frag_len = struct.unpack("<H", self.buf[8:10])[0]
            if frag_len < 16:
                self.dc.violation("frag_length below the header size")
                self.closed = True
                return out
            if len(self.buf) < frag_len:
                break
            pdu, self.buf = self.buf[:frag_len], self.buf[frag_len:]
            out += self.handle(pdu)
        return out

    def common_checks(self, p: dict, entry: dict) -> None:
        v = self.dc.violation
        if (p["ver"], p["minor"]) != (5, 0):
            v("rpc_vers / rpc_vers_minor is not 5.0")
        if p["drep"] != DREP_LE:
            v("data representation is not little-endian / ASCII / IEEE")
        if p["flags"] & (PFC_FIRST | PFC_LAST) != (PFC_FIRST | PFC_LAST):
            v("PFC_FIRST_FRAG | PFC_LAST_FRAG not set on an unfragmented PDU")
        entry.update(conn=self.name, ptype=p["ptype"], flags=p["flags"], call_id=p["call_id"], auth_len=p["auth_len"])

    def fault(self, call_id: int, status: int) -> bytes:
        body = struct.pack("<IHBB", 0, 0, 0, 0) + struct.pack("<I", status) + bytes(4)
        self.dc.sent.append({"conn": self.name, "ptype": PT_FAULT, "status": status})
        return finish(PT_FAULT, PFC_FIRST | PFC_LAST, call_id, body)

    def handle(self, pdu: bytes) -> bytes:
        raise NotImplementedError


class EpmConn(Conn):
    name = "epm"

    def handle(self, pdu: bytes) -> bytes:
        dc, cfg = self.dc, self.dc.cfg
        entry: dict = {}
        dc.log.append(entry)
        try:
            p = parse_pdu(pdu)
        except Malformed as exc:
            dc.violation(f"epm: {exc}")
            return self.fault(0, 0x1C01000B)
        self.common_checks(p, entry)
        if p["ptype"] == PT_BIND:
            b = parse_bind_body(p["body"])
            entry.update(kind="bind", max_xmit=b["max_xmit"], max_recv=b["max_recv"], assoc=b["assoc"], contexts=b["contexts"],
                         sec=None if p["sec"] is None else dict(p["sec"]))
            if p["sec"] is not None:
                dc.violation("epm: authenticated bind to the endpoint mapper")
            results = []
            for cid, abstract, xfers in b["contexts"]:
                if abstract == SYN_EPM and SYN_NDR64 in xfers and cfg.epm_result == 0:
                    results.append((0, 0, SYN_NDR64))
                    self.accepted[cid] = SYN_NDR64
                else:
                    results.append((2, 2 if abstract == SYN_EPM else 1, bytes(20)))
            self.bound = True
            body = bind_ack_body("135", results)
            dc.sent.append({"conn": "epm", "ptype": PT_BIND_ACK, "results": [r[0] for r in results], "flags": PFC_FIRST | PFC_LAST, "token": None})
            return finish(PT_BIND_ACK, PFC_FIRST | PFC_LAST, p["call_id"], body)
        if p["ptype"] == PT_REQUEST:
            alloc, cid, opnum = struct.unpack("<IHH", p["body"][:8])
            stub = p["body"][8:]
            entry.update(kind="request", ctx_id=cid, opnum=opnum, alloc_hint=alloc, stub=stub, sec=p["sec"], wire=bytes(pdu))
            if not self.bound or cid not in self.accepted:
                dc.violation("epm: request on a presentation context that was not accepted")
                return self.fault(p["call_id"], 0x1C00001A)
            if p["flags"] & PFC_OBJECT:
                dc.violation("epm: unexpected object UUID")
            if alloc != len(stub):
                dc.violation("epm: alloc_hint differs from the stub length")
            if opnum != 3:
                dc.violation(f"epm: opnum {opnum} is not ept_map")
                return self.fault(p["call_id"], 0x1C010002)
            try:
                rq = decode_ept_map_request(stub)
            except (Malformed, struct.error, IndexError) as exc:
                dc.violation(f"epm: ept_map stub is not valid NDR64: {exc}")
                return self.fault(p["call_id"], 0x000006F7)
            entry["ept_map"] = rq
            towers = []
            fl = rq["floors"] or []
            if len(fl) >= 4 and fl[0] == (0x0D, SYN_ISD[:18], SYN_ISD[18:]) and fl[2][0] == 0x0B and fl[3][0] == 0x07:
                towers = [tcpip_tower(SYN_ISD, fl[1][1] + fl[1][2] if fl[1][0] == 0x0D else SYN_NDR, cfg.isd_port, b"\x0a\x00\x00\x01")]
            else:
                dc.violation("epm: map_tower does not name ISD_KEY over ncacn_ip_tcp")
            status = cfg.ept_status if towers else 0x16C9A0D6
            if status:
                towers = []
            reply = encode_ept_map_reply(towers[: rq["max_towers"]], rq["max_towers"], status)
            body = struct.pack("<IHBB", len(reply), cid, 0, 0) + reply
            wire = finish(PT_RESPONSE, PFC_FIRST | PFC_LAST, p["call_id"], body)
            dc.sent.append({"conn": "epm", "ptype": PT_RESPONSE, "wire": wire, "stub": reply})
            return wire
        dc.violation(f"epm: unexpected PDU type {p['ptype']}")
        return self.fault(p["call_id"], 0x1C01000B)


class IsdConn(Conn):
    name = "isd"

    def __init__(self, dc: DC):
        super().__init__(dc)
        self.ctx = None
        self.atype = None
        self.client_sign = True
        self.sign = False
        self.legs = 0

    def make_ctx(self):
        cfg = self.dc.cfg
        if cfg.mode == "ntlm":
            import spnego

            proto = cfg.protocol if cfg.protocol in ("ntlm", "negotiate") else "ntlm"
            return spnego.server(protocol=proto, context_req=spnego.ContextReq.default | spnego.ContextReq.dce_style)
        ctoks, stoks = toy_tokens(cfg.nlegs, cfg.final_empty)
        return ToyServerCtx(cfg.sig_len, ctoks, stoks)

    def handle(self, pdu: bytes) -> bytes:
        dc, cfg = self.dc, self.dc.cfg
        entry: dict = {}
        dc.log.append(entry)
        try:
            p = parse_pdu(pdu)
        except Malformed as exc:
            dc.violation(f"isd: {exc}")
            return self.fault(0, 0x1C01000B)
        self.common_checks(p, entry)
        if p["ptype"] in (PT_BIND, PT_ALTER):
            return self.handle_bind(p, entry)
        if p["ptype"] == PT_REQUEST:
            return self.handle_request(p, entry, pdu)
        dc.violation(f"isd: unexpected PDU type {p['ptype']}")
        return self.fault(p["call_id"], 0x1C01000B)

    def handle_bind(self, p: dict, entry: dict) -> bytes:
        dc, cfg = self.dc, self.dc.cfg
        is_bind = p["ptype"] == PT_BIND
        b = parse_bind_body(p["body"])
        entry.update(kind="bind" if is_bind else "alter", max_xmit=b["max_xmit"], max_recv=b["max_recv"], assoc=b["assoc"],
                     contexts=b["contexts"], sec=None if p["sec"] is None else dict(p["sec"]))
        if is_bind == self.bound:
            dc.violation("isd: bind on a bound connection / alter_context before bind")
        sec = p["sec"]
        if sec is None:
            dc.violation("isd: bind / alter_context without a security trailer (ISD_KEY requires authentication)")
            nak = struct.pack("<H", 0x08) + bytes([1, 5, 0]) + b"\x00" * 3
            dc.sent.append({"conn": "isd", "ptype": PT_BIND_NAK})
            return finish(PT_BIND_NAK, PFC_FIRST | PFC_LAST, p["call_id"], nak)
        if sec["level"] != LEVEL_PRIVACY:
            dc.violation(f"isd: authentication level {sec['level']} is not RPC_C_AUTHN_LEVEL_PKT_PRIVACY")
        if sec["pad"] != len(b["rest"]) and b["rest"].strip(b"\x00") == b"":
            pass  # the trailer of a bind needs 4-byte alignment only; the pad octets are not declared by every client
        if sec["reserved"] != 0 or sec["ctx"] != 0:
            dc.violation("isd: auth_reserved / auth_context_id not zero")
        want_type = AUTHN[cfg.protocol]
        if sec["type"] != want_type:
            dc.violation(f"isd: security provider {sec['type']} differs from the one asked for ({want_type})")
        if (16 + len(p["body"])) % 4:
            dc.violation("isd: security trailer of a bind is not 4-byte aligned")
        if self.ctx is None:
            self.ctx = self.make_ctx()
            self.atype = sec["type"]
        if not (p["flags"] & PFC_SIGN):
            self.client_sign = False
        try:
            out_tok = self.ctx.step(sec["value"])
        except Exception as exc:  # noqa: BLE001 - whatever the mechanism raises is a failed authentication
            dc.violation(f"isd: authentication token rejected ({type(exc).__name__})")
            return self.fault(p["call_id"], 0x00000005)
        self.legs += 1
        results = []
        if is_bind:
            for cid, abstract, xfers in b["contexts"]:
                if abstract == SYN_ISD and SYN_NDR64 in xfers and cfg.isd_result == 0:
                    results.append((0, 0, SYN_NDR64))
                    self.accepted[cid] = SYN_NDR64
                elif abstract == SYN_ISD and len(xfers) == 1 and xfers[0][:8] == BTFN_PREFIX:
                    # bind time feature negotiation: result negotiate_ack (3), reason = the features this server supports
                    results.append((3, 3, bytes(20)))
                else:
                    results.append((2, 2, bytes(20)))
            self.bound = True
        else:
            for cid, abstract, xfers in b["contexts"]:
                if cid in self.accepted and abstract == SYN_ISD and self.accepted[cid] in xfers:
                    results.append((0, 0, self.accepted[cid]))
                else:
                    dc.violation("isd: alter_context carries a presentation context that was not accepted in the bind_ack")
                    results.append((2, 2, bytes(20)))
        flags = PFC_FIRST | PFC_LAST | (PFC_SIGN if cfg.header_sign else 0)
        self.sign = bool(cfg.header_sign and self.client_sign)
        body = bind_ack_body(str(cfg.isd_port), results) if is_bind else bind_ack_body("", results)
        if not is_bind:
            # alter_context_resp: secondary address is empty (length 0, no NUL)
            body = struct.pack("<HHI", 5840, 5840, 0x1234) + struct.pack("<H", 0) + b"\x00\x00" + bytes([len(results), 0, 0, 0]) \
                + b"".join(struct.pack("<HH", r, q) + x for r, q, x in results)
        rt = PT_BIND_ACK if is_bind else PT_ALTER_RESP
        dc.sent.append({"conn": "isd", "ptype": rt, "results": [r[0] for r in results], "flags": flags, "token": bytes(out_tok) if out_tok else None})
        if out_tok:
            body += b"\x00" * (-len(body) % 4)
            return finish(rt, flags, p["call_id"], body, sec_trailer(self.atype, 0), bytes(out_tok))
        return finish(rt, flags, p["call_id"], body)

    def unwrap(self, hdr: bytes, body: bytes, trl: bytes, sig: bytes) -> bytes:
        import spnego.iov as I

        st = I.BufferType.sign_only if self.sign else I.BufferType.data_readonly
        res = self.ctx.unwrap_iov([(st, hdr), body, (st, trl), (I.BufferType.header, sig)])
        return bytes(res.buffers[1].data or b"")

    def wrap(self, hdr: bytes, body: bytes, trl: bytes) -> t.Tuple[bytes, bytes]:
        import spnego.iov as I

        st = I.BufferType.sign_only if self.sign else I.BufferType.data_readonly
        res = self.ctx.wrap_iov([(st, hdr), body, (st, trl), I.BufferType.header], encrypt=True, qop=None)
        return bytes(res.buffers[1].data or b""), bytes(res.buffers[3].data or b"")

    def handle_request(self, p: dict, entry: dict, pdu: bytes) -> bytes:
        dc, cfg = self.dc, self.dc.cfg
        alloc, cid, opnum = struct.unpack("<IHH", p["body"][:8])
        sealed = p["body"][8:]
        sec = p["sec"]
        entry.update(kind="request", ctx_id=cid, opnum=opnum, alloc_hint=alloc, sec=None if sec is None else dict(sec), sign=self.sign)
        if not self.bound or self.ctx is None or not getattr(self.ctx, "complete", False):
            dc.violation("isd: request before the security context is established")
            return self.fault(p["call_id"], 0x00000005)
        if sec is None:
            dc.violation("isd: GetKey request without security trailer (not sealed)")
            return self.fault(p["call_id"], 0x00000005)
        if sec["level"] != LEVEL_PRIVACY:
            dc.violation(f"isd: request protected at level {sec['level']}, not RPC_C_AUTHN_LEVEL_PKT_PRIVACY")
            return self.fault(p["call_id"], 0x00000005)
        if sec["type"] != self.atype or sec["reserved"] != 0 or sec["ctx"] != 0:
            dc.violation("isd: security trailer of the request does not name the negotiated context")
        if (len(sealed)) % 16 or sec["off"] != 24 + len(sealed):
            dc.violation("isd: security trailer is not 16-byte aligned from the start of the stub")
        hdr24, trl8 = pdu[:24], pdu[sec["off"]:sec["off"] + 8]
        try:
            plain = self.unwrap(hdr24, sealed, trl8, sec["value"])
        except Exception as exc:  # noqa: BLE001
            dc.violation(f"isd: the request does not verify under the security context ({type(exc).__name__})")
            return self.fault(p["call_id"], 0x00000721)
        entry.update(header24=hdr24, plain=plain, trailer8=trl8, sig_len=len(sec["value"]))
        if p["flags"] & PFC_OBJECT:
            dc.violation("isd: unexpected object UUID")
        if alloc != len(sealed):
            dc.violation("isd: alloc_hint differs from the stub length")
        if cid not in self.accepted:
            dc.violation("isd: request on a presentation context that was not accepted")
            return self.sealed_fault(p, 0x1C00001A)
        if opnum != 0:
            dc.violation(f"isd: opnum {opnum} is not GetKey")
            return self.sealed_fault(p, 0x1C010002)
        pad = sec["pad"]
        if pad > len(plain) or plain[len(plain) - pad:] != b"\x00" * pad or pad > 15:
            dc.violation("isd: auth_pad_length does not describe zero padding at the end of the stub")
        stub = plain[: len(plain) - pad]
        try:
            args, used = decode_getkey_request(stub)
        except (Malformed, struct.error, ValueError) as exc:
            dc.violation(f"isd: GetKey stub is not valid NDR64: {exc}")
            return self.sealed_fault(p, 0x000006F7)
        entry.update(getkey=args, stub_len=used, stub=stub[:used])
        # MS-RPCE 2.2.2.13: the verification trailer follows the stub at the next 4-byte boundary
        off = used + (-used % 4)
        vt = stub[off:]
        entry["vt"] = vt
        entry["vt_offset"] = off
        want_vt = VT_SIGNATURE + struct.pack("<HH", VT_PCONTEXT | VT_END, 40) + SYN_ISD + self.accepted[cid]
        if stub[used:off] != b"\x00" * (off - used) or vt[:8] != VT_SIGNATURE:
            dc.violation("isd: no verification trailer at the 4-byte boundary after the stub")
            return self.sealed_fault(p, 0x00000005)
        if vt != want_vt:
            dc.violation("isd: verification trailer is not exactly the PCONTEXT|END command for ISD_KEY / the negotiated transfer syntax")
        sd, rk, l0, l1, l2 = args
        dc.getkey_calls.append(args)
        hres = cfg.getkey_hresult
        env = b""
        if hres == 0:
            try:
                env = dc.envelope_for(sd, rk, l0, l1, l2)
            except KeyError:
                hres = 0x80070002
        dc.envelopes.append(env)
        reply = encode_getkey_reply(env, hres)
        return self.sealed_response(p, cid, reply)

    def sealed_response(self, p: dict, cid: int, reply: bytes) -> bytes:
        sig_len = self.sig_size()
        hdr24, rstub, trl = plain_response(self.atype, sig_len, p["call_id"], cid, reply)
        sealed_out, sig = self.wrap(hdr24, rstub, trl)
        if len(sig) != sig_len or len(sealed_out) != len(rstub):
            raise RuntimeError("security context changed its sizes")
        self.dc.sent.append({"conn": "isd", "ptype": PT_RESPONSE, "plain_wire": hdr24 + rstub + trl + b"\x00" * sig_len, "stub": reply,
                             "pad": len(rstub) - len(reply)})
        return hdr24 + sealed_out + trl + sig

    def sealed_fault(self, p: dict, status: int) -> bytes:
        return self.fault(p["call_id"], status)

    def sig_size(self) -> int:
        return int(self.ctx.query_message_sizes().header)


# ------------------------------------------------------------------------------------------------------------------
# in-process transport and the hook
# ------------------------------------------------------------------------------------------------------------------
class PipeSocket:
    """socket.socket stand-in connected to one DC connection; recv delivers the reply in segments."""

    def __init__(self, conn: Conn, segments: t.Optional[t.List[int]] = None):
        self.conn, self.rx, self.segments = conn, bytearray(), list(segments or [])
        self.open = True

    def settimeout(self, _t):
        pass

    def sendall(self, data):
        if not self.open:
            raise OSError("socket closed")
        self.rx += self.conn.feed(bytes(data))

    def _take(self, n: int) -> bytes:
        if not self.rx:
            return b""  # the server is synchronous: nothing pending means the peer has nothing more to say
        k = min(n, max(1, self.segments.pop(0))) if self.segments else n
        out = bytes(self.rx[:k])
        del self.rx[:k]
        return out

    def recv(self, n, *a):
        return self._take(n)

    def recv_into(self, view, *a):
        d = self._take(len(view))
        view[: len(d)] = d
        return len(d)

    def shutdown(self, *a):
        pass

    def close(self):
        self.open = False
        self.conn.closed = True


class PipeWriter:
    def __init__(self, conn: Conn, reader: asyncio.StreamReader, segments: t.Optional[t.List[int]] = None):
        self.conn, self.reader, self.segments = conn, reader, list(segments or [])

    def write(self, data):
        out = self.conn.feed(bytes(data))
        while out:
            k = max(1, self.segments.pop(0)) if self.segments else len(out)
            self.reader.feed_data(out[:k])
            out = out[k:]

    async def drain(self):
        await asyncio.sleep(0)

    def close(self):
        self.conn.closed = True
        self.reader.feed_eof()

    async def wait_closed(self):
        await asyncio.sleep(0)


def ntlm_user_file() -> str:
    here = os.path.dirname(os.path.dirname(os.path.abspath(__file__)))
    path = os.path.join(here, "build", "refdc_ntlm_users.txt")
    os.makedirs(os.path.dirname(path), exist_ok=True)
    text = f"{NTLM_DOMAIN}:{NTLM_USER}:{NTLM_PASSWORD}\n"
    if not os.path.exists(path) or open(path).read() != text:
        with open(path, "w") as fh:
            fh.write(text)
    return path


@contextlib.contextmanager
def hook(dc: DC, segments: t.Optional[t.List[int]] = None):
    """Connects the library to `dc` for the duration: socket.create_connection, asyncio.open_connection and (toy mode)
    spnego.client are replaced in the harness process. Nothing under /repo is touched."""
    import socket

    import spnego

    cfg = dc.cfg
    real_cc, real_oc, real_client = socket.create_connection, asyncio.open_connection, spnego.client
    saved_env = os.environ.get("NTLM_USER_FILE")

    def create_connection(address, timeout=None, *a, **kw):
        host, port = address
        return PipeSocket(dc.connect(port), segments)

    async def open_connection(host=None, port=None, **kw):
        conn = dc.connect(port)
        reader = asyncio.StreamReader()
        return reader, PipeWriter(conn, reader, segments)

    nested = [0]

    def client(username=None, password=None, hostname="unspecified", service="host", channel_bindings=None,
               context_req=None, protocol="negotiate", options=0, **kw):
        if nested[0]:
            # the SPNEGO proxy builds its sub-mechanism contexts through spnego.client as well: not the library's call
            return real_client(username, password, hostname=hostname, service=service, channel_bindings=channel_bindings,
                               context_req=context_req, protocol=protocol, options=options, **kw)
        dc.client_args.append({"username": username, "password": password, "hostname": hostname, "service": service,
                               "protocol": protocol, "context_req": int(context_req) if context_req is not None else None})
        if cfg.mode == "ntlm":
            ctx = RecordingCtx(real_client(username, password, hostname=hostname, service=service, context_req=context_req,
                                           protocol=protocol, options=options, **kw), nested)
        else:
            ctoks, stoks = toy_tokens(cfg.nlegs, cfg.final_empty)
            ctx = ToyClientCtx(cfg.sig_len, ctoks, stoks)
        dc.client_ctxs.append(ctx)
        return ctx

    socket.create_connection, asyncio.open_connection, spnego.client = create_connection, open_connection, client
    if cfg.mode == "ntlm":
        os.environ["NTLM_USER_FILE"] = ntlm_user_file()
    try:
        yield dc
    finally:
        socket.create_connection, asyncio.open_connection, spnego.client = real_cc, real_oc, real_client
        if cfg.mode == "ntlm":
            if saved_env is None:
                os.environ.pop("NTLM_USER_FILE", None)
            else:
                os.environ["NTLM_USER_FILE"] = saved_env
