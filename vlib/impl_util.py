"""Helpers to build library objects from case values."""
import uuid


def hash_of_id(i):
    from cryptography.hazmat.primitives import hashes

    return {1: hashes.SHA1, 2: hashes.SHA256, 3: hashes.SHA384, 4: hashes.SHA512}[i]()


HASH_NAMES = {1: "SHA1", 2: "SHA256", 3: "SHA384", 4: "SHA512"}


def kdf_params(i) -> bytes:
    from dpapi_ng._gkdi import KDFParameters

    return KDFParameters(HASH_NAMES[i]).pack()


def mk_env(l0, l1, l2, rkid_le, l1_key, l2_key, flags=2, version=1, kdf_alg="SP800_108_CTR_HMAC", kdf_par=None,
           sec_alg="DH", sec_par=b"", priv=512, pub=2048, domain="", forest=""):
    from dpapi_ng._gkdi import GroupKeyEnvelope

    return GroupKeyEnvelope(version=version, flags=flags, l0=l0, l1=l1, l2=l2,
                            root_key_identifier=uuid.UUID(bytes_le=bytes(rkid_le)), kdf_algorithm=kdf_alg,
                            kdf_parameters=kdf_par if kdf_par is not None else kdf_params(4),
                            secret_algorithm=sec_alg, secret_parameters=sec_par, private_key_length=priv,
                            public_key_length=pub, domain_name=domain, forest_name=forest,
                            l1_key=bytes(l1_key), l2_key=bytes(l2_key))
