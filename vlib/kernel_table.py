"""The list of kernels regenerated from source on every run (see DESIGN.md Appendix A)."""
from .kernels import Kernel as K

Z, B = "Z", "bool"

KERNELS = [
    # ---- C09: interval computation in _get_protection_gke_from_cache -----------------------
    K("k_now", "_client.py", "_get_protection_gke_from_cache", ("assign", "current_time", 0),
      [("time_ns", Z)], Z, props=("C09",), calls=(("time.time_ns", "time_ns"),)),
    K("k_l0", "_client.py", "_get_protection_gke_from_cache", ("assign", "l0", 0),
      [("current_time", Z)], Z, props=("C09",)),
    K("k_l1", "_client.py", "_get_protection_gke_from_cache", ("assign", "l1", 0),
      [("current_time", Z)], Z, props=("C09",)),
    K("k_l2", "_client.py", "_get_protection_gke_from_cache", ("assign", "l2", 0),
      [("current_time", Z)], Z, props=("C09",)),
]
