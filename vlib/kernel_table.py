"""Aggregates the per-area kernel tables vlib/ktab/<area>.py.
Each area module defines KERNELS (list), optionally TWINS, CONSTS and FLOWS (whole functions translated by vlib/flow.py
into coq/gen/F_<a>.v). Area `core` is written to
coq/gen/Kernels.v + coq/gen/Consts.v; any other area <a> to coq/gen/K_<a>.v + coq/gen/C_<a>.v."""
import importlib
import os
import pkgutil

from . import ktab


def areas():
    out = {}
    for m in sorted(pkgutil.iter_modules(ktab.__path__), key=lambda m: m.name):
        try:
            out[m.name] = importlib.import_module(f"vlib.ktab.{m.name}")
        except Exception as exc:  # a broken table must not break the other areas
            out[m.name] = exc
    return out


def kernel_file(area):
    return "Kernels.v" if area == "core" else f"K_{area}.v"


def flow_file(area):
    return "Flows.v" if area == "core" else f"F_{area}.v"


def const_file(area):
    return "Consts.v" if area == "core" else f"C_{area}.v"


def all_kernels():
    ks = []
    for a, mod in areas().items():
        if not isinstance(mod, Exception):
            ks += list(getattr(mod, "KERNELS", []))
    return ks


KERNELS = all_kernels()
