"""Toy security context (mirror of coq/Model/Toy.v) behind the REAL dpapi_ng AuthenticationProvider:
a fake pyspnego context object providing wrap_iov / unwrap_iov / query_message_sizes / step."""
from __future__ import annotations

import typing as t


def toy_enc(body: bytes) -> bytes:
    return bytes(b ^ 90 for b in body)


def toy_sig(seq: int, sign: bool, header: bytes, sealed: bytes, trailer: bytes, sig_len: int) -> bytes:
    data = (header if sign else b"") + sealed + (trailer if sign else b"")
    s1, s2, i = (1 + seq) % 65521, 0, 1
    for b in data:
        s1 = (s1 + b) % 65521
        s2 = (s2 + i * (b + 1)) % 65521
        i += 1
    base = s1.to_bytes(4, "big") + s2.to_bytes(4, "big") + (len(data) % (1 << 32)).to_bytes(4, "big") + ((seq * 7 + 3) % (1 << 32)).to_bytes(4, "big")
    return (base * (sig_len // 16 + 1))[:sig_len]


class BadMIC(Exception):
    """stands for spnego.exceptions.BadMICError"""


class _Buf:
    def __init__(self, data):
        self.data = data


class _Res:
    def __init__(self, bufs):
        self.buffers = bufs


class FakeSpnegoCtx:
    def __init__(self, sig_len: int, send_seq: int = 0, recv_seq: int = 0):
        self.sig_len, self.send_seq, self.recv_seq = sig_len, send_seq, recv_seq
        self.complete = True
        self.wrap_calls: t.List[list] = []
        self.unwrap_calls: t.List[list] = []

    class _Sizes:
        def __init__(self, n):
            self.header = n

    def query_message_sizes(self):
        return self._Sizes(self.sig_len)

    @staticmethod
    def _norm(iov):
        import spnego.iov as I

        out = []
        for b in iov:
            if isinstance(b, tuple):
                out.append((b[0], bytes(b[1]) if b[1] is not None else None))
            elif isinstance(b, (bytes, bytearray, memoryview)):
                out.append((I.BufferType.data, bytes(b)))
            else:
                out.append((b, None))
        return out

    def wrap_iov(self, iov, encrypt=True, qop=None):
        import spnego.iov as I

        bufs = self._norm(iov)
        (t0, header), (t1, body), (t2, trailer), (t3, _) = bufs
        sign = t0 == I.BufferType.sign_only and t2 == I.BufferType.sign_only
        shape_ok = (t1 == I.BufferType.data and t3 == I.BufferType.header and encrypt is True and qop is None
                    and t0 in (I.BufferType.sign_only, I.BufferType.data_readonly) and t0 == t2)
        self.wrap_calls.append([header, body, trailer, bool(sign), bool(shape_ok)])
        sealed = toy_enc(body)
        sig = toy_sig(self.send_seq, sign, header, sealed, trailer, self.sig_len)
        self.send_seq += 1
        return _Res([_Buf(header), _Buf(sealed), _Buf(trailer), _Buf(sig)])

    def unwrap_iov(self, iov):
        import spnego.iov as I

        bufs = self._norm(iov)
        (t0, header), (t1, body), (t2, trailer), (t3, sig) = bufs
        sign = t0 == I.BufferType.sign_only and t2 == I.BufferType.sign_only
        self.unwrap_calls.append([header, body, trailer, sig, bool(sign)])
        good = len(sig) > 0 and sig == toy_sig(self.recv_seq, sign, header, body, trailer, len(sig))
        if not good:
            raise BadMIC("toy context: signature mismatch")
        self.recv_seq += 1
        return _Res([_Buf(header), _Buf(toy_enc(body)), _Buf(trailer), _Buf(sig)])


def make_provider(ptype: int, sig_len: int, send_seq: int = 0, recv_seq: int = 0):
    """A real dpapi_ng._rpc._auth.AuthenticationProvider (built by its own __init__) whose pyspnego
    context is the toy one: spnego.client is replaced for the duration of the constructor call."""
    import dpapi_ng._rpc._auth as A

    protocol = {9: "negotiate", 10: "ntlm", 16: "kerberos"}[ptype]
    fake = FakeSpnegoCtx(sig_len, send_seq, recv_seq)
    real = A.spnego.client
    A.spnego.client = lambda *a, **kw: fake
    try:
        p = A.AuthenticationProvider("user", "pass", "host.test", protocol)
    finally:
        A.spnego.client = real
    return p
