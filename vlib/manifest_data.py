"""Source of MANIFEST.json (python tools_gen_manifest.py rewrites it)."""

def check(pid, text, note, technique, design_ref):
    return {
        "property_id": pid,
        "quick_cmd": f"./check {pid} --tier quick",
        "thorough_cmd": f"./check {pid} --tier thorough",
        "evidence_file": f"/verif/evidence/{pid}.json",
        "replay_cmd_template": "./check replay {path}",
        "engine": "coq-model",
        "level_claimed": {"category": "proof", "text": text, "design_ref": design_ref},
        "level_note": note,
        "technique": technique,
    }

COMMON_NOTE = ("Trusted: Coq 8.16.1 kernel (vm_compute, no native_compute); property theorems closed under the global context "
               "(Print Assumptions parsed on every run); kernel extractor vlib/kernels.py; extraction with ExtrOcamlBasic only + ocaml/driver.ml; "
               "correspondence harness and its monkeypatches; external libraries modelled as parameters (DESIGN.md section 4). ")

CHECKS = [
    check("C09",
          "Coq theorems over the interval arithmetic regenerated from _get_protection_gke_from_cache on every run: for all t >= 0 the named (L0,L1,L2) are the floor formulas, "
          "the named interval contains t and is the unique such in-range triple; unbounded in t. Tie to the code: the kernels ARE the code's expressions (translator), plus a "
          "correspondence run of ncrypt_protect_secret under a patched clock on boundary tables against the extracted model.",
          COMMON_NOTE + "Assumes time.time_ns() is the only clock read; float division is modelled as exactly rounded binary64 (validated against CPython by unit truediv.prim).",
          "Coq proof (lia over regenerated kernels) + differential correspondence", "7/C09"),
]

ALL = ["C%02d" % i for i in range(1, 21)]
NOT_APPLICABLE = [
    {"property_id": p, "reason": "not claimed yet: the model and theorems for this property are still being built (see DESIGN.md section 9); the technique applies"}
    for p in ALL if p not in [c["property_id"] for c in CHECKS]
]
NOTES = "All checks share ./check (vlib/runner.py). Evidence is rewritten by every run. known_findings.txt lists repaired defects (fixed:) and recorded findings."
