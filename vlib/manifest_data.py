"""Source of MANIFEST.json (python tools_gen_manifest.py rewrites it)."""

def check(pid, text, note, technique, design_ref):
    return {
        "property_id": pid,
        "quick_cmd": f"./check {pid} --tier quick",
        "thorough_cmd": f"./check {pid} --tier thorough",
        "evidence_file": f"/verif/evidence/{pid}.json",
        "replay_cmd_template": "./check replay {path}",
        "engine": "coq-model",
        "level_claimed": {"category": "proof", "text": text, "design_ref": design_ref},
        "level_note": note,
        "technique": technique,
    }

COMMON_NOTE = ("Trusted: Coq 8.16.1 kernel (vm_compute, no native_compute); property theorems closed under the global context "
               "(Print Assumptions parsed on every run); kernel extractor vlib/kernels.py; extraction with ExtrOcamlBasic only + ocaml/driver.ml; "
               "correspondence harness and its monkeypatches; external libraries modelled as parameters (DESIGN.md section 4). ")

NOTES = "All checks share ./check (vlib/runner.py). Evidence is rewritten by every run. known_findings.txt lists repaired defects (fixed:) and recorded findings."
