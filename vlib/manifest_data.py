"""Source of MANIFEST.json (python tools_gen_manifest.py rewrites it)."""

def check(pid, text, note, technique, design_ref):
    return {
        "property_id": pid,
        "quick_cmd": f"./check {pid} --tier quick",
        "thorough_cmd": f"./check {pid} --tier thorough",
        "evidence_file": f"/verif/evidence/{pid}.json",
        "replay_cmd_template": "./check replay {path}",
        "engine": "coq-model",
        "level_claimed": {"category": "proof", "text": text, "design_ref": design_ref},
        "level_note": note,
        "technique": technique,
    }

COMMON_NOTE = ("Trusted: Coq 8.16.1 kernel (vm_compute, no native_compute); property theorems closed under the global context "
               "(Print Assumptions parsed on every run); kernel extractor vlib/kernels.py; extraction with ExtrOcamlBasic only + ocaml/driver.ml; "
               "correspondence harness and its monkeypatches; external libraries modelled as parameters (DESIGN.md section 4). ")

CHECKS = [
    check("C20",
          "Coq theorems over _dns.py with the sort key, f-strings, rstrip argument and resolve() arguments regenerated from the source: for every non-empty answer list (unbounded) the "
          "selected record is a member with minimal priority and, among those, maximal weight; port/weight/priority copied, target stripped of trailing dots; selection is invariant under "
          "permutation up to ties; the query name is prefix.domain or the bare prefix; sync and async lookups are the same normalised AST. Tie: kernels + correspondence on all multisets/permutations, both flavours.",
          COMMON_NOTE + "Assumes sorted() stability (first minimiser) and the resolver contract; sync=async is a syntactic comparison backed by running both flavours.",
          "Coq proof (induction over the answer list, lia over regenerated sort key) + exhaustive small-domain correspondence", "7/C20"),
    check("C02",
          "Coq theorems over the statement-level translation of compute_l2_key regenerated from _gkdi.py on every run, for an arbitrary KDF and key type: from every conforming envelope "
          "covering an in-range request the result is the MS-GKDI chain key K2(l1,l2) (all 2^20 position pairs, all shapes, any root key/SD/L0/hash; fuel 32 suffices = termination); "
          "a non-covering or out-of-range request is ValueError for every fuel (neither a key nor a loop). Tie: the control skeleton is translated from the source; compute_kdf_context / "
          "compute_l1_key / kdf argument shapes by correspondence under the symbolic KDF (output bytes are derivation terms).",
          COMMON_NOTE + "kdf is universally quantified; the statement translator of compute_l2_key is trusted and validated by the correspondence unit chain.l2.",
          "Coq proof (loop invariants over regenerated control skeleton) + differential correspondence under symbolic crypto", "7/C02"),
    check("C09",
          "Coq theorems over the interval arithmetic regenerated from _get_protection_gke_from_cache on every run: for all t >= 0 the named (L0,L1,L2) are the floor formulas, "
          "the named interval contains t and is the unique such in-range triple; unbounded in t. Tie to the code: the kernels ARE the code's expressions (translator), plus a "
          "correspondence run of ncrypt_protect_secret under a patched clock on boundary tables against the extracted model.",
          COMMON_NOTE + "Assumes time.time_ns() is the only clock read; float division is modelled as exactly rounded binary64 (validated against CPython by unit truediv.prim).",
          "Coq proof (lia over regenerated kernels) + differential correspondence", "7/C09"),
]

ALL = ["C%02d" % i for i in range(1, 21)]
NOT_APPLICABLE = [
    {"property_id": p, "reason": "not claimed yet: the model and theorems for this property are still being built (see DESIGN.md section 9); the technique applies"}
    for p in ALL if p not in [c["property_id"] for c in CHECKS]
]
NOTES = "All checks share ./check (vlib/runner.py). Evidence is rewritten by every run. known_findings.txt lists repaired defects (fixed:) and recorded findings."
