"""Text encoding of the boundary value type (mirror of coq/Prelude/Val.v and ocaml/driver.ml)."""
from __future__ import annotations

import typing as t


class Err:
    """An exception class name, as a value."""

    __slots__ = ("name",)

    def __init__(self, name: str):
        self.name = name

    def __eq__(self, other):
        return isinstance(other, Err) and other.name == self.name

    def __hash__(self):
        return hash(("Err", self.name))

    def __repr__(self):
        return f"Err({self.name})"


def enc(v: t.Any) -> str:
    if v is None:
        return "n"
    if isinstance(v, bool):
        return "i1" if v else "i0"
    if isinstance(v, int):
        return ("i-%x" % -v) if v < 0 else ("i%x" % v)
    if isinstance(v, (bytes, bytearray, memoryview)):
        return "b" + bytes(v).hex()
    if isinstance(v, str):
        return "s" + ",".join("%x" % ord(c) for c in v)
    if isinstance(v, Err):
        return "e" + v.name
    if isinstance(v, (list, tuple)):
        return "[" + " ".join(enc(x) for x in v) + "]"
    raise TypeError(f"cannot encode {type(v).__name__}")


def dec(s: str) -> t.Any:
    pos = 0
    n = len(s)

    def tok_end(i: int) -> int:
        while i < n and s[i] not in " ]":
            i += 1
        return i

    def value() -> t.Any:
        nonlocal pos
        c = s[pos]
        if c == "i":
            j = tok_end(pos)
            body = s[pos + 1 : j]
            pos = j
            return -int(body[1:], 16) if body.startswith("-") else int(body, 16)
        if c == "b":
            j = tok_end(pos)
            body = s[pos + 1 : j]
            pos = j
            return bytes.fromhex(body)
        if c == "s":
            j = tok_end(pos)
            body = s[pos + 1 : j]
            pos = j
            return "".join(chr(int(x, 16)) for x in body.split(",")) if body else ""
        if c == "n":
            pos += 1
            return None
        if c == "e":
            j = tok_end(pos)
            name = s[pos + 1 : j]
            pos = j
            return Err(name)
        if c == "[":
            pos += 1
            items = []
            while True:
                while pos < n and s[pos] == " ":
                    pos += 1
                if s[pos] == "]":
                    pos += 1
                    return items
                items.append(value())
        raise ValueError(f"bad value text at {pos}: {s[pos:pos+20]!r}")

    return value()
