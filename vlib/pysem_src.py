"""Pure Python functions exercising every construct of the subset vlib/flow.py translates, one construct family per function.
They are translated like library code into coq/gen/F_pysem.v, run by the extracted interpreter (Prelude/PyAst.v + PyWorld.v with
an EMPTY extension: only Python's own values and builtins) and by CPython on the same arguments: a direct check of the
translator + interpreter + standard world, i.e. of the semantics the flow tie theorems rest on. Not part of the library."""


def t_arith(a, b):
    return (a + b, a - b, a * b, a << 3, a >> 2, a & b, a | b, a ^ b, -a, a ** 2)


def t_divmod(a, b):
    if b == 0:
        return None
    return (a // b, a % b)


def t_cmp(a, b):
    return [a < b, a <= b, a == b, a != b, a > b, a >= b, 0 <= a <= b, 0 <= a < b < 100, a is None, b is not None]


def t_bool(a, b):
    return (a and b, a or b, not a, (a or b) and a, a if b else -1)


def t_seq_cmp(x, y):
    return (x == y, x != y, x < y, x <= y, x > y, x >= y)


def t_list_eq(x, y):
    return (x == y, x != y)


def t_slice(x, i, j):
    return (x[i:j], x[:i], x[j:], x[-1:], x[:-1], x[i:], len(x))


def t_index(x, i):
    return x[i]


def t_while(n):
    s = 0
    i = 0
    while i < n:
        i += 1
        if i % 3 == 0:
            continue
        if i > 50:
            break
        s += i
    return (s, i)


def t_for(xs):
    acc = []
    total = 0
    for i, x in enumerate(xs):
        if x < 0:
            continue
        if x > 1000:
            break
        acc.append(x * i)
        total += x
    return (acc, total)


def t_nested(n):
    out = []
    for i in range(n):
        for j in range(i):
            if j == 2:
                break
            out.append((i, j))
        if i == 5:
            return out
    return out


def t_comp(xs):
    return ([x * 2 for x in xs if x % 2 == 0], [x for x in xs if x > 1 if x < 9], b"".join(bytes([x & 255]) for x in xs))


def t_tuple(p):
    a, b = p
    a, b = b, a
    return (a, b, (a, b) == p)


def t_bytes(b, n):
    return b"".join([b, n.to_bytes(4, "little"), b[:2], n.to_bytes(2, byteorder="big")])


def t_to_bytes(n, w):
    return (n.to_bytes(w, "little"), n.to_bytes(w, byteorder="big"))


def t_signed(n, w):
    b = n.to_bytes(w, byteorder="little", signed=True)
    return (b, int.from_bytes(b, byteorder="little", signed=True), int.from_bytes(b, "big"))


def t_from_bytes(b):
    return (int.from_bytes(b, "little"), int.from_bytes(b, byteorder="big"), int.from_bytes(b[1:3], byteorder="little"))


def t_setitem(b, i, v):
    x = bytearray(b)
    x[i] = v
    x[i] += 1
    x.append(7)
    x.reverse()
    return (bytes(x), len(x))


def t_setslice(b, i, j, y):
    x = bytearray(b)
    x[i:j] = y
    return bytes(x)


def t_list(xs, v):
    ys = list(xs)
    ys.append(v)
    ys[0] = v
    ys.extend([1, 2])
    ys.reverse()
    return (ys, v in ys, v not in xs, len(ys), list(reversed(ys)))


def t_str(s):
    return (s.encode("utf-8"), s + "x", len(s), s.encode("utf-16-le"), s == "abc", s[1:], s < "b")


def t_decode(b):
    return (b.decode("utf-8"), len(b))


def t_decode16(b):
    return b.decode("utf-16-le")


def t_truthy(v):
    if v:
        return 1
    return 0


def t_fallthrough(a):
    if a:
        return 1


def t_raise(a):
    if a < 0:
        raise ValueError(f"negative {a}")
    if a > 100:
        raise NotImplementedError("big")
    return a


def t_aug(a):
    a += 1
    a <<= 2
    a |= 1
    a -= 3
    a *= 5
    a //= 2
    a %= 1000
    a ^= 21
    a &= 4095
    a >>= 1
    return a


def t_shortcircuit(xs):
    # the right operand must not be evaluated (it would raise IndexError)
    return (len(xs) > 3 and xs[3], len(xs) == 0 or xs[0], xs[0] if xs else None)


def t_minmax(a, b):
    return (min(a, b), max(a, b), bool(a), a.bit_length())


def t_range(a, b):
    return (list(range(a)), list(range(a, b)), [i for i in range(b)])


def t_mul(b, n):
    return (b * n, n * b, b"\x00" * n)


# ---- objects: attribute stores, receivers that are attribute paths, `with` (single-owner objects, as the flow semantics has them) ----
class Box:
    def __init__(self):
        self.items = []
        self.n = 0
        self.tag = b""


class W:
    """a writer in the style of ASN1Writer: a pushed child hands its data to its parent when the `with` block ends"""

    def __init__(self, parent=None):
        self.data = bytearray()
        self.parent = parent

    def push(self):
        return W(self)

    def __enter__(self):
        return self

    def __exit__(self, *a):
        self.parent.data.extend(b"[" + bytes(self.data) + b"]")

    def put(self, b):
        self.data.extend(b)

    def get(self):
        return bytes(self.data)


def o_attr(xs, k):
    b = Box()
    b.n = k
    b.n += len(xs)
    b.tag = b"t" * k
    b.items.append(k)          # receiver is an attribute path: written back through w_setattr
    b.items.extend(xs)
    for x in xs:
        if x == 3:
            b.items.append(-x)
    return (b.n, b.tag, b.items, len(b.items))


def o_with(a, b):
    w = W()
    w.put(a)
    with w.push() as c:
        c.put(b)
        with c.push() as d:
            d.put(a)
            d.put(a)
        c.put(b"!")
    w.put(b)
    return w.get()


def o_with_loop(parts):
    w = W()
    for p in parts:
        with w.push() as c:
            if p:
                c.put(p)
    return w.get()
