"""Semantics self-test of the flow machinery: every function of vlib/pysem_src.py is run (a) by CPython and (b) as its regenerated
flow by the extracted interpreter of Prelude/PyAst.v in the standard world of Prelude/PyWorld.v with an empty extension.
A disagreement means the translator, the interpreter or a builtin of the standard world does not follow Python: the tie
theorems `run W fuel k_flow_f args = model_f args` would then be about the wrong semantics. Attached by the runner to every
property that lists a flow."""
import itertools
import random

from . import pysem_src
from .runner import Unit

INTS = [0, 1, -1, 2, 3, 7, 8, 15, 16, 127, 128, 255, 256, -128, -129, 65535, 65536, 2 ** 31 - 1, 2 ** 31, 2 ** 32 - 1, 2 ** 32, -2 ** 31, 2 ** 63, 2 ** 64 - 1, 2 ** 64,
        -2 ** 63, 12345678901234567890123]
SMALL = [0, 1, -1, 2, 3, 5, -2, -3, 4, 6, 7, 10, -7, 100, -100]
BYTES = [b"", b"\x00", b"a", b"ab", b"abc", b"abcdef", b"\xff\xfe", bytes(range(16)), b"\x80" * 3, b"\x00\x01\x00"]
IDX = [0, 1, 2, -1, -2, 5, -5, 6, -6, 7, -7, 100, -100]
STRS = ["", "a", "abc", "abd", "b", "é", "中文", "\U0001F600", "a\x00b", "﻿x", "ab" * 20]
LISTS = [[], [1], [1, 2, 3], [2, 4, 6, 8], [-1, 5, 2000, 7], [0, 0, 0], list(range(12)), [3, -3, 1001, 4], [9, 8, 1, 2, 10]]


def cases(rng: random.Random, thorough: bool):
    out = []

    def add(name, *argsets, limit=None):
        combos = list(itertools.product(*argsets))
        if limit and len(combos) > limit and not thorough:
            combos = rng.sample(combos, limit)
        for c in combos:
            out.append([name, list(c)])

    add("t_arith", INTS, INTS, limit=120)
    add("t_divmod", INTS, INTS, limit=150)
    add("t_cmp", SMALL + [99, 100, 101], SMALL + [99, 100], limit=120)
    add("t_bool", [0, 1, 2, -1], [0, 3, -1])
    add("t_bool", [b"", b"x"], [[], [0]])
    add("t_bool", ["", "s", None], [None, 0, b""])
    add("t_seq_cmp", BYTES, BYTES, limit=60)
    add("t_seq_cmp", STRS, STRS, limit=60)
    # ordering of LISTS is deliberately not given a meaning by the standard world (TypeError): only == / != are tested for them
    add("t_list_eq", [[], [1], [1, 2], [b"a", 1], [None], [[1], []]], [[], [1], [1, 2], [b"a", 1], [None], [1, 3], [[1], []]])
    add("t_slice", BYTES, IDX, IDX, limit=200)
    add("t_slice", LISTS[:5] + STRS[:4], IDX, IDX, limit=120)
    add("t_index", BYTES + LISTS[:4] + STRS[:5], IDX, limit=150)
    add("t_while", [0, 1, 2, 3, 4, 10, 49, 50, 51, 52, 60, 200])
    add("t_for", LISTS)
    add("t_for", [b"\x00\x05\xff", b""])
    add("t_nested", list(range(9)))
    add("t_comp", LISTS)
    add("t_tuple", [[1, 2], [b"a", None], [[1], [2]]])
    add("t_tuple", [[1], [1, 2, 3], 5, None])  # wrong arity / not iterable
    add("t_bytes", BYTES[:5], [0, 1, 255, 65535, 65536, 2 ** 32 - 1, 2 ** 32, -1])
    add("t_to_bytes", INTS, [0, 1, 2, 4, 8, 16, -1], limit=120)
    add("t_signed", INTS + [-2 ** 15, 2 ** 15 - 1, 2 ** 15, -2 ** 15 - 1], [0, 1, 2, 4, 8], limit=150)
    add("t_from_bytes", BYTES)
    add("t_setitem", BYTES, IDX, [0, 1, 254, 255, 256, -1], limit=150)
    add("t_setslice", BYTES[:7], IDX[:9], IDX[:9], [b"", b"Z", b"XYZ"], limit=200)
    add("t_list", LISTS, [0, 7, b"x", None])
    add("t_str", STRS + ["\ud800", "a\udfff"])
    add("t_decode", BYTES + ["é".encode(), "中".encode(), "\U0001F600".encode(), b"\xc0\xaf", b"\xed\xa0\x80", b"\xf4\x90\x80\x80", b"\xef\xbb\xbfx", b"\xe2\x82"])
    add("t_decode16", BYTES + ["é中".encode("utf-16-le"), "\U0001F600".encode("utf-16-le"), b"\x00\xd8", b"\x00\xdc\x00\xd8", b"\xff\xfea\x00", b"\x00\xd8\x00\xdc"])
    add("t_truthy", [0, 1, -1, b"", b"\x00", "", "0", [], [0], [[]], None])
    add("t_fallthrough", [0, 1, b"", [None]])
    add("t_raise", [-1, 0, 50, 100, 101])
    add("t_aug", INTS + SMALL, limit=40)
    add("t_shortcircuit", LISTS + [b"", b"abcd", [0, 0, 0, 0], [None, 1, 2, []]])
    add("t_minmax", INTS, SMALL, limit=80)
    add("t_range", [0, 1, 3, -2, 7], [0, 2, 5, -1])
    add("t_mul", [b"", b"ab", b"\x00"], [0, 1, 3, -1, 5])
    return out


def obj_cases(rng: random.Random, thorough: bool):
    out = []
    for xs in LISTS[:7] + [[3, 3, 1]]:
        for k in (0, 1, 2, 5):
            out.append(["o_attr", [xs, k]])
    for a in BYTES[:6]:
        for b in BYTES[:5]:
            out.append(["o_with", [a, b]])
    for parts in ([], [b""], [b"a"], [b"a", b"", b"bc"], [b"", b""], [b"x"] * 5):
        out.append(["o_with_loop", [parts]])
    return out


def impl(arg):
    name, args = arg
    return getattr(pysem_src, name)(*args)


def units(ctx):
    cs = [] if getattr(ctx, "replay_only", False) else cases(ctx.rng, ctx.thorough)
    oc = [] if getattr(ctx, "replay_only", False) else obj_cases(ctx.rng, ctx.thorough)
    # both interpreters write a receiver back when it is a place (local name or attribute path): b.items.append(..) updates b
    oc_plain = oc
    return [Unit("flow.semantics", "pysem.run", cs, impl), Unit("flow.semantics.mut", "pysem.run_mut", cs, impl),
            Unit("flow.semantics.obj.mut", "pysem.obj_mut", oc, impl), Unit("flow.semantics.obj", "pysem.obj", oc_plain, impl)]
