"""Runs cases of one correspondence unit in THIS process, which the runner starts with a changed process environment (time zone, -O, hash
seed ...): `python -m vlib.envrun <Cxx> <unit name>` reads one encoded case per line on stdin and prints one implementation output per
line. Used by runner.run_env_matrix: what the library computes must not depend on such process-global state."""
import importlib
import sys


def main() -> int:
    prop, unit_name = sys.argv[1], sys.argv[2]
    from . import core
    from .runner import Ctx
    from .val import dec

    core.setup_impl_path()
    mod = importlib.import_module(f"vlib.props.{prop.lower()}")
    ctx = Ctx(prop, "quick", 0)
    ctx.area = getattr(mod, "AREA", "core")
    ctx.replay_only = True  # type: ignore[attr-defined]
    units = {u.name: u for u in mod.units(ctx)}
    u = units.get(unit_name)
    if u is None:
        print("!unit-not-found")
        return 2
    for line in sys.stdin:
        line = line.rstrip("\n")
        if not line:
            continue
        print(core.run_impl(u.impl, dec(line)), flush=True)
    return 0


if __name__ == "__main__":
    sys.exit(main())
