"""End-to-end harness for the offline protect / unprotect paths (area e2e): builds KeyCache objects,
patches clock / RNG / DC lookup, runs the public API under the symbolic crypto."""
from __future__ import annotations

import os
import time
import typing as t
import uuid

from . import sym
from .impl_util import HASH_NAMES
from .val import Err


class NeedNetwork(Exception):
    pass


def _raise_need(*a, **k):
    raise NeedNetwork("the library tried to contact a domain controller")


RKID = uuid.UUID("d778c271-9025-9a82-f6dc-b8960b8ad8c5")
ROOT = bytes(range(64))


def root_spec(hid=4, rkid=RKID, key=ROOT, secret_alg="DH", secret_params=None, priv=512, pub=2048, version=1):
    """The model-side description of one loaded root key: the values KeyCache.load_key actually stores."""
    import dpapi_ng
    from dpapi_ng._gkdi import KDFParameters

    c = dpapi_ng.KeyCache()
    c.load_key(key, rkid, version=version, kdf_parameters=KDFParameters(HASH_NAMES[hid]).pack(), secret_algorithm=secret_alg,
               secret_parameters=secret_params, private_key_length=priv, public_key_length=pub)
    rk = c._root_keys[rkid]
    return [rkid.bytes_le, rk.key, rk.version, rk.kdf_algorithm, rk.kdf_parameters, rk.secret_algorithm, rk.secret_parameters,
            rk.private_key_length, rk.public_key_length]


def mk_cache(roots):
    import dpapi_ng

    c = dpapi_ng.KeyCache()
    for rkid, key, ver, kalg, kpar, salg, spar, priv, pub in roots:
        c.load_key(bytes(key), uuid.UUID(bytes_le=bytes(rkid)), version=ver, kdf_algorithm=kalg, kdf_parameters=bytes(kpar),
                   secret_algorithm=salg, secret_parameters=None if spar is None else bytes(spar),
                   private_key_length=priv, public_key_length=pub)
    return c


class _Env:
    """patches lookup_dc, the RPC entry points, the clock and os.urandom for one call"""

    def __init__(self, ns=None, draws=None, budget=400, symbolic=True):
        self.ns, self.draws, self.budget, self.symbolic = ns, draws, budget, symbolic

    def __enter__(self):
        import dpapi_ng._client as CL

        self.CL = CL
        self.saved = (CL.lookup_dc, CL.async_lookup_dc, CL._sync_get_key, CL._async_get_key, time.time_ns, os.urandom)
        CL.lookup_dc = _raise_need
        CL._sync_get_key = _raise_need

        async def araise(*a, **k):
            _raise_need()

        CL.async_lookup_dc = araise
        CL._async_get_key = araise
        if self.ns is not None:
            time.time_ns = lambda: self.ns
        if self.draws is not None:
            q = [bytes(d) for d in self.draws]

            def urandom(n):
                if not q:
                    raise RuntimeError("more os.urandom draws than the model expects")
                d = q.pop(0)
                if len(d) != n:
                    raise RuntimeError(f"os.urandom({n}) but the case supplies {len(d)} bytes")
                return d

            os.urandom = urandom
            self.left = q
        self.cm = sym.patched(budget=self.budget) if self.symbolic else sym.kdf_budget(self.budget)
        self.cm.__enter__()
        return self

    def __exit__(self, *exc):
        self.cm.__exit__(*exc)
        CL = self.CL
        CL.lookup_dc, CL.async_lookup_dc, CL._sync_get_key, CL._async_get_key, time.time_ns, os.urandom = self.saved
        return False


def impl_unprotect(arg, symbolic=True, flavour=0):
    import dpapi_ng

    roots, data = arg
    cache = mk_cache(roots)
    with _Env(symbolic=symbolic):
        if flavour == 0:
            return dpapi_ng.ncrypt_unprotect_secret(bytes(data), cache=cache)
        import asyncio

        return asyncio.run(dpapi_ng.async_ncrypt_unprotect_secret(bytes(data), cache=cache))


def impl_protect(arg, symbolic=True, flavour=0):
    import dpapi_ng

    roots, draws, data, sid, rkid, ns = arg
    cache = mk_cache(roots)
    rid = None if rkid is None else uuid.UUID(bytes_le=bytes(rkid))
    with _Env(ns=ns, draws=draws, symbolic=symbolic):
        if flavour == 0:
            return dpapi_ng.ncrypt_protect_secret(bytes(data), sid, root_key_identifier=rid, cache=cache)
        import asyncio

        return asyncio.run(dpapi_ng.async_ncrypt_protect_secret(bytes(data), sid, root_key_identifier=rid, cache=cache))


def impl_roundtrip(arg, symbolic=True):
    import asyncio

    import dpapi_ng
    from dpapi_ng._blob import DPAPINGBlob

    from .core import classify

    roots, draws, data, sid, rkid, ns, trailing = arg
    flavour = trailing >> 1
    trailing &= 1
    cache = mk_cache(roots)
    rid = None if rkid is None else uuid.UUID(bytes_le=bytes(rkid))
    with _Env(ns=ns, draws=draws, symbolic=symbolic):
        if flavour == 0:
            blob = dpapi_ng.ncrypt_protect_secret(bytes(data), sid, root_key_identifier=rid, cache=cache)
        else:
            blob = asyncio.run(dpapi_ng.async_ncrypt_protect_secret(bytes(data), sid, root_key_identifier=rid, cache=cache))
    wire = blob
    if trailing:
        try:
            wire = DPAPINGBlob.unpack(blob).pack(blob_in_envelope=False)
        except Exception as exc:  # noqa: BLE001
            return [blob, classify(exc)]
    with _Env(symbolic=symbolic):
        try:
            if flavour == 0:
                pt = dpapi_ng.ncrypt_unprotect_secret(wire, cache=cache)
            else:
                pt = asyncio.run(dpapi_ng.async_ncrypt_unprotect_secret(wire, cache=cache))
        except Exception as exc:  # noqa: BLE001
            pt = classify(exc)
    return [wire, pt]
