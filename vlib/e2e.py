"""End-to-end harness for the offline protect / unprotect paths (area e2e): builds KeyCache objects,
patches clock / RNG / DC lookup, runs the public API under the symbolic crypto."""
from __future__ import annotations

import os
import time
import typing as t
import uuid

from . import sym
from .impl_util import HASH_NAMES
from .val import Err


class NeedNetwork(Exception):
    pass


def _raise_need(*a, **k):
    raise NeedNetwork("the library tried to contact a domain controller")


RKID = uuid.UUID("d778c271-9025-9a82-f6dc-b8960b8ad8c5")
ROOT = bytes(range(64))


def root_spec(hid=4, rkid=RKID, key=ROOT, secret_alg="DH", secret_params=None, priv=512, pub=2048, version=1):
    """The model-side description of one loaded root key: the values KeyCache.load_key actually stores."""
    import dpapi_ng
    from dpapi_ng._gkdi import KDFParameters

    c = dpapi_ng.KeyCache()
    c.load_key(key, rkid, version=version, kdf_parameters=KDFParameters(HASH_NAMES[hid]).pack(), secret_algorithm=secret_alg,
               secret_parameters=secret_params, private_key_length=priv, public_key_length=pub)
    rk = c._root_keys[rkid]
    return [rkid.bytes_le, rk.key, rk.version, rk.kdf_algorithm, rk.kdf_parameters, rk.secret_algorithm, rk.secret_parameters,
            rk.private_key_length, rk.public_key_length]


def mk_cache(roots):
    import dpapi_ng

    c = dpapi_ng.KeyCache()
    for rkid, key, ver, kalg, kpar, salg, spar, priv, pub in roots:
        c.load_key(bytes(key), uuid.UUID(bytes_le=bytes(rkid)), version=ver, kdf_algorithm=kalg, kdf_parameters=bytes(kpar),
                   secret_algorithm=salg, secret_parameters=None if spar is None else bytes(spar),
                   private_key_length=priv, public_key_length=pub)
    return c


class _Env:
    """patches lookup_dc, the RPC entry points, the clock and os.urandom for one call"""

    def __init__(self, ns=None, draws=None, budget=400, symbolic=True):
        self.ns, self.draws, self.budget, self.symbolic = ns, draws, budget, symbolic
        self.left = []

    def __enter__(self):
        import dpapi_ng._client as CL

        self.CL = CL
        self.saved = (CL.lookup_dc, CL.async_lookup_dc, CL._sync_get_key, CL._async_get_key, time.time_ns, os.urandom)
        CL.lookup_dc = _raise_need
        CL._sync_get_key = _raise_need

        async def araise(*a, **k):
            _raise_need()

        CL.async_lookup_dc = araise
        CL._async_get_key = araise
        if self.ns is not None:
            time.time_ns = lambda: self.ns
        if self.draws is not None:
            q = [bytes(d) for d in self.draws]

            def urandom(n):
                if not q:
                    raise RuntimeError("more os.urandom draws than the model expects")
                d = q.pop(0)
                if len(d) != n:
                    raise RuntimeError(f"os.urandom({n}) but the case supplies {len(d)} bytes")
                return d

            os.urandom = urandom
            self.left = q
        self.cm = sym.patched(budget=self.budget) if self.symbolic else sym.kdf_budget(self.budget)
        self.cm.__enter__()
        return self

    def __exit__(self, *exc):
        self.cm.__exit__(*exc)
        CL = self.CL
        CL.lookup_dc, CL.async_lookup_dc, CL._sync_get_key, CL._async_get_key, time.time_ns, os.urandom = self.saved
        return False


def impl_unprotect(arg, symbolic=True, flavour=0):
    import dpapi_ng

    roots, data = arg
    cache = mk_cache(roots)
    with _Env(symbolic=symbolic):
        if flavour == 0:
            return dpapi_ng.ncrypt_unprotect_secret(bytes(data), cache=cache)
        import asyncio

        return asyncio.run(dpapi_ng.async_ncrypt_unprotect_secret(bytes(data), cache=cache))


def impl_protect(arg, symbolic=True, flavour=0):
    import dpapi_ng

    roots, draws, data, sid, rkid, ns = arg
    cache = mk_cache(roots)
    rid = None if rkid is None else uuid.UUID(bytes_le=bytes(rkid))
    with _Env(ns=ns, draws=draws, symbolic=symbolic):
        if flavour == 0:
            return dpapi_ng.ncrypt_protect_secret(bytes(data), sid, root_key_identifier=rid, cache=cache)
        import asyncio

        return asyncio.run(dpapi_ng.async_ncrypt_protect_secret(bytes(data), sid, root_key_identifier=rid, cache=cache))


def impl_roundtrip(arg, symbolic=True):
    import asyncio

    import dpapi_ng
    from dpapi_ng._blob import DPAPINGBlob

    from .core import classify

    roots, draws, data, sid, rkid, ns, trailing = arg
    flavour = trailing >> 1
    trailing &= 1
    cache = mk_cache(roots)
    rid = None if rkid is None else uuid.UUID(bytes_le=bytes(rkid))
    with _Env(ns=ns, draws=draws, symbolic=symbolic):
        if flavour == 0:
            blob = dpapi_ng.ncrypt_protect_secret(bytes(data), sid, root_key_identifier=rid, cache=cache)
        else:
            blob = asyncio.run(dpapi_ng.async_ncrypt_protect_secret(bytes(data), sid, root_key_identifier=rid, cache=cache))
    wire = blob
    if trailing:
        try:
            wire = DPAPINGBlob.unpack(blob).pack(blob_in_envelope=False)
        except Exception as exc:  # noqa: BLE001
            return [blob, classify(exc)]
    with _Env(symbolic=symbolic):
        try:
            if flavour == 0:
                pt = dpapi_ng.ncrypt_unprotect_secret(wire, cache=cache)
            else:
                pt = asyncio.run(dpapi_ng.async_ncrypt_unprotect_secret(wire, cache=cache))
        except Exception as exc:  # noqa: BLE001
            pt = classify(exc)
    return [wire, pt]


# ---------------------------------------------------------------------------------------------
# A reference DC that works with whatever KDF is installed (symbolic or real): conforming envelopes
# ---------------------------------------------------------------------------------------------
LABEL = "KDS service\0".encode("utf-16-le")


def _kdf(hid, key, context, length=64):
    import dpapi_ng._crypto as C

    from .impl_util import hash_of_id

    return C.kdf(hash_of_id(hid), key, LABEL, context, length)


def _ctx(rkid: uuid.UUID, l0, a, b):
    return rkid.bytes_le + l0.to_bytes(4, "little", signed=True) + a.to_bytes(4, "little", signed=True) + b.to_bytes(4, "little", signed=True)


def chain_K1(hid, rkid, sd, l0, i, root=ROOT):
    key = _kdf(hid, _kdf(hid, root, _ctx(rkid, l0, -1, -1)), _ctx(rkid, l0, 31, -1) + sd)
    j = 31
    while j > i:
        j -= 1
        key = _kdf(hid, key, _ctx(rkid, l0, j, -1))
    return key


def chain_K2(hid, rkid, sd, l0, i, j, root=ROOT):
    key = _kdf(hid, chain_K1(hid, rkid, sd, l0, i, root), _ctx(rkid, l0, i, 31))
    m = 31
    while m > j:
        m -= 1
        key = _kdf(hid, key, _ctx(rkid, l0, i, m))
    return key


SMALL_DH = (6, 1099511627791, 3)  # key_length 5 bytes, a 40-bit prime, generator 3: leading zero bytes are frequent


def dc_envelopes(hid, sd, pos, mode, rkid=RKID, root=ROOT, priv_len=64, domain="d.test", forest="f.test", dh=SMALL_DH):
    """(envelope for a caller who may only encrypt, envelope for an authorised caller) as lists of 16 values.
    mode: 'seed' | 'DH' | 'ECDH_P256' | 'ECDH_P384'.  Must be called with the KDF that the run uses installed."""
    from dpapi_ng._gkdi import ECDHKey, FFCDHKey, FFCDHParameters, KDFParameters

    l0, l1, l2 = pos
    kpar = KDFParameters(HASH_NAMES[hid]).pack()
    k1 = chain_K1(hid, rkid, sd, l0, l1, root) if l2 == 31 else (chain_K1(hid, rkid, sd, l0, l1 - 1, root) if l1 > 0 else b"")
    k2 = chain_K2(hid, rkid, sd, l0, l1, l2, root)
    salg = "DH" if mode in ("seed", "DH") else mode
    if salg == "DH":
        klen, p, g = dh
        spar = FFCDHParameters(key_length=klen, field_order=p, generator=g).pack()
    else:
        spar = b""
    seed = [1, 2, l0, l1, l2, rkid.bytes_le, "SP800_108_CTR_HMAC", kpar, salg, spar, priv_len, 2048, domain, forest, k1, k2]
    if mode == "seed":
        return seed, seed
    # the group private key is derived from the L2 key; the DC hands out the matching public key
    y = int.from_bytes(_kdf(hid, k2, (salg + "\0").encode("utf-16-le"), -(-priv_len // 8)), "big")
    if salg == "DH":
        pub = FFCDHKey(key_length=klen, field_order=p, generator=g, public_key=pow(g, y, p)).pack()
    else:
        import dpapi_ng._gkdi as G

        curve_name = salg[len("ECDH_"):]
        key_len = {"P256": 32, "P384": 48}[curve_name]
        curve = {"P256": G.ec.SECP256R1(), "P384": G.ec.SECP384R1()}[curve_name]
        nums = G.ec.derive_private_key(y, curve).public_key().public_numbers()
        pub = ECDHKey(curve_name=curve_name, key_length=key_len, x=nums.x, y=nums.y).pack()
    penv = [1, 3, l0, l1, l2, rkid.bytes_le, "SP800_108_CTR_HMAC", kpar, salg, spar, priv_len, 2048, domain, forest, b"", pub]
    return penv, seed


def env_obj(v):
    from dpapi_ng._gkdi import GroupKeyEnvelope

    ver, fl, l0, l1, l2, rkid, kalg, kpar, salg, spar, priv, pub, dom, forest, k1, k2 = v
    return GroupKeyEnvelope(version=ver, flags=fl, l0=l0, l1=l1, l2=l2, root_key_identifier=uuid.UUID(bytes_le=bytes(rkid)),
                            kdf_algorithm=kalg, kdf_parameters=bytes(kpar), secret_algorithm=salg, secret_parameters=bytes(spar),
                            private_key_length=priv, public_key_length=pub, domain_name=dom, forest_name=forest,
                            l1_key=bytes(k1), l2_key=bytes(k2))


def impl_roundtrip_env(arg, symbolic=True):
    """protect and unprotect through the public API with the DC replaced by the two given envelopes"""
    import asyncio

    import dpapi_ng
    from dpapi_ng._blob import DPAPINGBlob

    from .core import classify

    penv, uenv, draws, data, sid, trailing = arg
    flavour = trailing >> 1
    trailing &= 1
    with _Env(draws=draws, symbolic=symbolic) as env:
        pe, ue = env_obj(penv), env_obj(uenv)

        async def aget_p(*a, **k):
            return pe

        async def aget_u(*a, **k):
            return ue

        env.CL._sync_get_key = lambda *a, **k: pe
        env.CL._async_get_key = aget_p
        if flavour == 0:
            blob = dpapi_ng.ncrypt_protect_secret(bytes(data), sid, server="dc.test")
        else:
            blob = asyncio.run(dpapi_ng.async_ncrypt_protect_secret(bytes(data), sid, server="dc.test"))
        if env.left:
            raise RuntimeError("fewer os.urandom draws than the model expects")
        wire = blob
        if trailing:
            try:
                wire = DPAPINGBlob.unpack(blob).pack(blob_in_envelope=False)
            except Exception as exc:  # noqa: BLE001
                return [blob, classify(exc)]
        env.CL._sync_get_key = lambda *a, **k: ue
        env.CL._async_get_key = aget_u
        try:
            if flavour == 0:
                pt = dpapi_ng.ncrypt_unprotect_secret(wire, server="dc.test")
            else:
                pt = asyncio.run(dpapi_ng.async_ncrypt_unprotect_secret(wire, server="dc.test"))
        except Exception as exc:  # noqa: BLE001
            pt = classify(exc)
    return [wire, pt]


def impl_protect_seq(arg, symbolic=True):
    """consecutive protect calls on ONE KeyCache; every os.urandom call is served from the case's draws, in order"""
    import dpapi_ng

    from .core import classify

    roots, calls = arg
    cache = mk_cache(roots)
    outs = []
    for draws, data, sid, rkid, ns in calls:
        rid = None if rkid is None else uuid.UUID(bytes_le=bytes(rkid))
        with _Env(ns=ns, draws=draws, symbolic=symbolic) as env:
            try:
                blob = dpapi_ng.ncrypt_protect_secret(bytes(data), sid, root_key_identifier=rid, cache=cache)
                if env.left:
                    outs.append(Err("TypeError"))  # fewer draws than the model: randomness was reused
                else:
                    outs.append(blob)
            except Exception as exc:  # noqa: BLE001
                outs.append(classify(exc))
    return outs


def protect_with_env(penv, draws, data, sid, symbolic=True):
    """ncrypt_protect_secret with the DC replaced by the given (public-key or seed) envelope"""
    import dpapi_ng

    with _Env(draws=draws, symbolic=symbolic) as env:
        pe = env_obj(penv)
        env.CL._sync_get_key = lambda *a, **k: pe
        return dpapi_ng.ncrypt_protect_secret(bytes(data), sid, server="dc.test")


def impl_encrypt_seq(arg, symbolic=True):
    """consecutive protect calls in ONE process with the DC replaced by the given envelope (a caller who only gets the public key)"""
    import dpapi_ng

    from .core import classify

    penv, calls = arg
    outs = []
    for draws, data, sid in calls:
        with _Env(draws=draws, symbolic=symbolic) as env:
            pe = env_obj(penv)
            env.CL._sync_get_key = lambda *a, **k: pe
            try:
                blob = dpapi_ng.ncrypt_protect_secret(bytes(data), sid, server="dc.test")
                outs.append(Err("TypeError") if env.left else blob)  # draws left over: randomness was reused
            except Exception as exc:  # noqa: BLE001
                outs.append(classify(exc))
    return outs
