"""Symbolic crypto (mirror of coq/Model/Sym.v): monkeypatches the names dpapi_ng._crypto and
dpapi_ng._gkdi import from `cryptography` so that every primitive returns a tagged,
length-prefixed serialisation of its inputs. Also counts KDF calls against a budget."""
from __future__ import annotations

import contextlib
import typing as t

SYM_Q = 2305843009213693951
SYM_G = 3
HASH_ID = {"sha1": 1, "sha256": 2, "sha384": 3, "sha512": 4}
CURVE_ID = {"secp256r1": 1, "secp384r1": 2, "secp521r1": 3}


class BudgetExceeded(Exception):
    pass


class State:
    kdf_calls = 0
    budget = 10**9


def symterm(tag: int, fields: t.Sequence[bytes]) -> bytes:
    out = bytearray([165, tag])
    for f in fields:
        f = bytes(f)
        out += len(f).to_bytes(4, "big") + f
    return bytes(out)


def sym_parse(tag: int, data: bytes) -> t.Optional[t.List[bytes]]:
    data = bytes(data)
    if len(data) < 2 or data[0] != 165 or data[1] != tag:
        return None
    pos = 2
    out = []
    while pos < len(data):
        if len(data) - pos < 4:
            return None
        n = int.from_bytes(data[pos : pos + 4], "big")
        pos += 4
        if len(data) - pos < n:
            return None
        out.append(data[pos : pos + n])
        pos += n
    return out


class SymKBKDFHMAC:
    def __init__(self, algorithm, mode, length, rlen, llen, location, label, context, fixed, backend=None, *, break_location=None):
        from cryptography.hazmat.primitives.kdf.kbkdf import CounterLocation, Mode

        self.cfg_ok = (mode == Mode.CounterMode and rlen == 4 and llen == 4 and location == CounterLocation.BeforeFixed and fixed is None)
        self.algorithm, self.length, self.label, self.context = algorithm, length, label, context

    def derive(self, secret: bytes) -> bytes:
        State.kdf_calls += 1
        if State.kdf_calls > State.budget:
            raise BudgetExceeded("KDF call budget exceeded")
        tag = 1 if self.cfg_ok else 0x41
        return symterm(tag, [bytes([HASH_ID[self.algorithm.name]]), secret, self.label, self.context,
                             (self.length % (1 << 32)).to_bytes(4, "big")])


class SymConcatKDFHash:
    def __init__(self, algorithm, length, otherinfo, backend=None):
        self.algorithm, self.length, self.otherinfo = algorithm, length, otherinfo

    def derive(self, shared: bytes) -> bytes:
        return symterm(2, [bytes([HASH_ID[self.algorithm.name]]), shared, self.otherinfo or b"",
                           (self.length % (1 << 32)).to_bytes(4, "big")])


class _SymKeywrap:
    class InvalidUnwrap(Exception):
        pass

    @staticmethod
    def aes_key_wrap(wrapping_key: bytes, key_to_wrap: bytes, backend=None) -> bytes:
        return symterm(3, [wrapping_key, key_to_wrap])

    @staticmethod
    def aes_key_unwrap(wrapping_key: bytes, wrapped_key: bytes, backend=None) -> bytes:
        from cryptography.hazmat.primitives.keywrap import InvalidUnwrap

        f = sym_parse(3, wrapped_key)
        if f is None or len(f) != 2 or f[0] != bytes(wrapping_key):
            raise InvalidUnwrap()
        return f[1]


class SymAESGCM:
    def __init__(self, key: bytes):
        self.key = bytes(key)

    @staticmethod
    def generate_key(bit_length: int) -> bytes:
        import os

        return os.urandom(bit_length // 8)

    def encrypt(self, nonce, data, associated_data) -> bytes:
        return symterm(4, [self.key, bytes(nonce), bytes(data)])

    def decrypt(self, nonce, data, associated_data) -> bytes:
        from cryptography.exceptions import InvalidTag

        f = sym_parse(4, data)
        if f is None or len(f) != 3 or f[0] != self.key or f[1] != bytes(nonce):
            raise InvalidTag()
        return f[2]


class _Numbers:
    def __init__(self, x, y):
        self.x, self.y = x, y


class _SymPub:
    def __init__(self, x, y, curve):
        self.x, self.y, self.curve = x, y, curve

    def public_numbers(self):
        return _Numbers(self.x, self.y)


class _SymPriv:
    def __init__(self, d, curve):
        self.d, self.curve = d, curve

    def public_key(self):
        x = pow(SYM_G, self.d, SYM_Q)
        return _SymPub(x, (7 * x + CURVE_ID[self.curve.name]) % SYM_Q, self.curve)

    def exchange(self, algorithm, peer):
        return pow(peer.x, self.d, SYM_Q).to_bytes(8, "big")


class _SymEC:
    """stands in for cryptography.hazmat.primitives.asymmetric.ec inside dpapi_ng._gkdi"""

    def __init__(self, real):
        self._real = real
        self.SECP256R1, self.SECP384R1, self.SECP521R1 = real.SECP256R1, real.SECP384R1, real.SECP521R1
        self.EllipticCurve = real.EllipticCurve
        self.ECDH = real.ECDH

    @staticmethod
    def derive_private_key(d, curve, backend=None):
        if d <= 0:
            raise ValueError("invalid private value")
        return _SymPriv(d, curve)

    class EllipticCurvePublicNumbers:
        def __init__(self, x, y, curve):
            self.x, self.y, self.curve = x, y, curve

        def public_key(self, backend=None):
            if not (0 < self.x < SYM_Q and self.y == (7 * self.x + CURVE_ID[self.curve.name]) % SYM_Q):
                raise ValueError("point is not on the curve")
            return _SymPub(self.x, self.y, self.curve)


@contextlib.contextmanager
def patched(budget: int = 10**9):
    """Installs the symbolic primitives into dpapi_ng._crypto / dpapi_ng._gkdi for the duration."""
    import dpapi_ng._crypto as C
    import dpapi_ng._gkdi as G

    saved = (C.KBKDFHMAC, C.ConcatKDFHash, C.keywrap, C.AESGCM, G.ec)
    C.KBKDFHMAC, C.ConcatKDFHash, C.keywrap, C.AESGCM = SymKBKDFHMAC, SymConcatKDFHash, _SymKeywrap, SymAESGCM
    G.ec = _SymEC(saved[4])
    State.kdf_calls, State.budget = 0, budget
    try:
        yield State
    finally:
        C.KBKDFHMAC, C.ConcatKDFHash, C.keywrap, C.AESGCM, G.ec = saved
        State.budget = 10**9


@contextlib.contextmanager
def kdf_budget(budget: int):
    """Real crypto, but count KDF calls (wraps dpapi_ng._crypto.KBKDFHMAC)."""
    import dpapi_ng._crypto as C

    real = C.KBKDFHMAC

    class Counting:
        """wraps the real KBKDFHMAC (a native class that cannot be subclassed)"""

        def __init__(self, *a, **kw):
            self._k = real(*a, **kw)

        def derive(self, key_material):
            State.kdf_calls += 1
            if State.kdf_calls > State.budget:
                raise BudgetExceeded("KDF call budget exceeded")
            return self._k.derive(key_material)

    C.KBKDFHMAC = Counting
    State.kdf_calls, State.budget = 0, budget
    try:
        yield State
    finally:
        C.KBKDFHMAC = real
        State.budget = 10**9
