"""The list of kernels regenerated from source on every run (see DESIGN.md Appendix A)."""
from ..kernels import FuncKernel, Kernel as K

Z, B = "Z", "bool"

KERNELS = [
    # ---- C09: interval computation in _get_protection_gke_from_cache -----------------------
    K("k_now", "_client.py", "_get_protection_gke_from_cache", ("assign", "current_time", 0),
      [("time_ns", Z)], Z, props=("C09",), calls=(("time.time_ns", "time_ns"),)),
    K("k_l0", "_client.py", "_get_protection_gke_from_cache", ("assign", "l0", 0),
      [("current_time", Z)], Z, props=("C09",)),
    K("k_l1", "_client.py", "_get_protection_gke_from_cache", ("assign", "l1", 0),
      [("current_time", Z)], Z, props=("C09",)),
    K("k_l2", "_client.py", "_get_protection_gke_from_cache", ("assign", "l2", 0),
      [("current_time", Z)], Z, props=("C09",)),

    # ---- C02: the whole control skeleton of compute_l2_key ---------------------------------
    FuncKernel("k_compute_l2_key", "_gkdi.py", "compute_l2_key",
               params=[("request_l1", Z), ("request_l2", Z), ("rk_l1", Z), ("rk_l2", Z), ("rk_l1_key", "K"), ("rk_l2_key", "K")],
               locals={"l1": Z, "l1_key": "K", "l2": Z, "l2_key": "K", "reseed_l2": B},
               attr_params={}, props=("C02", "C05", "C10")),

    # ---- C20: DC discovery ------------------------------------------------------------------
    K("k_srv_key", "_dns.py", "_get_highest_answer", ("lambda", 0),
      [("a_priority", Z), ("a_weight", Z)], "(Z * Z)", props=("C20",)),
    K("k_srv_name_domain", "_dns.py", "lookup_dc", ("assign", "record", 0),
      [("domain_name", "list Z")], "list Z", props=("C20",)),
    K("k_srv_name_bare", "_dns.py", "lookup_dc", ("assign", "record", 1),
      [], "list Z", props=("C20",)),
    K("k_srv_rstrip_chars", "_dns.py", "_get_highest_answer", ("callarg", "?.rstrip", 0, 0), [], "list Z", props=("C20",)),
    K("k_srv_rdtype", "_dns.py", "lookup_dc", ("callarg", "dns.resolver.resolve", 0, 1), [], "list Z", props=("C20",)),
    K("k_srv_search", "_dns.py", "lookup_dc", ("callarg", "dns.resolver.resolve", 0, "search"), [], B, props=("C20",)),
    K("k_srv_name_test", "_dns.py", "lookup_dc", ("if", 0),
      [("domain_name", "list Z")], B, props=("C20",)),
]

# sync/async twins compared as normalised ASTs (reported as a proof-side obligation of the named property)
TWINS = [
    ("C20", "_dns.py", "lookup_dc", "async_lookup_dc", {"asyncresolver": "resolver"}),
]

# (coq name, module, python expression, kind in bytes|Z|str|uuid_le|bool)
CONSTS = [
    ("c_KDS_SERVICE_LABEL", "dpapi_ng._gkdi", "KDS_SERVICE_LABEL", "bytes"),
    ("c_EPOCH_FILETIME", "dpapi_ng._client", "_EPOCH_FILETIME", "Z"),
]

# whole functions as Prelude/PyAst syntax (gen/Flows.v); world coq/Flow/World_core.v; tie theorems coq/Proofs/Flow_core_dns.v
# (_get_highest_answer's `sorted(answers, key=lambda a: ..)` is desugared by the translator into sorted/key(answers, [key for a in
# answers]), see flow.py _sort_key_lambda; as a CALLEE of lookup_dc it is the model's selection function, and the tie
# flow_get_highest_answer proves that this is what its own body computes)
from ..flow import Flow  # noqa: E402

FLOWS = [
    Flow("k_flow_lookup_dc", "_dns.py", "lookup_dc", props=("C20",)),
    Flow("k_flow_async_lookup_dc", "_dns.py", "async_lookup_dc", props=("C20",)),
    Flow("k_flow_get_highest_answer", "_dns.py", "_get_highest_answer", props=("C20",)),
]
