"""Area sd (C08): kernels regenerated from _security_descriptor.py and SIDDescriptor.get_target_sd."""
from ..kernels import Kernel as K

Z, B, S = "Z", "bool", "list Z"
F = "_security_descriptor.py"

KERNELS = [
    # ---- sid_to_bytes: the grammar literal and (once D3 is repaired) the explicit range tests ----
    K("k_sid_regex", F, "sid_to_bytes", ("callarg", "re.compile", 0, 0), [], S, props=("C08", "C05")),
    K("k_sid_auth_bad", F, "sid_to_bytes", ("if", 1), [("authority", Z)], B, props=("C08", "C05")),
    K("k_sid_sub_bad", F, "sid_to_bytes", ("if", 2), [("sub_auth", Z)], B, props=("C08", "C05")),
    K("k_sid_auth_width", F, "sid_to_bytes", ("callarg", "authority.to_bytes", 0, 0), [], Z, props=("C08",)),
    K("k_sid_auth_order", F, "sid_to_bytes", ("callarg", "authority.to_bytes", 0, "byteorder"), [], S, props=("C08",)),
    K("k_sid_sub_width", F, "sid_to_bytes", ("callarg", "sub_auth.to_bytes", 0, 0), [], Z, props=("C08",)),
    K("k_sid_sub_order", F, "sid_to_bytes", ("callarg", "sub_auth.to_bytes", 0, "byteorder"), [], S, props=("C08",)),
    K("k_sid_first_sub", F, "sid_to_bytes", ("callarg", "range", 0, 0), [], Z, props=("C08",)),
    K("k_sid_split_sep", F, "sid_to_bytes", ("callarg", "sid.split", 0, 0), [], S, props=("C08",)),
    # ---- ace_to_bytes ----
    K("k_ace_mask_width", F, "ace_to_bytes", ("callarg", "access_mask.to_bytes", 0, 0), [], Z, props=("C08",)),
    K("k_ace_mask_order", F, "ace_to_bytes", ("callarg", "access_mask.to_bytes", 0, "byteorder"), [], S, props=("C08",)),
    # ---- sd_to_bytes: header length, control bits, running offset ----
    K("k_sd_control0", F, "sd_to_bytes", ("assign", "control", 0), [], Z, props=("C08",)),
    K("k_sd_header_len", F, "sd_to_bytes", ("assign", "current_offset", 0), [], Z, props=("C08",)),
    K("k_sd_control_sacl", F, "sd_to_bytes", ("augassign", "control", 0), [("control", Z)], Z, props=("C08",)),
    K("k_sd_control_dacl", F, "sd_to_bytes", ("augassign", "control", 1), [("control", Z)], Z, props=("C08",)),
    K("k_sd_off_sacl", F, "sd_to_bytes", ("augassign", "current_offset", 0),
      [("current_offset", Z), ("len_sacl_bytes", Z)], Z, props=("C08",)),
    K("k_sd_off_dacl", F, "sd_to_bytes", ("augassign", "current_offset", 1),
      [("current_offset", Z), ("len_dacl_bytes", Z)], Z, props=("C08",)),
    K("k_sd_off_owner", F, "sd_to_bytes", ("augassign", "current_offset", 2),
      [("current_offset", Z), ("len_owner_bytes", Z)], Z, props=("C08",)),
    K("k_sd_sacl_off0", F, "sd_to_bytes", ("assign", "sacl_offset", 0), [], Z, props=("C08",)),
    K("k_sd_dacl_off0", F, "sd_to_bytes", ("assign", "dacl_offset", 0), [], Z, props=("C08",)),
    # ---- SIDDescriptor.get_target_sd: fixed owner / group / ACEs ----
    K("k_tsd_owner", "_blob.py", "SIDDescriptor.get_target_sd", ("callarg", "sd_to_bytes", 0, "owner"), [], S, props=("C08",)),
    K("k_tsd_group", "_blob.py", "SIDDescriptor.get_target_sd", ("callarg", "sd_to_bytes", 0, "group"), [], S, props=("C08",)),
    K("k_tsd_mask_target", "_blob.py", "SIDDescriptor.get_target_sd", ("callarg", "ace_to_bytes", 0, 1), [], Z, props=("C08",)),
    K("k_tsd_everyone", "_blob.py", "SIDDescriptor.get_target_sd", ("callarg", "ace_to_bytes", 1, 0), [], S, props=("C08",)),
    K("k_tsd_mask_everyone", "_blob.py", "SIDDescriptor.get_target_sd", ("callarg", "ace_to_bytes", 1, 1), [], Z, props=("C08",)),
]

# Byte vectors computed by the current implementation at regeneration time; the Properties file proves
# that the model produces exactly these (a changed `8 +` size term or field order breaks a named theorem).
CONSTS = [
    ("c_sd_vec_sid", "dpapi_ng._security_descriptor", "sid_to_bytes('S-1-5-21-4151808797-3430561092-2843464588-1104')", "bytes"),
    ("c_sd_vec_ace", "dpapi_ng._security_descriptor", "ace_to_bytes('S-1-1-0', 2)", "bytes"),
    ("c_sd_vec_acl", "dpapi_ng._security_descriptor", "acl_to_bytes([ace_to_bytes('S-1-5-18', 1), ace_to_bytes('S-1-1-0', 2)])", "bytes"),
    ("c_sd_vec_sd_sacl", "dpapi_ng._security_descriptor",
     "sd_to_bytes('S-1-5-18', 'S-1-5-32-544', sacl=[ace_to_bytes('S-1-5-18', 1)], dacl=[ace_to_bytes('S-1-1-0', 2)])", "bytes"),
    ("c_sd_vec_target", "dpapi_ng._blob", "ProtectionDescriptor.parse('S-1-5-21-1-2-3-500').get_target_sd()", "bytes"),
]

# whole functions as Prelude/PyAst syntax; world coq/Flow/World_sd.v, tie theorems in coq/Proofs/Flow_sd_enc.v
from ..flow import Flow  # noqa: E402

FLOWS = [
    Flow("k_flow_sid_to_bytes", F, "sid_to_bytes", props=("C08",)),
    Flow("k_flow_ace_to_bytes", F, "ace_to_bytes", props=("C08",)),
    Flow("k_flow_acl_to_bytes", F, "acl_to_bytes", props=("C08",)),
    Flow("k_flow_sd_to_bytes", F, "sd_to_bytes", props=("C08",)),
]
