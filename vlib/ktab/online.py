"""Kernels / constants of area `online` (C17): what the four public functions hand to _sync_get_key / _async_get_key, the
GetKey construction, the static presentation contexts, the ept_map request, the verification trailer.

Arguments are tied by *tracing* kernels: the n-th positional argument (or keyword) of the get_key call, with every local that is
assigned exactly once inlined (so the names of locals do not matter), must be a given source expression -- e.g.
`DPAPINGBlob.unpack(data).key_identifier.l0`, `ProtectionDescriptor.parse(protection_descriptor).get_target_sd()`, `-1` -- and the
generated definition is then the identity on a parameter standing for that expression, or the closed term for a literal. Anything
else makes the kernel "not located" (a broken obligation of C17). GetKey(...) inside the conversation functions must receive the
function's own positional parameters 1..5 in order.
The conversation skeleton of _sync_get_key / _async_get_key (which object is bound with which contexts, which context id /
opnum / stub / verification trailer go into the two rpc.request calls) is a shape kernel per flavour: it yields the literal or
the name the first request's context id comes from.  The two flavours differ there for a benign reason (`rpc.request(0, ...)` vs
`rpc.request(context_id, ...)`, and `with create_rpc_connection(..) as rpc` vs `rpc = await ..; async with rpc`, and the default
of root_key_id), so that pair is NOT in TWINS; the model takes the EPM request's context id from the flavour's kernel."""
import ast

from ..flow import Flow
from ..kernels import Kernel as K, Unsupported, _walk_own

Z, B, S = "Z", "bool", "list Z"
F = "_client.py"
P = ("C17",)


def _norm(node) -> str:
    return ast.unparse(node)


def _conversation_shape(func):
    """Checks the skeleton of _sync_get_key / _async_get_key statement by statement and returns the Gallina term for the
    context id of the ept_map request: a literal (sync: 0) or `epm_context_id` (async: the local `context_id`, which the shape
    check has verified to be `_EPM_CONTEXTS[0].context_id`)."""
    calls = []          # (assigned name or None, unparsed call)
    assigns = {}        # name -> list of unparsed values, in order
    withs = []
    for st in _walk_own(func):
        if isinstance(st, (ast.With, ast.AsyncWith)):
            withs.append(", ".join(_norm(i) for i in st.items))
        if isinstance(st, ast.Assign) and len(st.targets) == 1 and isinstance(st.targets[0], ast.Name):
            v = st.value.value if isinstance(st.value, ast.Await) else st.value
            assigns.setdefault(st.targets[0].id, []).append(_norm(v))
        if isinstance(st, ast.Return) and st.value is not None:
            assigns.setdefault("<return>", []).append(_norm(st.value))
        if isinstance(st, ast.Expr):
            v = st.value.value if isinstance(st.value, ast.Await) else st.value
            calls.append(_norm(v))
    pre = "async_" if isinstance(func, ast.AsyncFunctionDef) else ""
    conn1 = f"{pre}create_rpc_connection(server)"
    conn2 = f"{pre}create_rpc_connection(server, isd_key_port, username=username, password=password, auth_protocol=auth_protocol)"
    if pre:
        ok_conn = assigns.get("rpc") == [conn1, conn2] and withs == ["rpc", "rpc"]
    else:
        ok_conn = withs == [conn1 + " as rpc", conn2 + " as rpc"]
    want = {
        "context_id": ["_EPM_CONTEXTS[0].context_id", "_ISD_KEY_CONTEXTS[0].context_id"],
        "ack": ["rpc.bind(contexts=_EPM_CONTEXTS)", "rpc.bind(contexts=_ISD_KEY_CONTEXTS)"],
        "ept_map": ["_EPT_MAP_ISD_KEY"],
        "isd_key_port": ["_process_ept_map_result(resp)"],
        "get_key": ["GetKey(target_sd, root_key_id, l0, l1, l2)"],
        "<return>": ["_process_get_key_result(resp)"],
    }
    for k, v in want.items():
        if assigns.get(k) != v:
            raise Unsupported(f"conversation skeleton: {k} is {assigns.get(k)}")
    if calls != ["_process_bind_result(_EPM_CONTEXTS, ack, context_id)", "_process_bind_result(_ISD_KEY_CONTEXTS, ack, context_id)"]:
        raise Unsupported(f"conversation skeleton: bind results checked as {calls}")
    if not ok_conn:
        raise Unsupported("conversation skeleton: connections are not (server) then (server, isd_key_port, credentials)")
    resp = assigns.get("resp", [])
    if len(resp) != 2 or resp[1] != "rpc.request(context_id, get_key.opnum, get_key.pack(), verification_trailer=_VERIFICATION_TRAILER)":
        raise Unsupported(f"conversation skeleton: GetKey request is {resp[1:] }")
    r0 = ast.parse(resp[0], mode="eval").body
    if not (isinstance(r0, ast.Call) and _norm(r0.func) == "rpc.request" and len(r0.args) == 3 and not r0.keywords
            and _norm(r0.args[1]) == "ept_map.opnum" and _norm(r0.args[2]) == "ept_map.pack()"):
        raise Unsupported(f"conversation skeleton: ept_map request is {resp[0]}")
    a0 = r0.args[0]
    if isinstance(a0, ast.Constant) and isinstance(a0.value, int) and not isinstance(a0.value, bool):
        return str(a0.value), resp[0]
    if isinstance(a0, ast.Name) and a0.id == "context_id":
        return "epm_context_id", resp[0] + "  (context_id = _EPM_CONTEXTS[0].context_id)"
    raise Unsupported(f"conversation skeleton: context id of the ept_map request is {_norm(a0)}")


def _inline_locals(func, expr, depth=0):
    """`expr` with every local that is assigned exactly once in `func` (and is not a parameter) replaced by its defining
    expression, recursively: makes the comparison below insensitive to the names of local variables."""
    params = {a.arg for a in func.args.args + func.args.kwonlyargs}
    defs = {}
    for st in _walk_own(func):
        if isinstance(st, ast.Assign) and len(st.targets) == 1 and isinstance(st.targets[0], ast.Name):
            defs.setdefault(st.targets[0].id, []).append(st.value)
        elif isinstance(st, (ast.AugAssign, ast.AnnAssign)) and isinstance(st.target, ast.Name):
            defs.setdefault(st.target.id, []).append(None)

    class Sub(ast.NodeTransformer):
        def visit_Name(self, node):
            if isinstance(node.ctx, ast.Load) and node.id not in params and len(defs.get(node.id, [])) == 1 and defs[node.id][0] is not None and depth < 6:
                v = defs[node.id][0]
                v = v.value if isinstance(v, ast.Await) else v
                return _inline_locals(func, v, depth + 1)
            return node

    import copy

    return Sub().visit(copy.deepcopy(expr))


def _arg_traces(callee, key, expected, emit):
    """The argument `key` (position or keyword) of the first call of `callee`, with single-assignment locals inlined, is the
    expression `expected` (source text, or a function of the enclosing def returning it): the kernel is then `emit`."""
    def sel(func):
        want = expected(func) if callable(expected) else expected
        for st in _walk_own(func):
            for sub in ast.walk(st):
                if isinstance(sub, ast.Call) and _norm(sub.func) == callee:
                    arg = None
                    if isinstance(key, int):
                        arg = sub.args[key] if key < len(sub.args) else None
                    else:
                        arg = next((kw.value for kw in sub.keywords if kw.arg == key), None)
                    if arg is None:
                        raise Unsupported(f"{callee} has no argument {key}")
                    got = _norm(_inline_locals(func, arg))
                    if got != want:
                        raise Unsupported(f"argument {key} of {callee} is {got}, not {want}")
                    return emit, f"{callee}(... {key}: {_norm(arg)}  [= {got}] ...)"
        raise Unsupported(f"no call of {callee}")
    return sel


def _own_param(i):
    return lambda func: func.args.args[i].arg


_BLOB = "DPAPINGBlob.unpack(data)"
_UNPROT_SRC = [_BLOB + ".protection_descriptor.get_target_sd()", _BLOB + ".key_identifier.root_key_identifier",
               _BLOB + ".key_identifier.l0", _BLOB + ".key_identifier.l1", _BLOB + ".key_identifier.l2"]
_PROT_SRC = ["ProtectionDescriptor.parse(protection_descriptor).get_target_sd()", "root_key_identifier", "-1", "-1", "-1"]
_UNPROT = ["target_sd", "root_key_identifier", "l0", "l1", "l2"]
_TY = [S, S, Z, Z, Z]


def _call_site(prefix, func, callee, srcs, closed_from=None):
    """kernels for the positional arguments 1..5 of the get_key call and the three credential keywords of one public function:
    identities on a parameter standing for the traced source expression, or the closed term when the source is a literal"""
    out = []
    for idx, (src, nm, ty) in enumerate(zip(srcs, _UNPROT, _TY), start=1):
        if closed_from is not None and idx >= closed_from:
            out.append(K(f"{prefix}_arg{idx}", F, func, ("custom", _arg_traces(callee, idx, src, f"({src})")), [], ty, props=P))
        else:
            out.append(K(f"{prefix}_arg{idx}", F, func, ("custom", _arg_traces(callee, idx, src, nm)), [(nm, ty)], ty, props=P))
    for kw in ("username", "password", "auth_protocol"):
        out.append(K(f"{prefix}_kw_{kw}", F, func, ("custom", _arg_traces(callee, kw, kw, kw)), [(kw, S)], S, props=P))
    return out


def _getkey_args(prefix, func):
    """GetKey(p1, p2, p3, p4, p5): the conversation function's own positional parameters 1..5 (0 is the server), in order"""
    return [K(f"{prefix}_arg{i}", F, func, ("custom", _arg_traces("GetKey", i, _own_param(i + 1), nm)), [(nm, ty)], ty, props=P)
            for i, (nm, ty) in enumerate(zip(["target_sd", "root_key_id", "l0", "l1", "l2"], _TY))]


KERNELS = (
    _call_site("k_onl_unprot", "ncrypt_unprotect_secret", "_sync_get_key", _UNPROT_SRC)
    + _call_site("k_onl_aunprot", "async_ncrypt_unprotect_secret", "_async_get_key", _UNPROT_SRC)
    + _call_site("k_onl_prot", "ncrypt_protect_secret", "_sync_get_key", _PROT_SRC, closed_from=3)
    + _call_site("k_onl_aprot", "async_ncrypt_protect_secret", "_async_get_key", _PROT_SRC, closed_from=3)
    + [
        K("k_onl_sync_epm_ctx", F, "_sync_get_key", ("custom", _conversation_shape), [("epm_context_id", Z)], Z, props=P),
        K("k_onl_async_epm_ctx", F, "_async_get_key", ("custom", _conversation_shape), [("epm_context_id", Z)], Z, props=P),
    ]
    + _getkey_args("k_onl_getkey", "_sync_get_key")
    + _getkey_args("k_onl_agetkey", "_async_get_key")
    + [
        # _create_bind / _create_alter_context: the fixed fields of the bind PDUs the conversation sends
        K("k_onl_bind_max_xmit", "_rpc/_client.py", "RpcClient._create_bind", ("callarg", "Bind", 0, "max_xmit_frag"), [], Z, props=P),
        K("k_onl_bind_max_recv", "_rpc/_client.py", "RpcClient._create_bind", ("callarg", "Bind", 0, "max_recv_frag"), [], Z, props=P),
        K("k_onl_bind_assoc", "_rpc/_client.py", "RpcClient._create_bind", ("callarg", "Bind", 0, "assoc_group"), [], Z, props=P),
        K("k_onl_bind_call_id", "_rpc/_client.py", "RpcClient._create_bind", ("callarg", "self._create_pdu_header", 0, 2), [], Z, props=P),
        K("k_onl_alter_max_xmit", "_rpc/_client.py", "RpcClient._create_alter_context", ("callarg", "AlterContext", 0, "max_xmit_frag"), [], Z, props=P),
        K("k_onl_alter_max_recv", "_rpc/_client.py", "RpcClient._create_alter_context", ("callarg", "AlterContext", 0, "max_recv_frag"), [], Z, props=P),
        K("k_onl_alter_assoc", "_rpc/_client.py", "RpcClient._create_alter_context", ("callarg", "AlterContext", 0, "assoc_group"), [], Z, props=P),
        K("k_onl_alter_call_id", "_rpc/_client.py", "RpcClient._create_alter_context", ("callarg", "self._create_pdu_header", 0, 2), [], Z, props=P),
        K("k_onl_step_level", "_rpc/_auth.py", "AuthenticationProvider.step", ("callarg", "SecTrailer", 0, "level"),
          [("AuthenticationLevel_RPC_C_AUTHN_LEVEL_PKT_PRIVACY", Z)], Z, props=P),
        K("k_onl_step_pad", "_rpc/_auth.py", "AuthenticationProvider.step", ("callarg", "SecTrailer", 0, "pad_length"), [], Z, props=P),
        K("k_onl_step_ctx", "_rpc/_auth.py", "AuthenticationProvider.step", ("callarg", "SecTrailer", 0, "context_id"), [], Z, props=P),
    ]
)

TWINS = [
    ("C17", F, "ncrypt_unprotect_secret", "async_ncrypt_unprotect_secret", {"async_lookup_dc": "lookup_dc", "_async_get_key": "_sync_get_key"}),
    ("C17", F, "ncrypt_protect_secret", "async_ncrypt_protect_secret", {"async_lookup_dc": "lookup_dc", "_async_get_key": "_sync_get_key"}),
]

_CL = "dpapi_ng._client"
_G = "dpapi_ng._gkdi"
CONSTS = [
    ("c_onl_epm_ctx_id", _CL, "_EPM_CONTEXTS[0].context_id", "Z"),
    ("c_onl_isd_ctx_id", _CL, "_ISD_KEY_CONTEXTS[0].context_id", "Z"),
    ("c_onl_epm_ctx_ids", _CL, "[c.context_id for c in _EPM_CONTEXTS]", "bytes"),
    ("c_onl_isd_ctx_ids", _CL, "[c.context_id for c in _ISD_KEY_CONTEXTS]", "bytes"),
    ("c_onl_epm_contexts", _CL, "b''.join(c.pack() for c in _EPM_CONTEXTS)", "bytes"),
    ("c_onl_isd_contexts", _CL, "b''.join(c.pack() for c in _ISD_KEY_CONTEXTS)", "bytes"),
    ("c_onl_ept_map_stub", _CL, "_EPT_MAP_ISD_KEY.pack()", "bytes"),
    ("c_onl_ept_map_opnum", _CL, "_EPT_MAP_ISD_KEY.opnum", "Z"),
    ("c_onl_ept_max_towers", _CL, "_EPT_MAP_ISD_KEY.max_towers", "Z"),
    ("c_onl_ept_tower_port", _CL, "[f.port for f in _EPT_MAP_ISD_KEY.tower if isinstance(f, TCPFloor)][0]", "Z"),
    ("c_onl_vt", _CL, "_VERIFICATION_TRAILER.pack()", "bytes"),
    ("c_onl_ISD_KEY_uuid", _G, "ISD_KEY.uuid", "uuid_le"),
    ("c_onl_ISD_KEY_version", _G, "ISD_KEY.version", "Z"),
    ("c_onl_ISD_KEY_version_minor", _G, "ISD_KEY.version_minor", "Z"),
    ("c_onl_getkey_opnum", _G, "GetKey(b'').opnum", "Z"),
    ("c_onl_default_port", "dpapi_ng._rpc._client", "create_rpc_connection.__defaults__[0]", "Z"),
    ("c_onl_provider_ids", "dpapi_ng._rpc._pdu", "[int(SecurityProvider.RPC_C_AUTHN_GSS_NEGOTIATE), int(SecurityProvider.RPC_C_AUTHN_WINNT), int(SecurityProvider.RPC_C_AUTHN_GSS_KERBEROS)]", "bytes"),
]

# whole functions as Prelude/PyAst syntax (gen/F_online.v); world coq/Flow/World_online.v, tie theorems coq/Proofs/Flow_online_conv.v
FLOWS = [
    Flow("k_flow_process_ept_map_result", F, "_process_ept_map_result", props=("C17", "C18")),   # tie: coq/Proofs/Flow_online_ept.v
    Flow("k_flow_process_get_key_result", F, "_process_get_key_result", props=P),
    Flow("k_flow_sync_get_key", F, "_sync_get_key", props=P),
    Flow("k_flow_async_get_key", F, "_async_get_key", props=P),
]
