"""Kernels / constants of area `online` (C17): what the four public functions hand to _sync_get_key / _async_get_key, the
GetKey construction, the static presentation contexts, the ept_map request, the verification trailer.

Arguments are tied as *identity kernels*: the n-th positional argument of the call is translated over parameters named like
the source expression (`blob.key_identifier.l0` -> parameter blob_key_identifier_l0), so the generated definition is the
identity exactly when the call site passes that expression in that position; `l0 = -1` etc. of the protect flavours are
inlined by the translator (local assigned once), so `k_onl_*_protect_l0` is the closed term (-1) as long as the source says so.
The conversation skeleton of _sync_get_key / _async_get_key (which object is bound with which contexts, which context id /
opnum / stub / verification trailer go into the two rpc.request calls) is a shape kernel per flavour: it yields the literal or
the name the first request's context id comes from.  The two flavours differ there for a benign reason (`rpc.request(0, ...)` vs
`rpc.request(context_id, ...)`, and `with create_rpc_connection(..) as rpc` vs `rpc = await ..; async with rpc`, and the default
of root_key_id), so that pair is NOT in TWINS; the model takes the EPM request's context id from the flavour's kernel."""
import ast

from ..kernels import Kernel as K, Unsupported, _walk_own

Z, B, S = "Z", "bool", "list Z"
F = "_client.py"
P = ("C17",)


def _norm(node) -> str:
    return ast.unparse(node)


def _conversation_shape(func):
    """Checks the skeleton of _sync_get_key / _async_get_key statement by statement and returns the Gallina term for the
    context id of the ept_map request: a literal (sync: 0) or `epm_context_id` (async: the local `context_id`, which the shape
    check has verified to be `_EPM_CONTEXTS[0].context_id`)."""
    calls = []          # (assigned name or None, unparsed call)
    assigns = {}        # name -> list of unparsed values, in order
    withs = []
    for st in _walk_own(func):
        if isinstance(st, (ast.With, ast.AsyncWith)):
            withs.append(", ".join(_norm(i) for i in st.items))
        if isinstance(st, ast.Assign) and len(st.targets) == 1 and isinstance(st.targets[0], ast.Name):
            v = st.value.value if isinstance(st.value, ast.Await) else st.value
            assigns.setdefault(st.targets[0].id, []).append(_norm(v))
        if isinstance(st, ast.Return) and st.value is not None:
            assigns.setdefault("<return>", []).append(_norm(st.value))
        if isinstance(st, ast.Expr):
            v = st.value.value if isinstance(st.value, ast.Await) else st.value
            calls.append(_norm(v))
    pre = "async_" if isinstance(func, ast.AsyncFunctionDef) else ""
    conn1 = f"{pre}create_rpc_connection(server)"
    conn2 = f"{pre}create_rpc_connection(server, isd_key_port, username=username, password=password, auth_protocol=auth_protocol)"
    if pre:
        ok_conn = assigns.get("rpc") == [conn1, conn2] and withs == ["rpc", "rpc"]
    else:
        ok_conn = withs == [conn1 + " as rpc", conn2 + " as rpc"]
    want = {
        "context_id": ["_EPM_CONTEXTS[0].context_id", "_ISD_KEY_CONTEXTS[0].context_id"],
        "ack": ["rpc.bind(contexts=_EPM_CONTEXTS)", "rpc.bind(contexts=_ISD_KEY_CONTEXTS)"],
        "ept_map": ["_EPT_MAP_ISD_KEY"],
        "isd_key_port": ["_process_ept_map_result(resp)"],
        "get_key": ["GetKey(target_sd, root_key_id, l0, l1, l2)"],
        "<return>": ["_process_get_key_result(resp)"],
    }
    for k, v in want.items():
        if assigns.get(k) != v:
            raise Unsupported(f"conversation skeleton: {k} is {assigns.get(k)}")
    if calls != ["_process_bind_result(_EPM_CONTEXTS, ack, context_id)", "_process_bind_result(_ISD_KEY_CONTEXTS, ack, context_id)"]:
        raise Unsupported(f"conversation skeleton: bind results checked as {calls}")
    if not ok_conn:
        raise Unsupported("conversation skeleton: connections are not (server) then (server, isd_key_port, credentials)")
    resp = assigns.get("resp", [])
    if len(resp) != 2 or resp[1] != "rpc.request(context_id, get_key.opnum, get_key.pack(), verification_trailer=_VERIFICATION_TRAILER)":
        raise Unsupported(f"conversation skeleton: GetKey request is {resp[1:] }")
    r0 = ast.parse(resp[0], mode="eval").body
    if not (isinstance(r0, ast.Call) and _norm(r0.func) == "rpc.request" and len(r0.args) == 3 and not r0.keywords
            and _norm(r0.args[1]) == "ept_map.opnum" and _norm(r0.args[2]) == "ept_map.pack()"):
        raise Unsupported(f"conversation skeleton: ept_map request is {resp[0]}")
    a0 = r0.args[0]
    if isinstance(a0, ast.Constant) and isinstance(a0.value, int) and not isinstance(a0.value, bool):
        return str(a0.value), resp[0]
    if isinstance(a0, ast.Name) and a0.id == "context_id":
        return "epm_context_id", resp[0] + "  (context_id = _EPM_CONTEXTS[0].context_id)"
    raise Unsupported(f"conversation skeleton: context id of the ept_map request is {_norm(a0)}")


def _target_sd_source(expected_var, expected_src):
    def sel(func):
        found = []
        for st in _walk_own(func):
            if isinstance(st, ast.Assign) and len(st.targets) == 1 and isinstance(st.targets[0], ast.Name) and st.targets[0].id == expected_var:
                found.append(_norm(st.value))
        if found != [expected_src]:
            raise Unsupported(f"{expected_var} is assigned {found}")
        return "true", f"{expected_var} = {expected_src}"
    return sel


def _arg_is(callee, idx, expected_src, param):
    """the idx-th positional argument of the first call of `callee` is the expression `expected_src`: identity on `param`
    (for str/bytes-valued attribute chains, which the expression translator only handles for integers)"""
    def sel(func):
        for st in _walk_own(func):
            for sub in ast.walk(st):
                if isinstance(sub, ast.Call) and _norm(sub.func) == callee:
                    if idx < len(sub.args) and _norm(sub.args[idx]) == expected_src:
                        return param, f"{callee}(... argument {idx} = {expected_src} ...)"
                    raise Unsupported(f"argument {idx} of {callee} is not {expected_src}")
        raise Unsupported(f"no call of {callee}")
    return sel


def _args(prefix, func, callee, names, types):
    """identity kernels for the positional arguments 1.. of the get_key call and the three credential keywords"""
    out = []
    for idx, (nm, ty) in enumerate(zip(names, types), start=1):
        if nm == "blob_key_identifier_root_key_identifier":
            out.append(K(f"{prefix}_arg{idx}", F, func, ("custom", _arg_is(callee, idx, "blob.key_identifier.root_key_identifier", nm)), [(nm, ty)], ty, props=P))
            continue
        out.append(K(f"{prefix}_arg{idx}", F, func, ("callarg", callee, 0, idx), [(nm, ty)], ty, props=P))
    for kw in ("username", "password", "auth_protocol"):
        out.append(K(f"{prefix}_kw_{kw}", F, func, ("callarg", callee, 0, kw), [(kw, S)], S, props=P))
    return out


_UNPROT = ["target_sd", "blob_key_identifier_root_key_identifier", "blob_key_identifier_l0", "blob_key_identifier_l1", "blob_key_identifier_l2"]
_PROT = ["sd", "root_key_identifier", "l0", "l1", "l2"]
_TY = [S, S, Z, Z, Z]

KERNELS = (
    _args("k_onl_unprot", "ncrypt_unprotect_secret", "_sync_get_key", _UNPROT, _TY)
    + _args("k_onl_aunprot", "async_ncrypt_unprotect_secret", "_async_get_key", _UNPROT, _TY)
    # protect: l0/l1/l2 are locals assigned once (-1): inlined, so these three are closed terms
    + [K(f"k_onl_prot_arg{i}", F, "ncrypt_protect_secret", ("callarg", "_sync_get_key", 0, i), [(_PROT[i - 1], _TY[i - 1])] if i <= 2 else [], _TY[i - 1], props=P)
       for i in range(1, 6)]
    + [K(f"k_onl_aprot_arg{i}", F, "async_ncrypt_protect_secret", ("callarg", "_async_get_key", 0, i), [(_PROT[i - 1], _TY[i - 1])] if i <= 2 else [], _TY[i - 1], props=P)
       for i in range(1, 6)]
    + [
        K("k_onl_unprot_sd_src", F, "ncrypt_unprotect_secret", ("custom", _target_sd_source("target_sd", "blob.protection_descriptor.get_target_sd()")), [], B, props=P),
        K("k_onl_aunprot_sd_src", F, "async_ncrypt_unprotect_secret", ("custom", _target_sd_source("target_sd", "blob.protection_descriptor.get_target_sd()")), [], B, props=P),
        K("k_onl_prot_sd_src", F, "ncrypt_protect_secret", ("custom", _target_sd_source("sd", "descriptor.get_target_sd()")), [], B, props=P),
        K("k_onl_aprot_sd_src", F, "async_ncrypt_protect_secret", ("custom", _target_sd_source("sd", "descriptor.get_target_sd()")), [], B, props=P),
        # the GetKey(...) construction inside both conversation flavours
        K("k_onl_sync_epm_ctx", F, "_sync_get_key", ("custom", _conversation_shape), [("epm_context_id", Z)], Z, props=P),
        K("k_onl_async_epm_ctx", F, "_async_get_key", ("custom", _conversation_shape), [("epm_context_id", Z)], Z, props=P),
    ]
    + [K(f"k_onl_getkey_arg{i}", F, "_sync_get_key", ("callarg", "GetKey", 0, i), [(n, ty)], ty, props=P)
       for i, (n, ty) in enumerate(zip(["target_sd", "root_key_id", "l0", "l1", "l2"], _TY))]
    + [K(f"k_onl_agetkey_arg{i}", F, "_async_get_key", ("callarg", "GetKey", 0, i), [(n, ty)], ty, props=P)
       for i, (n, ty) in enumerate(zip(["target_sd", "root_key_id", "l0", "l1", "l2"], _TY))]
    + [
        # _create_bind / _create_alter_context: the fixed fields of the bind PDUs the conversation sends
        K("k_onl_bind_max_xmit", "_rpc/_client.py", "RpcClient._create_bind", ("callarg", "Bind", 0, "max_xmit_frag"), [], Z, props=P),
        K("k_onl_bind_max_recv", "_rpc/_client.py", "RpcClient._create_bind", ("callarg", "Bind", 0, "max_recv_frag"), [], Z, props=P),
        K("k_onl_bind_assoc", "_rpc/_client.py", "RpcClient._create_bind", ("callarg", "Bind", 0, "assoc_group"), [], Z, props=P),
        K("k_onl_bind_call_id", "_rpc/_client.py", "RpcClient._create_bind", ("callarg", "self._create_pdu_header", 0, 2), [], Z, props=P),
        K("k_onl_alter_max_xmit", "_rpc/_client.py", "RpcClient._create_alter_context", ("callarg", "AlterContext", 0, "max_xmit_frag"), [], Z, props=P),
        K("k_onl_alter_max_recv", "_rpc/_client.py", "RpcClient._create_alter_context", ("callarg", "AlterContext", 0, "max_recv_frag"), [], Z, props=P),
        K("k_onl_alter_assoc", "_rpc/_client.py", "RpcClient._create_alter_context", ("callarg", "AlterContext", 0, "assoc_group"), [], Z, props=P),
        K("k_onl_alter_call_id", "_rpc/_client.py", "RpcClient._create_alter_context", ("callarg", "self._create_pdu_header", 0, 2), [], Z, props=P),
        K("k_onl_step_level", "_rpc/_auth.py", "AuthenticationProvider.step", ("callarg", "SecTrailer", 0, "level"),
          [("AuthenticationLevel_RPC_C_AUTHN_LEVEL_PKT_PRIVACY", Z)], Z, props=P),
        K("k_onl_step_pad", "_rpc/_auth.py", "AuthenticationProvider.step", ("callarg", "SecTrailer", 0, "pad_length"), [], Z, props=P),
        K("k_onl_step_ctx", "_rpc/_auth.py", "AuthenticationProvider.step", ("callarg", "SecTrailer", 0, "context_id"), [], Z, props=P),
    ]
)

TWINS = [
    ("C17", F, "ncrypt_unprotect_secret", "async_ncrypt_unprotect_secret", {"async_lookup_dc": "lookup_dc", "_async_get_key": "_sync_get_key"}),
    ("C17", F, "ncrypt_protect_secret", "async_ncrypt_protect_secret", {"async_lookup_dc": "lookup_dc", "_async_get_key": "_sync_get_key"}),
]

_CL = "dpapi_ng._client"
_G = "dpapi_ng._gkdi"
CONSTS = [
    ("c_onl_epm_ctx_id", _CL, "_EPM_CONTEXTS[0].context_id", "Z"),
    ("c_onl_isd_ctx_id", _CL, "_ISD_KEY_CONTEXTS[0].context_id", "Z"),
    ("c_onl_epm_ctx_ids", _CL, "[c.context_id for c in _EPM_CONTEXTS]", "bytes"),
    ("c_onl_isd_ctx_ids", _CL, "[c.context_id for c in _ISD_KEY_CONTEXTS]", "bytes"),
    ("c_onl_epm_contexts", _CL, "b''.join(c.pack() for c in _EPM_CONTEXTS)", "bytes"),
    ("c_onl_isd_contexts", _CL, "b''.join(c.pack() for c in _ISD_KEY_CONTEXTS)", "bytes"),
    ("c_onl_ept_map_stub", _CL, "_EPT_MAP_ISD_KEY.pack()", "bytes"),
    ("c_onl_ept_map_opnum", _CL, "_EPT_MAP_ISD_KEY.opnum", "Z"),
    ("c_onl_ept_max_towers", _CL, "_EPT_MAP_ISD_KEY.max_towers", "Z"),
    ("c_onl_ept_tower_port", _CL, "[f.port for f in _EPT_MAP_ISD_KEY.tower if isinstance(f, TCPFloor)][0]", "Z"),
    ("c_onl_vt", _CL, "_VERIFICATION_TRAILER.pack()", "bytes"),
    ("c_onl_ISD_KEY_uuid", _G, "ISD_KEY.uuid", "uuid_le"),
    ("c_onl_ISD_KEY_version", _G, "ISD_KEY.version", "Z"),
    ("c_onl_ISD_KEY_version_minor", _G, "ISD_KEY.version_minor", "Z"),
    ("c_onl_getkey_opnum", _G, "GetKey(b'').opnum", "Z"),
    ("c_onl_default_port", "dpapi_ng._rpc._client", "create_rpc_connection.__defaults__[0]", "Z"),
    ("c_onl_provider_ids", "dpapi_ng._rpc._pdu", "[int(SecurityProvider.RPC_C_AUTHN_GSS_NEGOTIATE), int(SecurityProvider.RPC_C_AUTHN_WINNT), int(SecurityProvider.RPC_C_AUTHN_GSS_KERBEROS)]", "bytes"),
]
