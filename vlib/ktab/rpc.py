"""Kernels of area `rpc` (C12, C18): padding / offset / mask expressions and protocol constants of the
DCE/RPC and endpoint-mapper codecs, regenerated from /repo/src/dpapi_ng on every run into
coq/gen/K_rpc.v and coq/gen/C_rpc.v (DESIGN.md Appendix A).

Expressions that live inside subscripts (`view[24 + n*20:]`, `view[len(lhs)+len(rhs)+5:]`,
`view[4+len(cmd.value):]`, `view[-(auth_len+8):]`, `(view[0] & 0xF0) >> 4`) are not reachable by the
selectors of vlib/kernels.py; they are hand-written in the model files and tied by correspondence."""
from ..kernels import Kernel as K

Z, B = "Z", "bool"
P12 = ("C12",)
P1218 = ("C12", "C18")

KERNELS = [
    # ---- _rpc/_pdu.py ------------------------------------------------------------------------
    K("k_datarep_first_octet", "_rpc/_pdu.py", "DataRep.pack", ("assign", "first_octet", 0),
      [("self_byte_order", Z), ("self_character", Z)], Z, props=P12),
    K("k_pdu_has_trailer", "_rpc/_pdu.py", "PDU.unpack", ("if", 0), [("header_auth_len", Z)], B, props=P12),
    # ---- _rpc/_request.py --------------------------------------------------------------------
    K("k_req_obj_mask", "_rpc/_request.py", "Request._unpack", ("if", 0),
      [("header_packet_flags", Z), ("PacketFlags_PFC_OBJECT_UUID", Z)], Z, props=P12),
    # ---- _rpc/_bind.py -----------------------------------------------------------------------
    K("k_bindack_pack_pad", "_rpc/_bind.py", "BindAck.pack", ("assign", "padding", 0), [("sec_addr_len", Z)], Z, props=P12),
    K("k_bindack_unpack_pad", "_rpc/_bind.py", "BindAck._unpack", ("assign", "padding", 0), [("sec_addr_len", Z)], Z, props=P12),
    K("k_bindnak_pad", "_rpc/_bind.py", "BindNak.pack", ("assign", "padding", 0), [("len_b_versions", Z)], Z, props=P12),
    # ---- _rpc/_verification.py ---------------------------------------------------------------
    K("k_cmd_type_mask", "_rpc/_verification.py", "Command.unpack", ("callarg", "CommandType", 0, 0), [("cmd_field", Z)], Z, props=P12),
    K("k_cmd_flags_mask", "_rpc/_verification.py", "Command.unpack", ("callarg", "CommandFlags", 0, 0), [("cmd_field", Z)], Z, props=P12),
    # guard added by the D9 repair (`if len(view) < 4: raise ValueError`) and the END test behind it; on a tree
    # without the repair both selectors miss / are untranslatable and the committed fallbacks are used
    K("k_vt_guard", "_rpc/_verification.py", "VerificationTrailer.unpack", ("if", 1), [("len_view", Z)], B, props=P12),
    K("k_vt_end_mask", "_rpc/_verification.py", "VerificationTrailer.unpack", ("if", 2),
      [("cmd_flags", Z), ("CommandFlags_SEC_VT_COMMAND_END", Z)], Z, props=P12),
    # ---- _epm.py -----------------------------------------------------------------------------
    K("k_floor_offset", "_epm.py", "Floor.unpack", ("assign", "offset", 0), [("lhs_len", Z)], Z, props=P1218),
    K("k_eptmap_pack_pad", "_epm.py", "EptMap.pack", ("assign", "tower_padding", 0), [("len_b_tower", Z)], Z, props=P12),
    K("k_eptmap_unpack_pad", "_epm.py", "EptMap.unpack", ("assign", "padding", 0), [("tower_length", Z)], Z, props=P12),
    K("k_eptres_pack_pad", "_epm.py", "EptMapResult.pack", ("assign", "padding", 0),
      [("len_b_t", Z), ("idx", Z), ("len_self_towers", Z)], Z, props=P1218),
    K("k_eptres_unpack_pad", "_epm.py", "EptMapResult.unpack", ("assign", "padding", 0), [("tower_length", Z)], Z, props=P1218),
    K("k_referent_skip", "_epm.py", "EptMapResult.unpack", ("assign", "tower_data_offset", 0), [("tower_count", Z)], Z, props=P1218),
    # guard added by the D12 repair (`if 48 + tower_data_offset > len(view): raise ValueError`)
    K("k_eptres_count_guard", "_epm.py", "EptMapResult.unpack", ("if", 1),
      [("tower_data_offset", Z), ("len_view", Z)], B, props=P1218),
    # ---- _client.py --------------------------------------------------------------------------
    K("k_ept_status_bad", "_client.py", "_process_ept_map_result", ("if", 0), [("map_response_status", Z)], B, props=("C18",)),
]

_PDU = "dpapi_ng._rpc._pdu"
_BIND = "dpapi_ng._rpc._bind"
_VER = "dpapi_ng._rpc._verification"
_EPM = "dpapi_ng._epm"
_RC = "dpapi_ng._rpc._client"


def _vals(enum):
    return f"sorted(int(x) for x in {enum})"


CONSTS = [
    # syntaxes
    ("c_NDR_uuid", _RC, "NDR.uuid", "uuid_le"), ("c_NDR_version", _RC, "NDR.version", "Z"), ("c_NDR_version_minor", _RC, "NDR.version_minor", "Z"),
    ("c_NDR64_uuid", _RC, "NDR64.uuid", "uuid_le"), ("c_NDR64_version", _RC, "NDR64.version", "Z"), ("c_NDR64_version_minor", _RC, "NDR64.version_minor", "Z"),
    ("c_EPM_uuid", _EPM, "EPM.uuid", "uuid_le"), ("c_EPM_version", _EPM, "EPM.version", "Z"), ("c_EPM_version_minor", _EPM, "EPM.version_minor", "Z"),
    ("c_BTFN_uuid", _BIND, "bind_time_feature_negotiation().uuid", "uuid_le"),
    ("c_BTFN_version", _BIND, "bind_time_feature_negotiation().version", "Z"),
    ("c_BTFN_version_minor", _BIND, "bind_time_feature_negotiation().version_minor", "Z"),
    # enum domains (lookup succeeds exactly on these values; everything else is ValueError)
    ("c_PacketType_values", _PDU, _vals("PacketType"), "bytes"),
    ("c_IntegerRep_values", _PDU, _vals("IntegerRep"), "bytes"),
    ("c_CharacterRep_values", _PDU, _vals("CharacterRep"), "bytes"),
    ("c_FloatingPointRep_values", _PDU, _vals("FloatingPointRep"), "bytes"),
    ("c_SecurityProvider_values", _PDU, _vals("SecurityProvider"), "bytes"),
    ("c_AuthenticationLevel_values", _PDU, _vals("AuthenticationLevel"), "bytes"),
    ("c_ContextResultCode_values", _BIND, _vals("ContextResultCode"), "bytes"),
    # dispatch table of PDU.unpack (the registry is filled when dpapi_ng._rpc is imported)
    ("c_PT_REQUEST", _PDU, "int(PacketType.REQUEST)", "Z"), ("c_PT_RESPONSE", _PDU, "int(PacketType.RESPONSE)", "Z"),
    ("c_PT_FAULT", _PDU, "int(PacketType.FAULT)", "Z"), ("c_PT_BIND", _PDU, "int(PacketType.BIND)", "Z"),
    ("c_PT_BIND_ACK", _PDU, "int(PacketType.BIND_ACK)", "Z"), ("c_PT_BIND_NAK", _PDU, "int(PacketType.BIND_NAK)", "Z"),
    ("c_PT_ALTER_CONTEXT", _PDU, "int(PacketType.ALTER_CONTEXT)", "Z"),
    ("c_PT_ALTER_CONTEXT_RESP", _PDU, "int(PacketType.ALTER_CONTEXT_RESP)", "Z"),
    ("c_PDU_registry", _PDU, "sorted(int(k) for k in _PACKET_TYPE_REGISTRY)", "bytes"),
    ("c_PFC_OBJECT_UUID", _PDU, "int(PacketFlags.PFC_OBJECT_UUID)", "Z"),
    # verification trailer
    ("c_VT_signature", _VER, "VerificationTrailer([]).signature", "bytes"),
    ("c_SEC_VT_COMMAND_END", _VER, "int(CommandFlags.SEC_VT_COMMAND_END)", "Z"),
    ("c_CMD_BITMASK_1", _VER, "int(CommandType.SEC_VT_COMMAND_BITMASK_1)", "Z"),
    ("c_CMD_PCONTEXT", _VER, "int(CommandType.SEC_VT_COMMAND_PCONTEXT)", "Z"),
    ("c_CMD_HEADER2", _VER, "int(CommandType.SEC_VT_COMMAND_HEADER2)", "Z"),
    ("c_CMD_registry", _VER, "sorted(int(k) for k in _COMMAND_TYPE_REGISTRY)", "bytes"),
    # tower floors
    ("c_FLOOR_TCP", _EPM, "int(FloorProtocol.TCP)", "Z"), ("c_FLOOR_IP", _EPM, "int(FloorProtocol.IP)", "Z"),
    ("c_FLOOR_RPC_CO", _EPM, "int(FloorProtocol.RPC_CONNECTION_ORIENTED)", "Z"),
    ("c_FLOOR_UUID", _EPM, "int(FloorProtocol.UUID_ID)", "Z"),
    ("c_FLOOR_registry", _EPM, "sorted(int(k) for k in _FLOOR_TYPE_REGISTRY)", "bytes"),
    ("c_EptMap_opnum", _EPM, "EptMap(None, [], None, 0).opnum", "Z"),
]

# whole functions as Prelude/PyAst syntax (gen/F_rpc.v); world Flow/World_rpc.v, tie theorems in Proofs/Flow_rpc_<group>.v
from ..flow import Flow  # noqa: E402

_F12 = ("C12",)
_F1218 = ("C12", "C18")
FLOWS = [
    # ---- _rpc/_pdu.py (Proofs/Flow_rpc_pdu.v) --------------------------------------------------
    Flow("k_flow_datarep_pack", "_rpc/_pdu.py", "DataRep.pack", props=_F12),
    Flow("k_flow_datarep_unpack", "_rpc/_pdu.py", "DataRep.unpack", props=_F12),
    Flow("k_flow_pduheader_pack", "_rpc/_pdu.py", "PDUHeader.pack", props=_F12),
    Flow("k_flow_pduheader_unpack", "_rpc/_pdu.py", "PDUHeader.unpack", props=_F12),
    Flow("k_flow_sectrailer_pack", "_rpc/_pdu.py", "SecTrailer.pack", props=_F12),
    Flow("k_flow_sectrailer_unpack", "_rpc/_pdu.py", "SecTrailer.unpack", props=_F12),
    Flow("k_flow_fault_pack", "_rpc/_pdu.py", "Fault.pack", props=_F12),
    Flow("k_flow_fault_unpack", "_rpc/_pdu.py", "Fault._unpack", props=_F12),
    # ---- _rpc/_request.py (Proofs/Flow_rpc_request.v) ------------------------------------------
    Flow("k_flow_response_pack", "_rpc/_request.py", "Response.pack", props=_F12),
    Flow("k_flow_response_unpack", "_rpc/_request.py", "Response._unpack", props=_F12),
    Flow("k_flow_request_pack", "_rpc/_request.py", "Request.pack", props=_F12),
    Flow("k_flow_request_unpack", "_rpc/_request.py", "Request._unpack", props=_F12),
    # ---- _rpc/_bind.py (Proofs/Flow_rpc_bind_{ctx,bind,ack}.v) ------------------------------------------------
    Flow("k_flow_syntaxid_pack", "_rpc/_bind.py", "SyntaxId.pack", props=_F12),
    Flow("k_flow_syntaxid_unpack", "_rpc/_bind.py", "SyntaxId.unpack", props=_F12),
    Flow("k_flow_contextelement_pack", "_rpc/_bind.py", "ContextElement.pack", props=_F12),
    Flow("k_flow_contextelement_unpack", "_rpc/_bind.py", "ContextElement.unpack", props=_F12),
    Flow("k_flow_contextresult_pack", "_rpc/_bind.py", "ContextResult.pack", props=_F12),
    Flow("k_flow_contextresult_unpack", "_rpc/_bind.py", "ContextResult.unpack", props=_F12),
    Flow("k_flow_bindack_pack", "_rpc/_bind.py", "BindAck.pack", props=_F12),
    Flow("k_flow_bindack_unpack", "_rpc/_bind.py", "BindAck._unpack", props=_F12),
    Flow("k_flow_bindnak_pack", "_rpc/_bind.py", "BindNak.pack", props=_F12),
    Flow("k_flow_bindnak_unpack", "_rpc/_bind.py", "BindNak._unpack", props=_F12),
    Flow("k_flow_bind_pack", "_rpc/_bind.py", "Bind.pack", props=_F12),
    Flow("k_flow_bind_unpack", "_rpc/_bind.py", "Bind._unpack", props=_F12),
    Flow("k_flow_altercontext_unpack", "_rpc/_bind.py", "AlterContext._unpack", props=_F12),
    Flow("k_flow_altercontextresponse_unpack", "_rpc/_bind.py", "AlterContextResponse._unpack", props=_F12),
    Flow("k_flow_btfn", "_rpc/_bind.py", "bind_time_feature_negotiation", props=_F12),
    # ---- _rpc/_verification.py (Proofs/Flow_rpc_vt.v) ------------------------------------------
    Flow("k_flow_command_pack", "_rpc/_verification.py", "Command.pack", props=_F12),
    Flow("k_flow_command_unpack", "_rpc/_verification.py", "Command.unpack", props=_F12),
    Flow("k_flow_cmdbitmask_pack", "_rpc/_verification.py", "CommandBitmask.pack", props=_F12),
    Flow("k_flow_cmdbitmask_unpack", "_rpc/_verification.py", "CommandBitmask._unpack", props=_F12),
    Flow("k_flow_cmdpcontext_pack", "_rpc/_verification.py", "CommandPContext.pack", props=_F12),
    Flow("k_flow_cmdpcontext_unpack", "_rpc/_verification.py", "CommandPContext._unpack", props=_F12),
    Flow("k_flow_cmdheader2_pack", "_rpc/_verification.py", "CommandHeader2.pack", props=_F12),
    Flow("k_flow_cmdheader2_unpack", "_rpc/_verification.py", "CommandHeader2._unpack", props=_F12),
    Flow("k_flow_vt_pack", "_rpc/_verification.py", "VerificationTrailer.pack", props=_F12),
    Flow("k_flow_vt_unpack", "_rpc/_verification.py", "VerificationTrailer.unpack", props=_F12),
    # ---- _epm.py: floors and the reply (Proofs/Flow_rpc_epm.v: C12 and C18) ---------------------
    Flow("k_flow_floor_pack", "_epm.py", "Floor.pack", props=_F1218),
    Flow("k_flow_floor_unpack", "_epm.py", "Floor.unpack", props=_F1218),
    Flow("k_flow_tcpfloor_pack", "_epm.py", "TCPFloor.pack", props=_F1218),
    Flow("k_flow_tcpfloor_unpack", "_epm.py", "TCPFloor._unpack", props=_F1218),
    Flow("k_flow_ipfloor_pack", "_epm.py", "IPFloor.pack", props=_F1218),
    Flow("k_flow_ipfloor_unpack", "_epm.py", "IPFloor._unpack", props=_F1218),
    Flow("k_flow_rpccofloor_pack", "_epm.py", "RPCConnectionOrientedFloor.pack", props=_F1218),
    Flow("k_flow_rpccofloor_unpack", "_epm.py", "RPCConnectionOrientedFloor._unpack", props=_F1218),
    Flow("k_flow_uuidfloor_pack", "_epm.py", "UUIDFloor.pack", props=_F1218),
    Flow("k_flow_uuidfloor_unpack", "_epm.py", "UUIDFloor._unpack", props=_F1218),
    Flow("k_flow_eptmapresult_pack", "_epm.py", "EptMapResult.pack", props=_F1218),
    Flow("k_flow_eptmapresult_unpack", "_epm.py", "EptMapResult.unpack", props=_F1218),
    # ---- _epm.py: the request (Proofs/Flow_rpc_eptmap_{unpack,pack}.v: C12) ----------------------------------
    Flow("k_flow_build_tcpip_tower", "_epm.py", "build_tcpip_tower", props=_F12),
    Flow("k_flow_eptmap_pack", "_epm.py", "EptMap.pack", props=_F12),
    Flow("k_flow_eptmap_unpack", "_epm.py", "EptMap.unpack", props=_F12),
]
