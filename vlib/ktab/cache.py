"""Kernels of KeyCache (_client.py): C10."""
import ast

from ..flow import Flow
from ..kernels import Kernel as K, Unsupported

Z, B = "Z", "bool"
F = "_client.py"


def _root_return_shape(func: ast.AST):
    """How KeyCache._get_key hands back the root-derived envelope: either it overwrites the cached
    entry (`...[l0] = gke` then `return gke`) or it keeps an existing entry (`return ....setdefault(l0, gke)`)."""
    blk = None
    for st in ast.walk(func):
        if isinstance(st, ast.If) and isinstance(st.test, ast.Name) and st.test.id == "root_key":
            blk = st.body
    if not blk:
        raise Unsupported("no `if root_key:` block")
    last = blk[-1]
    if not isinstance(last, ast.Return) or last.value is None:
        raise Unsupported("root block does not end in return")
    v = last.value
    if isinstance(v, ast.Call) and isinstance(v.func, ast.Attribute) and v.func.attr == "setdefault" \
            and len(v.args) == 2 and ast.unparse(v.args[0]) == "l0" and ast.unparse(v.args[1]) == "gke":
        return "false", ast.unparse(last)
    if isinstance(v, ast.Name) and v.id == "gke" and len(blk) >= 2:
        prev = blk[-2]
        if isinstance(prev, ast.Assign) and len(prev.targets) == 1 and isinstance(prev.targets[0], ast.Subscript) \
                and ast.unparse(prev.targets[0].slice) == "l0" and ast.unparse(prev.value) == "gke" \
                and "_seed_keys" in ast.unparse(prev.targets[0].value) and "root_key_id" in ast.unparse(prev.targets[0].value) \
                and "target_sd" in ast.unparse(prev.targets[0].value):
            return "true", ast.unparse(prev) + " ; " + ast.unparse(last)
    raise Unsupported("unrecognised way of returning the root-derived envelope")


def _l0_guard(func: ast.AST):
    """KeyCache._get_key: the test of `if <... l0 ...>: raise ValueError(...)` refusing L0 indexes that do not fit the
    signed 32-bit field of the KDF context / GetKey request; `false` when there is no such statement."""
    from ..kernels import Translator, _module

    for st in func.body:
        if isinstance(st, ast.If) and len(st.body) == 1 and isinstance(st.body[0], ast.Raise) and not st.orelse:
            if "l0" in ast.unparse(st.test):
                tr = Translator(_module(F), func, {"l0": "Z"}, False)
                return tr.b(st.test), ast.unparse(st)
    return "false", "<no statement refuses an out-of-range L0>"


KERNELS = [
    K("k_cache_covers", F, "KeyCache._get_key", ("if_mentions", "seed_key", 0),
      [("seed_key", B), ("seed_key_l1", Z), ("l1", Z), ("seed_key_l2", Z), ("l2", Z)], B, props=("C10", "C02")),
    K("k_cache_store", F, "KeyCache._store_key", ("if_mentions", "existing", 0),
      [("existing", B), ("key_l1", Z), ("existing_l1", Z), ("key_l2", Z), ("existing_l2", Z)], B, props=("C10", "C02")),
    K("k_cache_root_overwrites", F, "KeyCache._get_key", ("custom", _root_return_shape), [], B, props=("C10",)),
    K("k_cache_l0_guard", F, "KeyCache._get_key", ("custom", _l0_guard), [("l0", Z)], B, props=("C05",)),
    K("k_root_env_l1", F, "KeyCache._get_key", ("callarg", "GroupKeyEnvelope", 0, "l1"), [], Z, props=("C10", "C02")),
    K("k_root_env_l2", F, "KeyCache._get_key", ("callarg", "GroupKeyEnvelope", 0, "l2"), [], Z, props=("C10", "C02")),
    K("k_root_env_flags", F, "KeyCache._get_key", ("callarg", "GroupKeyEnvelope", 0, "flags"), [], Z, props=("C10", "C02")),
]


# the async public functions must be the same programs as the sync ones up to await / the _async_ helpers (C10 is stated for both)
TWINS = [
    ("C10", "_client.py", "ncrypt_unprotect_secret", "async_ncrypt_unprotect_secret",
     {"async_lookup_dc": "lookup_dc", "_async_get_key": "_sync_get_key"}),
    ("C10", "_client.py", "ncrypt_protect_secret", "async_ncrypt_protect_secret",
     {"async_lookup_dc": "lookup_dc", "_async_get_key": "_sync_get_key"}),
]


# whole functions as Prelude/PyAst syntax (gen/F_cache.v); world coq/Flow/World_cache.v, tie theorems in coq/Proofs/Flow_cache_*.v
FLOWS = [
    Flow("k_flow_keycache_init", "_client.py", "KeyCache.__init__", props=("C10",)),
    Flow("k_flow_keycache_load_key", "_client.py", "KeyCache.load_key", props=("C10",)),
    # KeyCache._get_key is refused by the translator ("subscript assignment to a non-local":
    # self._seed_keys.setdefault(..).setdefault(..)[l0] = gke stores through a call chain): no flow, covered by the kernels above
    # KeyCache._store_key and _get_key: refused by vlib/flow.py (store through a possible alias of an inner dictionary): no flow;
    # they stay with the kernels k_cache_store / k_cache_covers / k_cache_root_overwrites and the correspondence cache.histories
    Flow("k_flow_ncrypt_unprotect_secret", "_client.py", "ncrypt_unprotect_secret", props=("C10", "C01", "C05")),
    Flow("k_flow_ncrypt_protect_secret", "_client.py", "ncrypt_protect_secret", props=("C10", "C01")),
    Flow("k_flow_async_ncrypt_unprotect_secret", "_client.py", "async_ncrypt_unprotect_secret", props=("C10", "C01")),
    Flow("k_flow_async_ncrypt_protect_secret", "_client.py", "async_ncrypt_protect_secret", props=("C10", "C01")),
]
