"""Area asn1 (C07, C06): DER thresholds / masks / shifts of _asn1.py, tag numbers, CMS OIDs and versions."""
from ..flow import Flow
from ..kernels import Kernel as K

Z, B = "Z", "bool"
A = "_asn1.py"
P7 = ("C07", "C06", "C05")
P6 = ("C06",)

KERNELS = [
    # ---- _pack_asn1: identifier octet, low/high tag number, short/long length --------------------
    K("k_der_class_bad", A, "_pack_asn1", ("if", 0), [("tag_class", Z)], B, props=P7),
    K("k_der_ident_class", A, "_pack_asn1", ("assign", "identifier_octets", 0), [("tag_class", Z)], Z, props=P7),
    K("k_der_ident_cons", A, "_pack_asn1", ("augassign", "identifier_octets", 0),
      [("identifier_octets", Z), ("constructed", B)], Z, props=P7),
    K("k_der_low_tag", A, "_pack_asn1", ("if", 1), [("tag_number", Z)], B, props=P7),
    K("k_der_ident_low", A, "_pack_asn1", ("augassign", "identifier_octets", 1),
      [("identifier_octets", Z), ("tag_number", Z)], Z, props=P7),
    K("k_der_ident_high", A, "_pack_asn1", ("augassign", "identifier_octets", 2),
      [("identifier_octets", Z)], Z, props=P7),
    K("k_der_short_len", A, "_pack_asn1", ("if", 2), [("length", Z)], B, props=P7),
    K("k_der_len_more", A, "_pack_asn1", ("while", 0), [("length", Z)], B, props=P7),
    K("k_der_len_octet", A, "_pack_asn1", ("callarg", "length_octets.append", 0, 0), [("length", Z)], Z, props=P7),
    K("k_der_len_shift", A, "_pack_asn1", ("augassign", "length", 0), [("length", Z)], Z, props=P7),
    K("k_der_len_first", A, "_pack_asn1", ("callarg", "b_asn1_data.append", 5, 0), [("len_length_octets", Z)], Z, props=P7),

    # ---- _pack_asn1_octet_number / _unpack_asn1_octet_number (base 128) -------------------------
    K("k_b128_more", A, "_pack_asn1_octet_number", ("while", 0), [("num", Z)], B, props=P7),
    K("k_b128_low", A, "_pack_asn1_octet_number", ("assign", "octet_value", 0), [("num", Z)], Z, props=P7),
    K("k_b128_cont", A, "_pack_asn1_octet_number", ("augassign", "octet_value", 0), [("octet_value", Z)], Z, props=P7),
    K("k_b128_shift", A, "_pack_asn1_octet_number", ("augassign", "num", 0), [("num", Z)], Z, props=P7),
    K("k_b128_acc", A, "_unpack_asn1_octet_number", ("assign", "i", 1), [("i", Z), ("element", Z)], Z, props=P7),

    # ---- _read_asn1_header ----------------------------------------------------------------------
    K("k_hdr_class", A, "_read_asn1_header", ("callarg", "TagClass", 0, 0), [("octet1", Z)], Z, props=P7),
    K("k_hdr_cons", A, "_read_asn1_header", ("callarg", "bool", 0, 0), [("octet1", Z)], Z, props=P7),
    K("k_hdr_num", A, "_read_asn1_header", ("assign", "tag_number", 0), [("octet1", Z)], Z, props=P7),
    K("k_hdr_high", A, "_read_asn1_header", ("if", 1), [("tag_number", Z)], B, props=P7),
    K("k_hdr_indef", A, "_read_asn1_header", ("if", 4), [("length", Z)], B, props=P7),
    K("k_hdr_long", A, "_read_asn1_header", ("if", 5), [("length", Z)], Z, props=P7),
    K("k_hdr_len_octets", A, "_read_asn1_header", ("augassign", "length_octets", 0),
      [("length_octets", Z), ("length", Z)], Z, props=P7),
    K("k_hdr_len_acc", A, "_read_asn1_header", ("augassign", "length", 0),
      [("length", Z), ("octet_val", Z), ("length_octets", Z), ("idx", Z)], Z, props=P7),
    K("k_vt_short", A, "_validate_tag", ("if", 3), [("len_view", Z), ("data_length", Z)], B, props=P7),

    # ---- _pack_asn1_integer / _read_asn1_integer ------------------------------------------------
    K("k_int_limit_pos", A, "_pack_asn1_integer", ("assign", "limit", 0), [], Z, props=P7),
    K("k_int_limit_neg", A, "_pack_asn1_integer", ("assign", "limit", 1), [], Z, props=P7),
    K("k_int_is_neg", A, "_pack_asn1_integer", ("if", 1), [("value", Z)], B, props=P7),
    K("k_int_more", A, "_pack_asn1_integer", ("while", 0), [("value", Z), ("limit", Z)], B, props=P7, inline_locals=False),
    K("k_int_digit", A, "_pack_asn1_integer", ("assign", "val", 0), [("value", Z)], Z, props=P7),
    K("k_int_compl", A, "_pack_asn1_integer", ("assign", "val", 1), [("val", Z)], Z, props=P7),
    K("k_int_shift", A, "_pack_asn1_integer", ("augassign", "value", 0), [("value", Z)], Z, props=P7),
    K("k_int_top", A, "_pack_asn1_integer", ("callarg", "b_int.append", 2, 0), [("value", Z), ("is_negative", B)], Z, props=P7),
    K("k_int_carry", A, "_pack_asn1_integer", ("if", 4), [("val", Z)], B, props=P7),
    K("k_int_fold", A, "_read_asn1_integer", ("assign", "int_value", 1), [("int_value", Z), ("val", Z)], Z, props=P7),
    K("k_int_negate", A, "_read_asn1_integer", ("augassign", "int_value", 0), [("int_value", Z)], Z, props=P7),

    # ---- OID -----------------------------------------------------------------------------------
    K("k_oid_low", A, "_encode_object_identifier", ("callarg", "result.append", 0, 0), [("cmp_data", Z)], Z, props=P7),
    K("k_oid_more", A, "_encode_object_identifier", ("while", 0), [("cmp_data", Z)], B, props=P7),
    K("k_oid_shift", A, "_encode_object_identifier", ("augassign", "cmp_data", 0), [("cmp_data", Z)], Z, props=P7),
    K("k_oid_cont", A, "_encode_object_identifier", ("callarg", "result.append", 1, 0), [("cmp_data", Z)], Z, props=P7),
    K("k_oid_second", A, "_read_asn1_object_identifier", ("assign", "second_element", 0), [("first_element", Z)], Z, props=P7),

    # ---- C06: versions, context tag numbers, GCM parameter constants ------------------------------
    K("k_blob_kri_version", "_blob.py", "DPAPINGBlob.pack", ("callarg", "KEKRecipientInfo", 0, "version"), [], Z, props=P6),
    K("k_blob_ed_version", "_blob.py", "DPAPINGBlob.pack", ("callarg", "EnvelopedData", 0, "version"), [], Z, props=P6),
    K("k_ed_version_bad", "_pkcs7.py", "EnvelopedData.unpack", ("if", 0), [("version", Z)], B, props=P6),
    K("k_ci_content_tagnum", "_pkcs7.py", "ContentInfo.pack", ("callarg", "ASN1Tag", 0, "tag_number"), [], Z, props=P6),
    K("k_ci_content_tagnum_r", "_pkcs7.py", "ContentInfo.unpack", ("callarg", "ASN1Tag", 0, "tag_number"), [], Z, props=P6),
    K("k_eci_content_tagnum", "_pkcs7.py", "EncryptedContentInfo.pack", ("callarg", "ASN1Tag", 0, "tag_number"), [], Z, props=P6),
    K("k_eci_content_tagnum_r", "_pkcs7.py", "EncryptedContentInfo.unpack", ("callarg", "ASN1Tag", 0, "tag_number"), [], Z, props=P6),
    K("k_gcm_icv_len", "_client.py", "_encrypt_blob", ("callarg", "parameters.write_integer", 0, 0), [], Z, props=P6),
    K("k_gcm_nonce_len", "_crypto.py", "cek_generate", ("callarg", "os.urandom", 0, 0), [], Z, props=P6),
]

_T = "dpapi_ng._asn1"
_P = "dpapi_ng._pkcs7"
_B = "dpapi_ng._blob"
CONSTS = [
    ("c_universal_numbers", _T, "bytes(sorted(set(int(x) for x in TypeTagNumber)))", "bytes"),
    ("c_class_universal", _T, "TagClass.UNIVERSAL", "Z"),
    ("c_class_context", _T, "TagClass.CONTEXT_SPECIFIC", "Z"),
    ("c_tag_boolean", _T, "TypeTagNumber.BOOLEAN", "Z"),
    ("c_tag_integer", _T, "TypeTagNumber.INTEGER", "Z"),
    ("c_tag_octet_string", _T, "TypeTagNumber.OCTET_STRING", "Z"),
    ("c_tag_oid", _T, "TypeTagNumber.OBJECT_IDENTIFIER", "Z"),
    ("c_tag_enumerated", _T, "TypeTagNumber.ENUMERATED", "Z"),
    ("c_tag_utf8", _T, "TypeTagNumber.UTF8_STRING", "Z"),
    ("c_tag_sequence", _T, "TypeTagNumber.SEQUENCE", "Z"),
    ("c_tag_set", _T, "TypeTagNumber.SET", "Z"),
    ("c_tag_gentime", _T, "TypeTagNumber.GENERALIZED_TIME", "Z"),
    # CMS / DPAPI-NG constants (C06)
    ("c_oid_enveloped_data", _P, "EnvelopedData.CONTENT_TYPE_ENVELOPED_DATA_OID", "str"),
    ("c_oid_data", _P, "EnvelopedData.CONTENT_TYPE_DATA_OID", "str"),
    ("c_kekri_choice", _P, "KEKRecipientInfo.choice", "Z"),
    ("c_oid_ms_software", _B, "DPAPINGBlob.MICROSOFT_SOFTWARE_OID", "str"),
    ("c_oid_pd_sid", _B, "ProtectionDescriptorType.SID.value", "str"),
    ("c_pd_sid_name", _B, "ProtectionDescriptorType.SID.name", "str"),
    ("c_oid_aes256_wrap", "dpapi_ng._crypto", "AlgorithmOID.AES256_WRAP.value", "str"),
    ("c_oid_aes256_gcm", "dpapi_ng._crypto", "AlgorithmOID.AES256_GCM.value", "str"),
]

# whole functions as Prelude/PyAst syntax (gen/F_asn1.v). Part "der" (_asn1.py): world coq/Flow/World_asn1.v, tie theorems in
# coq/Proofs/Flow_asn1_*.v. APPEND ONLY (two engineers edit this list).
FLOWS = [
    Flow("k_flow_universal_tag", A, "ASN1Tag.universal_tag", props=("C07",)),
    Flow("k_flow_pack_asn1", A, "_pack_asn1", props=("C07",)),
    Flow("k_flow_pack_asn1_boolean", A, "_pack_asn1_boolean", props=("C07",)),
    Flow("k_flow_pack_asn1_enumerated", A, "_pack_asn1_enumerated", props=("C07",)),
    Flow("k_flow_pack_asn1_generalized_time", A, "_pack_asn1_generalized_time", props=("C07",)),
    Flow("k_flow_pack_asn1_integer", A, "_pack_asn1_integer", props=("C07",)),
    Flow("k_flow_pack_asn1_octet_string", A, "_pack_asn1_octet_string", props=("C07",)),
    Flow("k_flow_pack_asn1_object_identifier", A, "_pack_asn1_object_identifier", props=("C07",)),
    Flow("k_flow_pack_asn1_utf8_string", A, "_pack_asn1_utf8_string", props=("C07",)),
    Flow("k_flow_encode_object_identifier", A, "_encode_object_identifier", props=("C07",)),
    Flow("k_flow_pack_asn1_octet_number", A, "_pack_asn1_octet_number", props=("C07",)),
    Flow("k_flow_unpack_asn1_octet_number", A, "_unpack_asn1_octet_number", props=("C07",)),
    Flow("k_flow_read_asn1_header", A, "_read_asn1_header", props=("C07",)),
    Flow("k_flow_read_asn1_boolean", A, "_read_asn1_boolean", props=("C07",)),
    Flow("k_flow_read_asn1_enumerated", A, "_read_asn1_enumerated", props=("C07",)),
    Flow("k_flow_read_asn1_generalized_time", A, "_read_asn1_generalized_time", props=("C07",)),
    Flow("k_flow_read_asn1_integer", A, "_read_asn1_integer", props=("C07",)),
    Flow("k_flow_read_asn1_object_identifier", A, "_read_asn1_object_identifier", props=("C07",)),
    Flow("k_flow_read_asn1_octet_string", A, "_read_asn1_octet_string", props=("C07",)),
    Flow("k_flow_read_asn1_sequence", A, "_read_asn1_sequence", props=("C07",)),
    Flow("k_flow_read_asn1_set", A, "_read_asn1_set", props=("C07",)),
    Flow("k_flow_read_asn1_utf8_string", A, "_read_asn1_utf8_string", props=("C07",)),
    Flow("k_flow_validate_tag", A, "_validate_tag", props=("C07",)),
    Flow("k_flow_reader_init", A, "ASN1Reader.__init__", props=("C07",)),
    Flow("k_flow_reader_bool", A, "ASN1Reader.__bool__", props=("C07",)),
    Flow("k_flow_reader_peek_header", A, "ASN1Reader.peek_header", props=("C07",)),
    Flow("k_flow_reader_skip_value", A, "ASN1Reader.skip_value", props=("C07",)),
    Flow("k_flow_reader_get_remaining_data", A, "ASN1Reader.get_remaining_data", props=("C07",)),
    Flow("k_flow_reader_read_boolean", A, "ASN1Reader.read_boolean", props=("C07",)),
    Flow("k_flow_reader_read_enumerated", A, "ASN1Reader.read_enumerated", props=("C07",)),
    Flow("k_flow_reader_read_generalized_time", A, "ASN1Reader.read_generalized_time", props=("C07",)),
    Flow("k_flow_reader_read_integer", A, "ASN1Reader.read_integer", props=("C07",)),
    Flow("k_flow_reader_read_object_identifier", A, "ASN1Reader.read_object_identifier", props=("C07",)),
    Flow("k_flow_reader_read_octet_string", A, "ASN1Reader.read_octet_string", props=("C07",)),
    Flow("k_flow_reader_read_set", A, "ASN1Reader.read_set", props=("C07",)),
    Flow("k_flow_reader_read_sequence", A, "ASN1Reader.read_sequence", props=("C07",)),
    Flow("k_flow_reader_read_utf8_string", A, "ASN1Reader.read_utf8_string", props=("C07",)),
    Flow("k_flow_writer_init", A, "ASN1Writer.__init__", props=("C07",)),
    Flow("k_flow_writer_enter", A, "ASN1Writer.__enter__", props=("C07",)),
    Flow("k_flow_writer_exit", A, "ASN1Writer.__exit__", props=("C07",)),
    Flow("k_flow_writer_push_sequence", A, "ASN1Writer.push_sequence", props=("C07",)),
    Flow("k_flow_writer_push_set", A, "ASN1Writer.push_set", props=("C07",)),
    Flow("k_flow_writer_write_boolean", A, "ASN1Writer.write_boolean", props=("C07",)),
    Flow("k_flow_writer_write_enumerated", A, "ASN1Writer.write_enumerated", props=("C07",)),
    Flow("k_flow_writer_write_generalized_time", A, "ASN1Writer.write_generalized_time", props=("C07",)),
    Flow("k_flow_writer_write_integer", A, "ASN1Writer.write_integer", props=("C07",)),
    Flow("k_flow_writer_write_octet_string", A, "ASN1Writer.write_octet_string", props=("C07",)),
    Flow("k_flow_writer_write_object_identifier", A, "ASN1Writer.write_object_identifier", props=("C07",)),
    Flow("k_flow_writer_write_utf8_string", A, "ASN1Writer.write_utf8_string", props=("C07",)),
    Flow("k_flow_writer_write_raw", A, "ASN1Writer.write_raw", props=("C07",)),
    Flow("k_flow_writer_get_data", A, "ASN1Writer.get_data", props=("C07",)),
]

# ---- part "cms" (_pkcs7.py, _blob.py): world coq/Flow/World_cms.v, ties coq/Proofs/Flow_cms_{unpack,pack,sd}.v ----------------
_PU = ("C06", "C05")      # decoders: on the unprotect path
_PP = ("C06",)            # encoders
FLOWS += [
    Flow("k_flow_AlgorithmIdentifier_unpack", "_pkcs7.py", "AlgorithmIdentifier.unpack", props=_PU),
    Flow("k_flow_OtherKeyAttribute_unpack", "_pkcs7.py", "OtherKeyAttribute.unpack", props=_PU),
    Flow("k_flow_ContentInfo_unpack", "_pkcs7.py", "ContentInfo.unpack", props=_PU),
    Flow("k_flow_KEKIdentifier_unpack", "_pkcs7.py", "KEKIdentifier.unpack", props=_PU),
    Flow("k_flow_RecipientInfo_unpack", "_pkcs7.py", "RecipientInfo.unpack", props=_PU),
    Flow("k_flow_ProtectionDescriptor_unpack", "_blob.py", "ProtectionDescriptor.unpack", props=_PU),
    Flow("k_flow_DPAPINGBlob_unpack", "_blob.py", "DPAPINGBlob.unpack", props=_PU),
    Flow("k_flow_AlgorithmIdentifier_pack", "_pkcs7.py", "AlgorithmIdentifier.pack", props=_PP),
    Flow("k_flow_OtherKeyAttribute_pack", "_pkcs7.py", "OtherKeyAttribute.pack", props=_PP),
    Flow("k_flow_ContentInfo_pack", "_pkcs7.py", "ContentInfo.pack", props=_PP),
    Flow("k_flow_RecipientInfo_pack", "_pkcs7.py", "RecipientInfo.pack", props=_PP),
    Flow("k_flow_ProtectionDescriptor_pack", "_blob.py", "ProtectionDescriptor.pack", props=_PP),
    Flow("k_flow_ProtectionDescriptor_parse", "_blob.py", "ProtectionDescriptor.parse", props=_PP),
    Flow("k_flow_ProtectionDescriptor_get_target_sd", "_blob.py", "ProtectionDescriptor.get_target_sd", props=("C05",)),
    Flow("k_flow_SIDDescriptor_get_target_sd", "_blob.py", "SIDDescriptor.get_target_sd", props=("C05", "C08")),
    # a callee advances / appends to an ARGUMENT (reader, writer): run by Prelude/PyAstMut.v (mw_call_mut / mw_meth_mut)
    Flow("k_flow_EncryptedContentInfo_unpack", "_pkcs7.py", "EncryptedContentInfo.unpack", props=_PU),
    Flow("k_flow_KEKRecipientInfo_unpack", "_pkcs7.py", "KEKRecipientInfo.unpack", props=_PU),
    Flow("k_flow_EnvelopedData_unpack", "_pkcs7.py", "EnvelopedData.unpack", props=_PU),
    Flow("k_flow_EncryptedContentInfo_pack", "_pkcs7.py", "EncryptedContentInfo.pack", props=_PP),
    Flow("k_flow_KEKIdentifier_pack", "_pkcs7.py", "KEKIdentifier.pack", props=_PP),
    Flow("k_flow_KEKRecipientInfo_pack", "_pkcs7.py", "KEKRecipientInfo.pack", props=_PP),
    Flow("k_flow_EnvelopedData_pack", "_pkcs7.py", "EnvelopedData.pack", props=_PP),
    Flow("k_flow_DPAPINGBlob_pack", "_blob.py", "DPAPINGBlob.pack", props=_PP),
]
