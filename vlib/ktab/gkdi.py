"""Kernels / constants of area gkdi (C11, C03): MS-GKDI structures, GetKey stubs, KEK derivation.

Slice bounds that only occur inside subscripts (`view[16 : 16 + n]`, `view[: n - 2]`) and the
`b"\\x00" * (-len(self.target_sd) % 8)` element of the join list are not reachable by the selectors of
vlib/kernels.py (they select whole assignments / tests / call arguments); those stay hand-written in
coq/Model/Gkdi.v, coq/Model/KeyId.v and are tied to the source by the correspondence units. The byte
constants that are literals inside methods are dumped by *evaluating the library* (CONSTS below)."""
from ..kernels import Kernel as K

Z, B = "Z", "bool"

KERNELS = [
    # GetKey.unpack: padding = -target_sd_len % 8
    K("k_getkey_unpack_pad", "_gkdi.py", "GetKey.unpack", ("assign", "padding", 0),
      [("target_sd_len", Z)], Z, props=("C11",)),
    # GetKey.unpack_response: if hresult != 0: raise ValueError
    K("k_getkey_resp_fail", "_gkdi.py", "GetKey.unpack_response", ("if", 0),
      [("hresult", Z)], B, props=("C11",)),
    # _client._process_get_key_result: pad stripping
    K("k_strip_len0", "_client.py", "_process_get_key_result", ("assign", "pad_length", 0),
      [("len_response_stub_data", Z)], Z, props=("C11", "C13")),
    K("k_strip_test", "_client.py", "_process_get_key_result", ("if", 0),
      [("response_sec_trailer", B), ("response_sec_trailer_pad_length", Z)], B, inline_locals=False, props=("C11", "C13")),
    K("k_strip_sub", "_client.py", "_process_get_key_result", ("augassign", "pad_length", 0),
      [("pad_length", Z), ("response_sec_trailer_pad_length", Z)], Z, inline_locals=False, props=("C11", "C13")),
    # get_kek: L0 mismatch test; private key length in bytes on both sides; nonce length
    K("k_getkek_l0_mismatch", "_gkdi.py", "GroupKeyEnvelope.get_kek", ("if", 1),
      [("self_l0", Z), ("key_id_l0", Z)], B, props=("C03",)),
    K("k_ceil_priv_get", "_gkdi.py", "GroupKeyEnvelope.get_kek", ("callarg", "compute_kek_from_public_key", 0, "private_key_length"),
      [("self_private_key_length", Z)], Z, props=("C03", "C19")),
    K("k_ceil_priv_new", "_gkdi.py", "GroupKeyEnvelope.new_kek", ("callarg", "os.urandom", 0, 0),
      [("self_private_key_length", Z)], Z, props=("C03", "C19")),
    K("k_nonce_len", "_gkdi.py", "GroupKeyEnvelope.new_kek", ("callarg", "os.urandom", 1, 0),
      [], Z, props=("C03", "C19")),
    K("k_kek_len_nonce_get", "_gkdi.py", "GroupKeyEnvelope.get_kek", ("callarg", "kdf", 0, 4), [], Z, props=("C03",)),
    K("k_kek_len_nonce_new", "_gkdi.py", "GroupKeyEnvelope.new_kek", ("callarg", "kdf", 0, 4), [], Z, props=("C03",)),
    K("k_kek_len_pub", "_gkdi.py", "compute_kek", ("callarg", "kdf", 0, 4), [], Z, props=("C03",)),
    # compute_kek (DH): the peer's public value must be a non-degenerate group element (repair of D16). The parameter
    # comparison just before it is a tuple comparison, which the kernel translator does not express: hand-written in
    # Model/Kek.v (dh_params_mismatch) and tied to the source by the flow tie of compute_kek.
    K("k_dh_pub_bad", "_gkdi.py", "compute_kek", ("if_mentions", "field_order - 1", 0),
      [("dh_pub_key_public_key", Z), ("dh_pub_key_field_order", Z)], B, props=("C03", "C04")),
    # FFCDHKey.unpack refuses data shorter than the three key_length-octet integers it announces (bounds key_length by the input size)
    K("k_ffcdhkey_short", "_gkdi.py", "FFCDHKey.unpack", ("if_mentions", "key_length", 0),
      [("len_view", Z), ("key_length", Z)], B, props=("C05", "C11", "C03")),
]

_U0 = "uuid.UUID(int=0)"
_GKE0 = f"GroupKeyEnvelope(0, 0, 0, 0, 0, {_U0}, '', b'', '', b'', 0, 0, '', '', b'', b'')"
CONSTS = [
    ("c_KEYID_MAGIC", "dpapi_ng._blob", "KeyIdentifier.magic", "bytes"),
    ("c_GKE_MAGIC", "dpapi_ng._gkdi", "GroupKeyEnvelope.magic", "bytes"),
    ("c_FFCDH_PARAMS_MAGIC", "dpapi_ng._gkdi", "FFCDHParameters.magic", "bytes"),
    ("c_FFCDH_KEY_MAGIC", "dpapi_ng._gkdi", "FFCDHKey.magic", "bytes"),
    # literals inside methods: obtained from the packed output of the library itself
    ("c_KDF_PARAMS_MAGIC0", "dpapi_ng._gkdi", "KDFParameters('').pack()[:8]", "bytes"),
    ("c_KDF_PARAMS_MAGIC1", "dpapi_ng._gkdi", "KDFParameters('').pack()[12:16]", "bytes"),
    ("c_GETKEY_REFERENT", "dpapi_ng._gkdi", f"GetKey(b'', {_U0}).pack()[16:24]", "bytes"),
    ("c_GETKEY_NULLPTR", "dpapi_ng._gkdi", "GetKey(b'', None).pack()[16:24]", "bytes"),
    ("c_ECDH_P256_MAGIC", "dpapi_ng._gkdi", "ECDHKey('P256', 0, 0, 0).pack()[:4]", "bytes"),
    ("c_ECDH_P384_MAGIC", "dpapi_ng._gkdi", "ECDHKey('P384', 0, 0, 0).pack()[:4]", "bytes"),
    ("c_ECDH_P521_MAGIC", "dpapi_ng._gkdi", "ECDHKey('P521', 0, 0, 0).pack()[:4]", "bytes"),
    ("c_GETKEY_OPNUM", "dpapi_ng._gkdi", "GetKey(b'').opnum", "Z"),
]

# ---- whole functions as Prelude/PyAst syntax (gen/F_gkdi.v). Two engineers append to this list: only ever APPEND
# `FLOWS += [...]` blocks below, never rewrite an existing block.
from ..flow import Flow  # noqa: E402

FLOWS = []

# part "keys" (world coq/Flow/World_gkdi_keys.v; ties coq/Proofs/Flow_gkdi_keys_chain.v, Flow_gkdi_keys_kek.v)
FLOWS += [
    Flow("k_flow_compute_kdf_context", "_gkdi.py", "compute_kdf_context", props=("C02", "C03")),
    Flow("k_flow_compute_l1_key", "_gkdi.py", "compute_l1_key", props=("C02", "C03", "C05")),
    Flow("k_flow_compute_l2_key", "_gkdi.py", "compute_l2_key", props=("C02", "C03", "C05")),
    Flow("k_flow_compute_kek", "_gkdi.py", "compute_kek", props=("C03", "C04", "C05")),
    Flow("k_flow_compute_kek_from_public_key", "_gkdi.py", "compute_kek_from_public_key", props=("C03", "C05")),
    Flow("k_flow_compute_public_key", "_gkdi.py", "compute_public_key", props=("C03",)),
    Flow("k_flow_gke_is_public_key", "_gkdi.py", "GroupKeyEnvelope.is_public_key", props=("C03",)),
    Flow("k_flow_gke_get_kek", "_gkdi.py", "GroupKeyEnvelope.get_kek", props=("C03", "C05")),
    Flow("k_flow_gke_new_kek", "_gkdi.py", "GroupKeyEnvelope.new_kek", props=("C03",)),
]

# part "codecs" (world coq/Flow/World_gkdi_codecs.v; ties coq/Proofs/Flow_gkdi_codecs_*.v)
FLOWS += [
    Flow("k_flow_kdfp_pack", "_gkdi.py", "KDFParameters.pack", props=("C11",)),
    Flow("k_flow_kdfp_unpack", "_gkdi.py", "KDFParameters.unpack", props=("C11",)),
    Flow("k_flow_kdfp_hash_algorithm", "_gkdi.py", "KDFParameters.hash_algorithm", props=("C11",)),
    Flow("k_flow_gke_pack", "_gkdi.py", "GroupKeyEnvelope.pack", props=("C11",)),
    Flow("k_flow_gke_unpack", "_gkdi.py", "GroupKeyEnvelope.unpack", props=("C11",)),
    Flow("k_flow_kid_pack", "_blob.py", "KeyIdentifier.pack", props=("C11",)),
    Flow("k_flow_kid_unpack", "_blob.py", "KeyIdentifier.unpack", props=("C11",)),
    Flow("k_flow_kid_is_public_key", "_blob.py", "KeyIdentifier.is_public_key", props=("C11",)),
    Flow("k_flow_getkey_pack", "_gkdi.py", "GetKey.pack", props=("C11",)),
    Flow("k_flow_getkey_unpack", "_gkdi.py", "GetKey.unpack", props=("C11",)),
    Flow("k_flow_getkey_unpack_response", "_gkdi.py", "GetKey.unpack_response", props=("C11",)),
    Flow("k_flow_ffk_pack", "_gkdi.py", "FFCDHKey.pack", props=("C11",)),
    Flow("k_flow_ffk_unpack", "_gkdi.py", "FFCDHKey.unpack", props=("C11",)),
    Flow("k_flow_eck_pack", "_gkdi.py", "ECDHKey.pack", props=("C11",)),
    Flow("k_flow_eck_unpack", "_gkdi.py", "ECDHKey.unpack", props=("C11",)),
    Flow("k_flow_eck_curve_and_hash", "_gkdi.py", "ECDHKey.curve_and_hash", props=("C11",)),
    Flow("k_flow_ffp_pack", "_gkdi.py", "FFCDHParameters.pack", props=("C11",)),
    Flow("k_flow_ffp_unpack", "_gkdi.py", "FFCDHParameters.unpack", props=("C11",)),
]
