"""Kernels of the RPC client shell (_rpc/_client.py, _rpc/_auth.py, _client.py glue): C13, C15, C16."""
from ..kernels import Kernel as K

Z, B, S = "Z", "bool", "list Z"
F = "_rpc/_client.py"

KERNELS = [
    # ---- C15: bind / auth handshake ---------------------------------------------------------
    K("k_bind_loop_guard", F, "SyncRpcClient.bind", ("while", 0), [("self__auth_complete", B)], B, props=("C15",)),
    K("k_bind_break", F, "SyncRpcClient.bind", ("if", 2), [("sec_trailer_auth_value", S)], B, props=("C15",)),
    K("k_alter_flags", F, "RpcClient._create_alter_context", ("assign", "flags", 0),
      [("self__sign_header", B), ("PacketFlags_PFC_SUPPORT_HEADER_SIGN", Z), ("PacketFlags_NONE", Z)], Z, props=("C15",)),
    K("k_ack_accepted", F, "RpcClient._process_bind_ack", ("if", 0),
      [("context_res_result", Z), ("ContextResultCode_ACCEPTANCE", Z)], B, props=("C15",)),
    K("k_ack_clears_sign", F, "RpcClient._process_bind_ack", ("if", 1),
      [("ack_header_packet_flags", Z), ("PacketFlags_PFC_SUPPORT_HEADER_SIGN", Z)], B, props=("C15",)),
    K("k_bind_result_accepted", "_client.py", "_process_bind_result", ("if", 0),
      [("c_result", Z), ("ContextResultCode_ACCEPTANCE", Z)], B, props=("C15",)),
]

TWINS = [
    ("C15", F, "SyncRpcClient.bind", "AsyncRpcClient.bind", {}),
    ("C15", F, "SyncRpcClient.request", "AsyncRpcClient.request", {}),
]

CONSTS = [
    ("c_PFC_SUPPORT_HEADER_SIGN", "dpapi_ng._rpc._pdu", "int(PacketFlags.PFC_SUPPORT_HEADER_SIGN)", "Z"),
    ("c_PFC_NONE", "dpapi_ng._rpc._pdu", "int(PacketFlags.NONE)", "Z"),
    ("c_PFC_FIRST_LAST", "dpapi_ng._rpc._pdu", "int(PacketFlags.PFC_FIRST_FRAG | PacketFlags.PFC_LAST_FRAG)", "Z"),
    ("c_ACCEPTANCE", "dpapi_ng._rpc._bind", "int(ContextResultCode.ACCEPTANCE)", "Z"),
    ("c_PKT_PRIVACY", "dpapi_ng._rpc._pdu", "int(AuthenticationLevel.RPC_C_AUTHN_LEVEL_PKT_PRIVACY)", "Z"),
]
