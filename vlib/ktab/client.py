"""Kernels of the RPC client shell (_rpc/_client.py, _rpc/_auth.py, _client.py glue): C13, C15, C16."""
import ast

from ..flow import Flow
from ..kernels import Kernel as K, Unsupported, _walk_own


def _fraglen_patch(func):
    """view[8:10] = len(b_pdu).to_bytes(2, byteorder="little")  ->  (lo, hi, width)"""
    for st in _walk_own(func):
        if isinstance(st, ast.Assign) and len(st.targets) == 1 and isinstance(st.targets[0], ast.Subscript):
            t = st.targets[0]
            if isinstance(t.slice, ast.Slice) and isinstance(st.value, ast.Call) and ast.unparse(st.value.func) == "len(b_pdu).to_bytes":
                lo, hi = ast.literal_eval(t.slice.lower), ast.literal_eval(t.slice.upper)
                width = ast.literal_eval(st.value.args[0])
                order = [k.value for k in st.value.keywords if k.arg == "byteorder"]
                if not order or ast.literal_eval(order[0]) != "little":
                    raise Unsupported("frag_len not little endian")
                return f"({lo}, {hi}, {width})", ast.unparse(st)
    raise Unsupported("frag_len patch not found")


def _wrap_slices(func):
    """the three slices handed to self._auth.wrap: header = view[:o0], body = view[o0:o1], trailer = view[o1:o1+N] -> N"""
    want = {"header": "view[:encrypt_offsets[0]].tobytes()", "body": "view[encrypt_offsets[0]:encrypt_offsets[1]].tobytes()"}
    found = {}
    n = None
    call = None
    for st in _walk_own(func):
        if isinstance(st, ast.Assign) and len(st.targets) == 1 and isinstance(st.targets[0], ast.Name):
            nm = st.targets[0].id
            if nm in want:
                found[nm] = ast.unparse(st.value)
            if nm == "sec_trailer":
                v = st.value
                src = ast.unparse(v)
                pre = "view[encrypt_offsets[1]:encrypt_offsets[1] + "
                if src.startswith(pre) and src.endswith("].tobytes()"):
                    n = int(src[len(pre):-len("].tobytes()")])
            if nm == "b_pdu" and isinstance(st.value, ast.Call) and ast.unparse(st.value.func) == "self._auth.wrap":
                call = ast.unparse(st.value)
    if found != want or n is None or call != "self._auth.wrap(header, body, sec_trailer, self._sign_header)":
        raise Unsupported("slices handed to wrap have an unexpected shape")
    return str(n), "header=view[:o0] body=view[o0:o1] sec_trailer=view[o1:o1+%d]; %s" % (n, call)


def _unwrap_slices(func):
    """_process_response: header=view[:o0], body=view[o0:off], sec_trailer=view[off:off+N], signature=view[off+N:] and the write-back -> N"""
    want = {
        "header": "view[:encrypt_offsets[0]].tobytes()",
        "body": "view[encrypt_offsets[0]:sec_trailer_offset].tobytes()",
        "sec_trailer": "view[sec_trailer_offset:sec_trailer_offset + 8].tobytes()",
        "signature": "view[sec_trailer_offset + 8:].tobytes()",
        "dec_stub": "self._auth.unwrap(header, body, sec_trailer, signature, self._sign_header)",
    }
    found = {}
    back = None
    for st in _walk_own(func):
        if isinstance(st, ast.Assign) and len(st.targets) == 1:
            t = st.targets[0]
            if isinstance(t, ast.Name) and t.id in want:
                found[t.id] = ast.unparse(st.value)
            if isinstance(t, ast.Subscript) and ast.unparse(t) == "response[encrypt_offsets[0]:sec_trailer_offset]":
                back = ast.unparse(st.value)
    if found != want or back != "dec_stub":
        raise Unsupported("slices handed to unwrap have an unexpected shape")
    return "8", "header=view[:o0] body=view[o0:off] sec_trailer=view[off:off+8] signature=view[off+8:]; response[o0:off] = dec_stub"

Z, B, S = "Z", "bool", "list Z"
F = "_rpc/_client.py"

def _reject_unsealed(func):
    """_process_response: the test of `if <...not pdu_header.auth_len...>: raise ...` placed after the unwrap
    branch (rejecting a reply without security trailer on a sealed call); `false` when there is no such statement."""
    from ..kernels import Translator, _module

    for st in func.body:
        if isinstance(st, ast.If) and len(st.body) == 1 and isinstance(st.body[0], ast.Raise) and not st.orelse:
            src = ast.unparse(st.test)
            if "auth_len" in src:
                tr = Translator(_module(F), func, {"self__auth": "bool", "encrypt_offsets": "bool", "pdu_header_auth_len": "Z"}, False)
                return tr.b(st.test), ast.unparse(st)
    return "false", "<no statement rejects a reply without security trailer>"


def _stmts(func):
    return [ast.unparse(st) for st in func.body if not (isinstance(st, ast.Expr) and isinstance(st.value, ast.Constant))]


def _recv_sync_shape(func):
    """SyncRpcClient._send_pdu after the send: the statement skeleton of the two read loops - accumulate until 16 header octets, EOF
    test right after each read, buffer of exactly frag_len octets, header copied to its front, body read into the remaining view
    until it is empty - and nothing else touching the buffer before _process_response."""
    want = [
        "b_pdu = self._prepare_pdu(pdu, encrypt_offsets)",
        "self._sock.sendall(b_pdu)",
        "header = bytearray()",
        "while len(header) < 16:\n    data = self._sock.recv(16 - len(header))\n    if not data:\n        raise EOFError('Connection closed while reading the PDU header')\n    header += data",
        "resp_header = PDUHeader.unpack(header)",
        "resp = bytearray(resp_header.frag_len)",
        "view = memoryview(resp)",
        "view[:16] = header",
        "view = view[16:]",
        "while view:\n    read = self._sock.recv_into(view)\n    if not read:\n        raise EOFError('Connection closed while reading the PDU body')\n    view = view[read:]",
        "return self._process_response(resp, resp_header, resp_type, encrypt_offsets)",
    ]
    have = _stmts(func)
    if have != want:
        for i, (a, b) in enumerate(zip(have + [""] * len(want), want + [""] * len(have))):
            if a != b:
                raise Unsupported(f"statement {i} of the sync receive path is `{a[:80]}`, expected `{b[:80]}`")
    return "true", "statement skeleton of SyncRpcClient._send_pdu (send, header loop, buffer, body loop, _process_response)"


def _recv_async_shape(func):
    want = [
        "b_pdu = self._prepare_pdu(pdu, encrypt_offsets)",
        "self._writer.write(b_pdu)",
        "await self._writer.drain()",
        "header = await self._reader.readexactly(16)",
        "resp_header = PDUHeader.unpack(header)",
        "resp = bytearray(resp_header.frag_len)",
        "view = memoryview(resp)",
        "view[:16] = header",
        "view[16:] = await self._reader.readexactly(len(resp) - 16)",
        "return self._process_response(resp, resp_header, resp_type, encrypt_offsets)",
    ]
    have = _stmts(func)
    if have != want:
        for i, (a, b) in enumerate(zip(have + [""] * len(want), want + [""] * len(have))):
            if a != b:
                raise Unsupported(f"statement {i} of the async receive path is `{a[:80]}`, expected `{b[:80]}`")
    return "true", "statement skeleton of AsyncRpcClient._send_pdu (write, drain, readexactly(16), buffer, readexactly(rest), _process_response)"



KERNELS = [
    # ---- C15: bind / auth handshake ---------------------------------------------------------
    K("k_bind_loop_guard", F, "SyncRpcClient.bind", ("while", 0), [("self__auth_complete", B)], B, props=("C15",)),
    K("k_bind_break", F, "SyncRpcClient.bind", ("if", 2), [("sec_trailer_auth_value", S)], B, props=("C15",)),
    K("k_alter_flags", F, "RpcClient._create_alter_context", ("assign", "flags", 0),
      [("self__sign_header", B), ("PacketFlags_PFC_SUPPORT_HEADER_SIGN", Z), ("PacketFlags_NONE", Z)], Z, props=("C15",)),
    K("k_ack_accepted", F, "RpcClient._process_bind_ack", ("if", 0),
      [("context_res_result", Z), ("ContextResultCode_ACCEPTANCE", Z)], B, props=("C15",)),
    K("k_ack_clears_sign", F, "RpcClient._process_bind_ack", ("if", 1),
      [("ack_header_packet_flags", Z), ("PacketFlags_PFC_SUPPORT_HEADER_SIGN", Z)], B, props=("C15",)),
    # ---- C13: request framing ---------------------------------------------------------------
    K("k_vt_pad", F, "RpcClient._create_request", ("assign", "padding", 0), [("len_stub_data", Z)], Z, props=("C13",)),
    K("k_auth_pad", F, "RpcClient._create_request", ("assign", "pad_length", 0), [("len_stub_data", Z)], Z, props=("C13",)),
    K("k_enc_off", F, "RpcClient._create_request", ("assign", "encrypt_offsets", 1), [("len_stub_data", Z)], "(Z * Z)", props=("C13", "C16")),
    K("k_alloc_hint", F, "RpcClient._create_request", ("callarg", "Request", 0, "alloc_hint"), [("len_stub_data", Z)], Z, props=("C13",)),
    K("k_fraglen_patch", F, "RpcClient._prepare_pdu", ("custom", _fraglen_patch), [], "(Z * Z * Z)", props=("C13",)),
    K("k_wrap_trailer_len", F, "RpcClient._prepare_pdu", ("custom", _wrap_slices), [], Z, props=("C13",)),
    K("k_strip_test", "_client.py", "_process_get_key_result", ("if", 0),
      [("response_sec_trailer", B), ("response_sec_trailer_pad_length", Z)], B, props=("C13",)),
    K("k_strip_len", "_client.py", "_process_get_key_result", ("augassign", "pad_length", 0),
      [("pad_length", Z), ("response_sec_trailer_pad_length", Z)], Z, props=("C13",)),
    # ---- C14: the two receive functions (their buffers are filled through memoryview aliases, which the flow semantics cannot
    #      express: guards, requested sizes and the EOF tests are tied as kernels instead) ---------------------------------
    K("k_recv_hdr_guard", F, "SyncRpcClient._send_pdu", ("while", 0), [("len_header", Z)], B, props=("C14",)),
    K("k_recv_hdr_want", F, "SyncRpcClient._send_pdu", ("callarg", "self._sock.recv", 0, 0), [("len_header", Z)], Z, props=("C14",)),
    K("k_recv_async_hdr_want", F, "AsyncRpcClient._send_pdu", ("callarg", "self._reader.readexactly", 0, 0), [], Z, props=("C14",)),
    K("k_recv_async_body_want", F, "AsyncRpcClient._send_pdu", ("callarg", "self._reader.readexactly", 1, 0), [("len_resp", Z)], Z, props=("C14",)),
    K("k_recv_sync_shape", F, "SyncRpcClient._send_pdu", ("custom", _recv_sync_shape), [], B, props=("C14",)),
    K("k_recv_async_shape", F, "AsyncRpcClient._send_pdu", ("custom", _recv_async_shape), [], B, props=("C14",)),
    # ---- C16: sealed replies only --------------------------------------------------------------
    K("k_unwrap_guard", F, "RpcClient._process_response", ("if", 0),
      [("self__auth", B), ("encrypt_offsets", B), ("pdu_header_auth_len", Z)], B, props=("C16",)),
    K("k_sec_trailer_offset", F, "RpcClient._process_response", ("assign", "sec_trailer_offset", 0),
      [("pdu_header_frag_len", Z), ("pdu_header_auth_len", Z)], Z, props=("C16", "C13")),
    K("k_reject_unsealed", F, "RpcClient._process_response", ("custom", _reject_unsealed),
      [("self__auth", B), ("encrypt_offsets", B), ("pdu_header_auth_len", Z)], B, props=("C16",)),
    K("k_unwrap_trailer_len", F, "RpcClient._process_response", ("custom", _unwrap_slices), [], Z, props=("C16",)),
    K("k_bind_result_accepted", "_client.py", "_process_bind_result", ("if", 0),
      [("c_result", Z), ("ContextResultCode_ACCEPTANCE", Z)], B, props=("C15",)),
]

TWINS = [
    ("C15", F, "SyncRpcClient.bind", "AsyncRpcClient.bind", {}),
    ("C15", F, "SyncRpcClient.request", "AsyncRpcClient.request", {}),
]

CONSTS = [
    ("c_PFC_SUPPORT_HEADER_SIGN", "dpapi_ng._rpc._pdu", "int(PacketFlags.PFC_SUPPORT_HEADER_SIGN)", "Z"),
    ("c_PFC_NONE", "dpapi_ng._rpc._pdu", "int(PacketFlags.NONE)", "Z"),
    ("c_PFC_FIRST_LAST", "dpapi_ng._rpc._pdu", "int(PacketFlags.PFC_FIRST_FRAG | PacketFlags.PFC_LAST_FRAG)", "Z"),
    ("c_ACCEPTANCE", "dpapi_ng._rpc._bind", "int(ContextResultCode.ACCEPTANCE)", "Z"),
    ("c_PKT_PRIVACY", "dpapi_ng._rpc._pdu", "int(AuthenticationLevel.RPC_C_AUTHN_LEVEL_PKT_PRIVACY)", "Z"),
    # names the flows (gen/F_client.v) mention, for the world coq/Flow/World_client.v
    ("c_PFC_FIRST_FRAG", "dpapi_ng._rpc._pdu", "int(PacketFlags.PFC_FIRST_FRAG)", "Z"),
    ("c_PFC_LAST_FRAG", "dpapi_ng._rpc._pdu", "int(PacketFlags.PFC_LAST_FRAG)", "Z"),
]

A = "_rpc/_auth.py"

# whole functions as Prelude/PyAst syntax (gen/F_client.v).  Worlds: coq/Flow/World_client_hs.v (the abstraction of Model/Handshake.v),
# coq/Flow/World_client.v (concrete records).  Tie theorems: coq/Proofs/Flow_client_hs.v (C15), Flow_client_frame.v (C13),
# Flow_client_seal.v (C16), Flow_client_conv.v (C17).
FLOWS = [
    # ---- handshake (C15; the two PDU builders also against the concrete Bind records of Model/Conversation.v, C17)
    Flow("k_flow_process_bind_result", "_client.py", "_process_bind_result", props=("C15",)),
    Flow("k_flow_create_bind", F, "RpcClient._create_bind", props=("C15", "C17")),
    Flow("k_flow_create_alter_context", F, "RpcClient._create_alter_context", props=("C15", "C17")),
    Flow("k_flow_process_bind_ack", F, "RpcClient._process_bind_ack", props=("C15",)),
    Flow("k_flow_sync_bind", F, "SyncRpcClient.bind", props=("C15",)),
    Flow("k_flow_async_bind", F, "AsyncRpcClient.bind", props=("C15",)),
    # ---- request framing (C13)
    Flow("k_flow_create_pdu_header", F, "RpcClient._create_pdu_header", props=("C13",)),
    Flow("k_flow_create_request", F, "RpcClient._create_request", props=("C13",)),
    # RpcClient._prepare_pdu: refused by vlib/flow.py (frag_len / auth_len are patched through a memoryview alias): no flow; kernels
    # k_fraglen_patch / k_wrap_trailer_len + correspondence framing.request
    Flow("k_flow_auth_wrap", A, "AuthenticationProvider.wrap", props=("C13",)),
    Flow("k_flow_strip_get_key_result", "_client.py", "_process_get_key_result", props=("C13",)),
    # ---- sealed replies (C16)
    Flow("k_flow_process_response", F, "RpcClient._process_response", props=("C16",)),
    Flow("k_flow_auth_unwrap", A, "AuthenticationProvider.unwrap", props=("C16",)),
    # ---- the conversation's steps (C17)
    Flow("k_flow_sync_request", F, "SyncRpcClient.request", props=("C17",)),
    Flow("k_flow_async_request", F, "AsyncRpcClient.request", props=("C17",)),
    Flow("k_flow_auth_step", A, "AuthenticationProvider.step", props=("C17",)),
    Flow("k_flow_auth_complete", A, "AuthenticationProvider.complete", props=("C17",)),
]
