"""Self-test of the flow semantics (vlib/pysem.py): the functions of vlib/pysem_src.py as flows -> coq/gen/F_pysem.v."""
import ast
import os

from ..flow import Flow

_SRC = os.path.join(os.path.dirname(os.path.dirname(os.path.abspath(__file__))), "pysem_src.py")
NAMES = [n.name for n in ast.parse(open(_SRC).read()).body if isinstance(n, ast.FunctionDef)]   # module-level functions only (not the methods of the helper classes)
KERNELS = []
FLOWS = [Flow("k_flow_pysem_" + n, _SRC, n, props=()) for n in NAMES]
FLOW_INDEX = "pysem_flows"
