"""Shape kernels of the end-to-end glue (_crypto.cek_generate, _client._encrypt_blob): C19, C01."""
import ast

from ..flow import Flow
from ..kernels import Kernel as K, Unsupported, _walk_own

Z, B = "Z", "bool"


def _cek_generate(func):
    """cek = AESGCM.generate_key(256); cek_iv = os.urandom(12); return (cek, cek_iv)  ->  (key bits, nonce bytes)"""
    bits = nonce = None
    ret = None
    for st in _walk_own(func):
        if isinstance(st, ast.Assign) and len(st.targets) == 1 and isinstance(st.targets[0], ast.Name) and isinstance(st.value, ast.Call):
            f = ast.unparse(st.value.func)
            if st.targets[0].id == "cek" and f == "AESGCM.generate_key" and len(st.value.args) == 1:
                bits = ast.literal_eval(st.value.args[0])
            if st.targets[0].id == "cek_iv" and f == "os.urandom" and len(st.value.args) == 1:
                nonce = ast.literal_eval(st.value.args[0])
        if isinstance(st, ast.Return) and st.value is not None:
            ret = ast.unparse(st.value)
    if bits is None or nonce is None or ret != "(cek, cek_iv)":
        raise Unsupported("cek_generate does not draw (generate_key(n), urandom(m)) and return them unmodified")
    return f"({bits}, {nonce})", f"cek = AESGCM.generate_key({bits}); cek_iv = os.urandom({nonce}); return cek, cek_iv"


def _encrypt_blob_flow(func):
    """def-use of the fresh values in _encrypt_blob: the CEK goes (only) into content_encrypt and cek_encrypt, the nonce (only)
    into the GCM parameters, the KEK and key identifier come from key.new_kek()."""
    src = {}
    calls = {}
    for st in _walk_own(func):
        if isinstance(st, ast.Assign) and len(st.targets) == 1 and isinstance(st.value, ast.Call):
            tgt = ast.unparse(st.targets[0])
            src[tgt] = ast.unparse(st.value)
    for sub in ast.walk(func):
        if isinstance(sub, ast.Call):
            calls.setdefault(ast.unparse(sub.func), []).append([ast.unparse(a) for a in sub.args])
    want = {
        "(cek, cek_iv)": "cek_generate(enc_cek_algorithm)",
        "(kek, key_identifier)": "key.new_kek()",
    }
    for k, v in want.items():
        if src.get(k) != v:
            raise Unsupported(f"{k} is not assigned from {v}")
    if calls.get("content_encrypt") != [["enc_content_algorithm", "enc_content_parameters", "cek", "blob"]]:
        raise Unsupported("content_encrypt is not called once with (algorithm, parameters, cek, blob)")
    if calls.get("cek_encrypt") != [["enc_cek_algorithm", "enc_cek_parameters", "kek", "cek"]]:
        raise Unsupported("cek_encrypt is not called once with (algorithm, parameters, kek, cek)")
    if calls.get("parameters.write_octet_string") != [["cek_iv"]] or calls.get("parameters.write_integer") != [["16"]]:
        raise Unsupported("GCM parameters are not SEQUENCE { OCTET STRING cek_iv, INTEGER 16 }")
    return "true", "cek -> content_encrypt, cek_encrypt; cek_iv -> GCM parameters; (kek, key_identifier) = key.new_kek()"


KERNELS = [
    K("k_cek_generate_draws", "_crypto.py", "cek_generate", ("custom", _cek_generate), [], "(Z * Z)", props=("C19", "C06")),
    K("k_encrypt_blob_flow", "_client.py", "_encrypt_blob", ("custom", _encrypt_blob_flow), [], B, props=("C19", "C01", "C06")),
]

# whole functions as Prelude/PyAst syntax (gen/F_e2e.v); world coq/Flow/World_e2e.v; tie theorems in coq/Proofs/Flow_e2e_<group>.v
FLOWS = [
    # ---- group dec (C04, C01): Proofs/Flow_e2e_dec.v
    Flow("k_flow_cek_decrypt", "_crypto.py", "cek_decrypt", props=("C04", "C01")),
    Flow("k_flow_content_decrypt", "_crypto.py", "content_decrypt", props=("C04", "C01")),
    Flow("k_flow_decrypt_blob", "_client.py", "_decrypt_blob", props=("C04", "C01", "C05")),
    # ---- group enc (C01, C19): Proofs/Flow_e2e_enc.v
    Flow("k_flow_cek_encrypt", "_crypto.py", "cek_encrypt", props=("C01", "C19")),
    Flow("k_flow_content_encrypt", "_crypto.py", "content_encrypt", props=("C01", "C19")),
    Flow("k_flow_cek_generate", "_crypto.py", "cek_generate", props=("C01", "C19")),
    Flow("k_flow_encrypt_blob", "_client.py", "_encrypt_blob", props=("C01", "C19")),
    # ---- group kdf (C01): Proofs/Flow_e2e_kdf.v -- the two KDF wrappers are the `kdf` / `concat_kdf` fields of the Crypto record
    Flow("k_flow_kdf", "_crypto.py", "kdf", props=("C01", "C05")),
    Flow("k_flow_kdf_concat", "_crypto.py", "kdf_concat", props=("C01", "C05")),
    # ---- group gke (C09, C01): Proofs/Flow_e2e_gke.v
    Flow("k_flow_get_protection_gke_from_cache", "_client.py", "_get_protection_gke_from_cache", props=("C09", "C01")),
]
