"""./check setup : build the whole Coq development and the extracted model from files on disk."""
import os
import sys

from . import core


def main() -> int:
    with core.build_lock():
        st = core.regen()
        missing = [k for k, v in st.items() if not v["located"]]
        if missing:
            print("kernels using committed fallback:", ", ".join(missing))
        core.ensure_makefile()
        targets = [f[:-2] + ".vo" for f in core.coq_files()]
        r = core.make(targets, timeout=3000)
        if not r["ok"]:
            # A failing proof is reported by the individual checks; setup only needs the model.
            print("setup: some Coq files did not build:")
            for e in r["errors"][:10]:
                print("  ", e["file"], e["line"], e["stmt"], e["msg"][:200])
        import glob, os
        rc = 0
        for path in sorted(glob.glob(os.path.join(core.COQ, "Model", "Units_*.v"))):
            area = os.path.basename(path)[len("Units_"):-2]
            r2 = core.make([f"Model/Units_{area}.vo"])
            if not r2["ok"]:
                print(f"setup: model area {area} does not build")
                print(r2["log"][-1500:])
                rc = 1
                continue
            ok, msg = core.ensure_modelrun(area)
            print(f"modelrun_{area}:", msg)
            rc = rc or (0 if ok else 1)
        return rc
