"""Constants dump (part of K): imports the library from /repo/src and writes coq/gen/Consts.v."""
from __future__ import annotations

import importlib
import os
import subprocess
import sys
import typing as t

from . import kernels

SCRIPT = r"""
import importlib, json, sys, uuid
sys.path.insert(0, sys.argv[1])
out = {}
for name, mod, expr, kind in json.loads(sys.argv[2]):
    try:
        m = importlib.import_module(mod)
        v = eval(expr, vars(m))
        if kind == "bytes":
            out[name] = list(bytes(v))
        elif kind == "Z":
            out[name] = int(v)
        elif kind == "str":
            out[name] = [ord(c) for c in str(v)]
        elif kind == "uuid_le":
            out[name] = list(v.bytes_le)
        elif kind == "bool":
            out[name] = bool(v)
    except Exception as exc:
        out[name] = {"error": f"{type(exc).__name__}: {exc}"}
print(json.dumps(out))
"""


def generate() -> t.Dict[str, dict]:
    import json

    from . import kernel_table as _kt

    src = os.path.join(os.path.dirname(kernels.REPO_SRC))
    env = dict(os.environ, PYTHONPATH=src, PYTHONHASHSEED="0", PYTHONDONTWRITEBYTECODE="1")
    status: t.Dict[str, dict] = {}
    allc = []
    per_area = {}
    for area, mod in _kt.areas().items():
        cs = [] if isinstance(mod, Exception) else list(getattr(mod, "CONSTS", []))
        per_area[area] = cs
        allc += cs
    p = subprocess.run(["/venv/bin/python", "-c", SCRIPT, src, json.dumps(allc)], stdout=subprocess.PIPE,
                       stderr=subprocess.PIPE, env=env, timeout=120)
    vals = json.loads(p.stdout.decode()) if p.returncode == 0 else {}
    for area, cs in per_area.items():
        if not cs and area != "core":
            continue
        lines = ["(* GENERATED on every run by vlib/consts.py from /repo/src/dpapi_ng -- do not edit. *)",
                 "From Coq Require Import ZArith List.", "Import ListNotations.", "Open Scope Z_scope.", ""]
        for name, mod, expr, kind in cs:
            v = vals.get(name, {"error": "import failed: " + p.stderr.decode()[-300:]})
            fb = os.path.join(kernels.COQ, "gen_fallback", name + ".v")
            if isinstance(v, dict):
                status[name] = {"located": False, "reason": v["error"]}
                text = open(fb).read() if os.path.exists(fb) else f"(* constant {name} not located and no fallback *)\n"
            else:
                if kind == "Z":
                    body = f"({v})" if v < 0 else str(v)
                    text = f"(* {mod} :: {expr} *)\nDefinition {name} : Z := {body}.\n"
                elif kind == "bool":
                    text = f"(* {mod} :: {expr} *)\nDefinition {name} : bool := {'true' if v else 'false'}.\n"
                else:
                    text = f"(* {mod} :: {expr} *)\nDefinition {name} : list Z := [" + "; ".join(map(str, v)) + "].\n"
                status[name] = {"located": True, "source": f"{mod}.{expr}"}
            status[name]["text"] = text
            lines.append(text)
        new = "\n".join(lines)
        path = os.path.join(kernels.COQ, "gen", _kt.const_file(area))
        old = open(path).read() if os.path.exists(path) else None
        if old != new:
            os.makedirs(os.path.dirname(path), exist_ok=True)
            with open(path, "w") as fh:
                fh.write(new)
    return status


def write_fallbacks() -> None:
    st = generate()
    os.makedirs(os.path.join(kernels.COQ, "gen_fallback"), exist_ok=True)
    for name, v in st.items():
        if v["located"]:
            with open(os.path.join(kernels.COQ, "gen_fallback", name + ".v"), "w") as fh:
                fh.write(v["text"])
