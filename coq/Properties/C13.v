(* C13 -- Request framing: lengths, alignment, and exactly the stub region is sealed.
   Statements only. All padding/offset expressions and slice shapes are regenerated kernels
   (gen/K_client.v); the security context is an arbitrary function keeping the body length and
   producing signatures of the announced size. *)
From V Require Import Prelude.Base Prelude.PyInt Prelude.PySlice gen.K_client gen.C_client gen.C_rpc.
From V Require Import Model.Pdu Model.Request Model.Framing Proofs.C13.

(* the verification-trailer / auth paddings are the minimal paddings to the next 4 / 16 byte boundary *)
Theorem C13_vt_pad : forall n, 0 <= n ->
  0 <= k_vt_pad n < 4 /\ (n + k_vt_pad n) mod 4 = 0 /\ (forall p, 0 <= p -> (n + p) mod 4 = 0 -> k_vt_pad n <= p).
Proof. exact vt_pad_spec. Qed.
Print Assumptions C13_vt_pad.
Theorem C13_auth_pad : forall n, 0 <= n ->
  0 <= k_auth_pad n < 16 /\ (n + k_auth_pad n) mod 16 = 0 /\ (forall p, 0 <= p -> (n + p) mod 16 = 0 -> k_auth_pad n <= p).
Proof. exact auth_pad_spec. Qed.
Print Assumptions C13_auth_pad.
Theorem C13_offsets : forall n, k_enc_off n = (24, 24 + n) /\ k_alloc_hint n = n /\ k_fraglen_patch = (8, 10, 2) /\ k_wrap_trailer_len = 8.
Proof. exact offsets_spec. Qed.
Print Assumptions C13_offsets.

(* the whole request on the wire, for every stub, optional verification trailer, signature size and header-sign flag *)
Theorem C13_frame : forall (wrap : wrap_fn) (pv : provider), 0 <= pv_sig_len pv ->
  (forall h b t s, len (fst (wrap h b t s)) = len b /\ len (snd (wrap h b t s)) = pv_sig_len pv) ->
  forall ctx opnum stub vt sign wire args,
  let body := sealed_region stub vt in
  let total := 16 + 8 + len body + 8 + pv_sig_len pv in
  total < 65536 ->
  send_request wrap (Some pv) sign ctx opnum stub vt = Ok (wire, Some args) ->
  len wire = total /\
  slice (Some 8) (Some 10) wire = le 2 (len wire) /\
  slice (Some 10) (Some 12) wire = le 2 (pv_sig_len pv) /\
  slice None (Some 24) wire = wa_header args /\
  slice (Some (24 + len body)) (Some (24 + len body + 8)) wire = wa_trailer args /\
  wa_body args = body /\ wa_sign args = sign /\
  len body mod 16 = 0 /\
  index (wa_trailer args) 2 = Ok (k_auth_pad (len (stub_with_vt stub vt)) mod 256).
Proof. exact frame_fields. Qed.
Print Assumptions C13_frame.

(* ... and the request always goes out: the exact wire image *)
Theorem C13_wire : forall (wrap : wrap_fn) (pv : provider), 0 <= pv_sig_len pv ->
  (forall h b t s, len (fst (wrap h b t s)) = len b /\ len (snd (wrap h b t s)) = pv_sig_len pv) ->
  forall ctx opnum stub vt sign,
  let body := sealed_region stub vt in
  let pad := k_auth_pad (len (stub_with_vt stub vt)) in
  let total := 16 + 8 + len body + 8 + pv_sig_len pv in
  total < 65536 ->
  let hdr := patched_header (create_pdu_header c_PT_REQUEST (pv_sig_len pv) 1 c_PFC_NONE) total ++ fixed8 (len body) ctx opnum in
  let sealed := fst (wrap hdr body (trailer8 pv pad) sign) in
  let sg := snd (wrap hdr body (trailer8 pv pad) sign) in
  send_request wrap (Some pv) sign ctx opnum stub vt =
    Ok (hdr ++ sealed ++ trailer8 pv pad ++ sg,
        Some {| wa_header := hdr; wa_body := body; wa_trailer := trailer8 pv pad; wa_sign := sign |})
  /\ len (hdr ++ sealed ++ trailer8 pv pad ++ sg) = total /\ len hdr = 24 /\ len body mod 16 = 0.
Proof. exact frame. Qed.
Print Assumptions C13_wire.

(* the verification trailer starts at the next 4-byte boundary after the stub, inside the sealed region; the stub comes first *)
Theorem C13_vt_position : forall stub v, let off := len stub + k_vt_pad (len stub) in
  off mod 4 = 0 /\ len stub <= off < len stub + 4 /\
  slice (Some off) (Some (off + len v)) (sealed_region stub (Some v)) = v /\
  slice None (Some (len stub)) (sealed_region stub (Some v)) = stub.
Proof. exact vt_position. Qed.
Print Assumptions C13_vt_position.

(* reply path: exactly the declared auth padding is stripped before the GetKey result is decoded *)
Theorem C13_reply_strip : forall data p, 0 <= p -> strip_auth_pad (data ++ zeros p) (Some p) = data.
Proof. exact strip_exact. Qed.
Print Assumptions C13_reply_strip.
Theorem C13_reply_no_trailer : forall stub, strip_auth_pad stub None = stub.
Proof. exact strip_none. Qed.
Print Assumptions C13_reply_no_trailer.

(* non-vacuity: a context that keeps lengths exists (identity body, constant signature) *)
Example C13_wrap_example :
  let wrap : wrap_fn := fun h b t s => (b, repeat 7 16) in
  forall h b t s, len (fst (wrap h b t s)) = len b /\ len (snd (wrap h b t s)) = 16.
Proof. intros wrap h b t s. split; reflexivity. Qed.

(* ---- flows: the functions of the source themselves, regenerated as syntax on every run (gen/F_client.v) and run in the world
   Flow/World_client.v (dataclasses := the records of Model/Pdu.v, Request.v; the security context := arbitrary wrap / unwrap functions
   and a signature size), ARE the model functions the theorems above are about.
   Not tied: RpcClient._prepare_pdu (the store view[8:10] = .. goes through a memoryview aliasing b_pdu; Prelude/PyAst.v does not model
   aliasing, so the regenerated term leaves b_pdu unpatched). ---- *)
From V Require Import Prelude.PyAst Prelude.PyWorld gen.F_client Model.Verification Model.Gkdi Flow.World_client Proofs.Flow_client_frame.

Theorem C13_flow_create_pdu_header : forall wrap unwrap sch fuel c pt al cid fl,
  run (WC wrap unwrap sch) fuel k_flow_create_pdu_header [VO (OSelf c); VI pt; VI al; VI cid; VI fl]
  = Ok (VO (OHdr (create_pdu_header pt al cid fl))).
Proof. exact flow_create_pdu_header. Qed.
Print Assumptions C13_flow_create_pdu_header.

Theorem C13_flow_create_request : forall wrap unwrap sch fuel c cid op stub vt,
  run (WC wrap unwrap sch) fuel k_flow_create_request [VO (OSelf c); VI cid; VI op; VB stub; vtv vt]
  = Ok (VT [VO (OReq (fst (create_request (cl_auth c) cid op stub (option_map verification_trailer_pack vt))));
            offv (snd (create_request (cl_auth c) cid op stub (option_map verification_trailer_pack vt)))]).
Proof. exact flow_create_request. Qed.
Print Assumptions C13_flow_create_request.

(* AuthenticationProvider.wrap: what prepare_pdu puts on the wire for the sealed request *)
Theorem C13_flow_auth_wrap : forall (wrap : wrap_fn) unwrap sch fuel ap h b t (sign : bool),
  run (WC wrap unwrap sch) fuel k_flow_auth_wrap [VO (OAuthP ap); VB h; VB b; VB t; vb sign]
  = Ok (VB (h ++ fst (wrap h b t sign) ++ t ++ snd (wrap h b t sign))).
Proof. exact flow_auth_wrap. Qed.
Print Assumptions C13_flow_auth_wrap.

Theorem C13_flow_strip_get_key_result : forall wrap unwrap sch fuel rsp,
  run (WC wrap unwrap sch) fuel k_flow_strip_get_key_result [VO (OResp rsp)]
  = (let* e := GetKey_unpack_response
                 (strip_auth_pad (rs_stub_data rsp) (option_map st_pad_length (rs_sec_trailer rsp))) in
     Ok (VO (OEnvl e))).
Proof. exact flow_strip_get_key_result. Qed.
Print Assumptions C13_flow_strip_get_key_result.
