(* C05 -- Decrypting untrusted bytes ends promptly with a deliberate error type. Statements only.

   Object: unprotect_offline (Model/Client.v), the whole offline path of ncrypt_unprotect_secret: DER reader,
   CMS / blob decoders, key identifier, SID -> security descriptor, KeyCache lookup, key chain, KEK, key unwrap,
   content decryption. `Safe r` (Proofs/C05.v): r is a value or raises one of ValueError, NotImplementedError,
   NotEnoughData, InvalidTag, InvalidUnwrap, NeedNetwork -- never IndexError, OverflowError, StructError,
   TypeError, KeyError, AttributeError, EOFError, IncompleteRead, OutOfFuel.

   Hypotheses: the crypto record is arbitrary up to the exception classes of its primitives (CryptoLaws);
   `wfb data` says the blob is a Python bytes object (the model's `bytes` is `list Z`; every element of a bytes
   object is in 0..255) -- its CONTENT is arbitrary; `cache_ok` (Proofs/C05Keys.v) says every cached seed
   envelope sits at a position L1 <= 31, L2 <= 31. Nothing is assumed of loaded root keys, cached L0 indices or
   key material. *)
From V Require Import Prelude.Base Prelude.PyInt gen.K_cache gen.Kernels.
From V Require Import Model.Types Model.Crypto Model.Sym Model.Blob Model.Client Model.Gkdi.
From V Require Import Proofs.C05 Proofs.C05Asn1 Proofs.C05Blob Proofs.C05Keys.

Theorem C05_l0_guard : forall l0, k_cache_l0_guard l0 = true <-> ~ (0 <= l0 <= 2147483647).
Proof. exact l0_guard_meaning. Qed.
Print Assumptions C05_l0_guard.

(* 1. value, NeedNetwork, or a deliberate error class *)
Theorem C05_deliberate : forall c, CryptoLaws c -> forall cache data, wfb data = true -> cache_ok cache ->
  Safe (fst (unprotect_offline c cache data)).
Proof. exact unprotect_offline_deliberate. Qed.
Print Assumptions C05_deliberate.

(* the same, with the error classes spelled out *)
Theorem C05_error_classes : forall c, CryptoLaws c -> forall cache data e, wfb data = true -> cache_ok cache ->
  fst (unprotect_offline c cache data) = Raise e ->
  e = ValueError \/ e = NotImplementedError \/ e = NotEnoughData \/ e = InvalidTag \/ e = InvalidUnwrap \/ e = NeedNetwork.
Proof. exact unprotect_offline_no_internal_error. Qed.
Print Assumptions C05_error_classes.

(* cache_ok is an invariant: it holds of a cache with any loaded root keys and no seeds, and a call preserves it *)
Theorem C05_cache_ok_initial : forall rkid rk, cache_ok (cc_load cc_empty rkid rk).
Proof. exact cc_load_empty_ok. Qed.
Print Assumptions C05_cache_ok_initial.
Theorem C05_cache_ok_load : forall cache rkid rk, cache_ok cache -> cache_ok (cc_load cache rkid rk).
Proof. exact cc_load_ok. Qed.
Print Assumptions C05_cache_ok_load.
Theorem C05_cache_ok_preserved : forall c, CryptoLaws c -> forall cache data, wfb data = true -> cache_ok cache ->
  cache_ok (snd (unprotect_offline c cache data)).
Proof. exact unprotect_offline_cache_ok. Qed.
Print Assumptions C05_cache_ok_preserved.

(* 2. every fuelled loop of the pipeline ends within its fuel: the reader loops have fuel = length of the bytes
   they walk (RecipientInfos, OID arcs, UTF-8 / UTF-16 decoding), the two key-chain loops fuel 100 *)
Theorem C05_no_fuel_exhaustion : forall c, CryptoLaws c -> forall cache data, wfb data = true -> cache_ok cache ->
  fst (unprotect_offline c cache data) <> Raise OutOfFuel.
Proof. exact unprotect_offline_no_fuel_exhaustion. Qed.
Print Assumptions C05_no_fuel_exhaustion.

(* (a) the parser layer on its own: DPAPINGBlob.unpack on arbitrary bytes *)
Theorem C05_blob_unpack : forall data, wfb data = true -> Safe (blob_unpack data).
Proof. exact blob_unpack_deliberate. Qed.
Print Assumptions C05_blob_unpack.

(* 3. PARTIAL. Wanted: C05_bounded_kdf : one unprotect_offline call makes at most 2 + 63 + 3 KDF calls
   (compute_l1_key 2, compute_l2_key <= 31 + 1 + 31, get_kek <= 3), as a theorem about a call counter threaded
   through the whole pipeline. The Crypto record's KDFs are pure functions and the model has no counter, so only
   the loop part is a theorem: instrument ANY kdf of the regenerated kernel k_compute_l2_key with a counter
   (`counted`); from an envelope at a position <= (31, 31) the derived key was reached with at most 63 KDF calls,
   it is the key of the uninstrumented run, and no fuel >= 32 is ever exhausted. The calls outside the kernel are
   straight-line code (no loop) in compute_l1_key / get_kek / compute_kek. *)
Theorem C05_bounded_kdf_partial : forall (K : Type) (kdf : K -> Z -> Z -> K) fuel l1 l2 a b k1 k2 r,
  a <= 31 -> b <= 31 -> (32 <= fuel)%nat ->
  k_compute_l2_key (counted kdf) fuel l1 l2 a b (k1, 0) (k2, 0) = Ok r ->
  0 <= snd r <= 63 /\ k_compute_l2_key kdf fuel l1 l2 a b k1 k2 = Ok (fst r).
Proof. exact @l2_kdf_calls. Qed.
Print Assumptions C05_bounded_kdf_partial.
Theorem C05_l2_loops_within_fuel : forall (K : Type) (kdf : K -> Z -> Z -> K) f1 f2 l1 l2 a b k1 k2,
  a <= 31 -> b <= 31 -> (32 <= f1)%nat -> (32 <= f2)%nat ->
  k_compute_l2_key kdf f1 l1 l2 a b k1 k2 <> Raise OutOfFuel.
Proof. exact @l2_fuel_independent. Qed.
Print Assumptions C05_l2_loops_within_fuel.

(* the KDF context is where the guards matter: outside the signed 32-bit range it is an OverflowError *)
Theorem C05_kdf_context_overflow : forall rkid l0 l1 l2, ~ i32 l0 -> Chain.compute_kdf_context rkid l0 l1 l2 = Raise OverflowError.
Proof. exact compute_kdf_context_l0_overflow. Qed.
Print Assumptions C05_kdf_context_overflow.

(* ---- the hypotheses are satisfiable; concrete runs ---- *)
Example C05_crypto_laws_inhabited : CryptoLaws idc.
Proof. exact idc_laws. Qed.
Example C05_hyps_example : wfb ex_blob = true /\ cache_ok ex_cache /\ len ex_blob = 1478.
Proof. exact ex_hyps. Qed.
Example C05_outcomes_example :
  fst (unprotect_offline sym ex_cache ex_blob) = Ok [104; 105] /\
  fst (unprotect_offline sym ex_cache (firstn 100 ex_blob)) = Raise NotEnoughData /\
  fst (unprotect_offline sym cc_empty ex_blob) = Raise NeedNetwork /\
  fst (unprotect_offline sym ex_cache (patch 54 [0; 0; 0; 128] ex_blob)) = Raise ValueError /\
  fst (unprotect_offline sym ex_cache (patch 54 [255; 255; 255; 255] ex_blob)) = Raise ValueError /\
  fst (unprotect_offline sym ex_cache (patch 58 [32; 0; 0; 0] ex_blob)) = Raise ValueError /\
  fst (unprotect_offline sym ex_cache (patch 62 [255; 255; 255; 255] ex_blob)) = Raise ValueError /\
  fst (unprotect_offline sym ex_cache (patch 62 [22; 0; 0; 0] ex_blob)) = Raise InvalidUnwrap /\
  fst (unprotect_offline sym ex_cache (patch 4 [2; 0] ex_blob)) = Raise ValueError /\
  fst (unprotect_offline sym ex_cache []) = Raise NotEnoughData.
Proof. exact ex_outcomes. Qed.
(* cache_ok cannot be dropped: a cached envelope claiming L1 = 200 exhausts the fuel of the L1 loop *)
Example C05_cache_ok_needed_example :
  fst (unprotect_offline sym (ex_cache_at 200 31) ex_blob) = Raise OutOfFuel /\ ~ cache_ok (ex_cache_at 200 31) /\
  cache_ok (ex_cache_at 31 31) /\ fst (unprotect_offline sym (ex_cache_at 31 31) ex_blob) = Raise InvalidUnwrap.
Proof. exact ex_cache_ok_needed. Qed.

(* work proportional to the input: the key length announced by a DH key blob inside the key identifier is bounded by
   the size of that blob (FFCDHKey.unpack refuses shorter data), so shared_secret.to_bytes(key_length) is linear *)
Theorem C05_dh_key_length_bounded : forall data k, FFCDHKey_unpack data = Ok k -> 8 + 3 * ffk_key_length k <= len data.
Proof. exact FFCDHKey_length_bounded. Qed.
Print Assumptions C05_dh_key_length_bounded.

(* ---- flows: the regenerated syntax of the CMS decoders and of get_target_sd (gen/F_asn1.v, part "cms"), run by
   Prelude/PyAstMut.v in the world Flow/World_cms.v, computes the model functions unprotect_offline is composed of
   (Proofs/Flow_cms_unpack.v, Flow_cms_sd.v, Flow_cms_c05.v). `value_of` = the returned value. *)
From V Require Import Prelude.PyAst.
From V Require Import Prelude.PyWorld Prelude.PyAstMut gen.F_asn1 Model.Asn1 Model.Pkcs7 Model.SecDesc Flow.World_cms.
From V Require Import Proofs.Flow_cms_unpack Proofs.Flow_cms_sd Proofs.Flow_cms_c05.

Theorem C05_flow_AlgorithmIdentifier_unpack : forall fuel cls view,
  value_of (run_mut MW fuel k_flow_AlgorithmIdentifier_unpack [cls; VO (OReader view)])
  = (let* (a, _) := AlgorithmIdentifier_unpack view in Ok (VO (OAlg a))).
Proof. exact flow_AlgorithmIdentifier_unpack. Qed.
Print Assumptions C05_flow_AlgorithmIdentifier_unpack.
Theorem C05_flow_OtherKeyAttribute_unpack : forall fuel cls view h,
  value_of (run_mut MW fuel k_flow_OtherKeyAttribute_unpack [cls; VO (OReader view); vopt_hdr h])
  = (let* (a, _) := OtherKeyAttribute_unpack view h in Ok (VO (OOka a))).
Proof. exact flow_OtherKeyAttribute_unpack. Qed.
Print Assumptions C05_flow_OtherKeyAttribute_unpack.
Theorem C05_flow_ContentInfo_unpack : forall fuel cls data h,
  value_of (run_mut MW fuel k_flow_ContentInfo_unpack [cls; VB data; vopt_hdr h])
  = (let* c := ContentInfo_unpack data h in Ok (VO (OCi c))).
Proof. exact flow_ContentInfo_unpack. Qed.
Print Assumptions C05_flow_ContentInfo_unpack.
Theorem C05_flow_KEKIdentifier_unpack : forall fuel cls view,
  value_of (run_mut MW fuel k_flow_KEKIdentifier_unpack [cls; VO (OReader view)])
  = (let* (k, _) := KEKIdentifier_unpack view in Ok (VO (OKekId k))).
Proof. exact flow_KEKIdentifier_unpack. Qed.
Print Assumptions C05_flow_KEKIdentifier_unpack.
Theorem C05_flow_RecipientInfo_unpack : forall fuel cls view,
  run_mut MW fuel k_flow_RecipientInfo_unpack [cls; VO (OReader view)]
  = (let* (k, rest) := RecipientInfo_unpack view in Ok (VO (OKri k), [cls; VO (OReader rest)])).
Proof. exact flow_RecipientInfo_unpack. Qed.
Print Assumptions C05_flow_RecipientInfo_unpack.
Theorem C05_flow_EncryptedContentInfo_unpack : forall fuel cls view,
  value_of (run_mut MW fuel k_flow_EncryptedContentInfo_unpack [cls; VO (OReader view)])
  = (let* (k, _) := EncryptedContentInfo_unpack view in Ok (VO (OEci k))).
Proof. exact flow_EncryptedContentInfo_unpack. Qed.
Print Assumptions C05_flow_EncryptedContentInfo_unpack.
Theorem C05_flow_KEKRecipientInfo_unpack : forall fuel cls view h,
  value_of (run_mut MW fuel k_flow_KEKRecipientInfo_unpack [cls; VO (OReader view); vopt_hdr h])
  = (let* (k, _) := KEKRecipientInfo_unpack view h in Ok (VO (OKri k))).
Proof. exact flow_KEKRecipientInfo_unpack. Qed.
Print Assumptions C05_flow_KEKRecipientInfo_unpack.
(* `while recipient_infos_reader:` -- the interpreter's fuel exceeds the number of octets, and the model does not exhaust its own
   fuel (length of the SET OF content; it never does on Python bytes, see C05_flow_EnvelopedData_unpack_bytes) *)
Theorem C05_flow_EnvelopedData_unpack : forall fuel cls data,
  (List.length data < fuel)%nat -> EnvelopedData_unpack data <> Raise OutOfFuel ->
  value_of (run_mut MW fuel k_flow_EnvelopedData_unpack [cls; VB data])
  = (let* e := EnvelopedData_unpack data in Ok (VO (OEd e))).
Proof. exact flow_EnvelopedData_unpack. Qed.
Print Assumptions C05_flow_EnvelopedData_unpack.
Theorem C05_flow_ProtectionDescriptor_unpack : forall fuel cls data,
  value_of (run_mut MW fuel k_flow_ProtectionDescriptor_unpack [cls; VB data])
  = (let* s := ProtectionDescriptor_unpack data in Ok (VO (OSidDesc s))).
Proof. exact flow_ProtectionDescriptor_unpack. Qed.
Print Assumptions C05_flow_ProtectionDescriptor_unpack.
Theorem C05_flow_DPAPINGBlob_unpack : forall fuel cls data,
  value_of (run_mut MW fuel k_flow_DPAPINGBlob_unpack [cls; VB data])
  = (let* b := blob_unpack data in Ok (VO (OBlob b))).
Proof. exact flow_DPAPINGBlob_unpack. Qed.
Print Assumptions C05_flow_DPAPINGBlob_unpack.

(* on Python bytes the fuel hypothesis on the model is discharged (Proofs/C05Asn1.EnvelopedData_unpack_safe) *)
Theorem C05_flow_EnvelopedData_unpack_bytes : forall fuel cls data,
  wfb data = true -> (List.length data < fuel)%nat ->
  value_of (run_mut MW fuel k_flow_EnvelopedData_unpack [cls; VB data])
  = (let* e := EnvelopedData_unpack data in Ok (VO (OEd e))).
Proof. exact flow_EnvelopedData_unpack_bytes. Qed.
Print Assumptions C05_flow_EnvelopedData_unpack_bytes.
Theorem C05_flow_ProtectionDescriptor_get_target_sd : forall fuel self,
  run_mut MW fuel k_flow_ProtectionDescriptor_get_target_sd [self] = Raise NotImplementedError.
Proof. exact flow_ProtectionDescriptor_get_target_sd. Qed.
Print Assumptions C05_flow_ProtectionDescriptor_get_target_sd.
Theorem C05_flow_SIDDescriptor_get_target_sd : forall fuel sid,
  run_mut MW fuel k_flow_SIDDescriptor_get_target_sd [VO (OSidDesc sid)]
  = (let* b := SecDesc.get_target_sd sid in Ok (VB b, [VO (OSidDesc sid)])).
Proof. exact flow_SIDDescriptor_get_target_sd. Qed.
Print Assumptions C05_flow_SIDDescriptor_get_target_sd.

(* what callers of X.unpack(reader) continue with: the world's entry is the model's (value, reader afterwards) *)
Theorem C05_flow_call_AlgorithmIdentifier_unpack : forall view,
  cms_call_mut "AlgorithmIdentifier.unpack"%string [VO (OReader view)]
  = Some (let* (a, rest) := AlgorithmIdentifier_unpack view in Ok (VO (OAlg a), [VO (OReader rest)])).
Proof. exact call_mut_AlgorithmIdentifier_unpack. Qed.
Print Assumptions C05_flow_call_AlgorithmIdentifier_unpack.
Theorem C05_flow_call_OtherKeyAttribute_unpack : forall view h,
  cms_call_mut "OtherKeyAttribute.unpack/header"%string [VO (OReader view); vopt_hdr h]
  = Some (let* (a, rest) := OtherKeyAttribute_unpack view h in Ok (VO (OOka a), [VO (OReader rest); vopt_hdr h])).
Proof. exact call_mut_OtherKeyAttribute_unpack. Qed.
Print Assumptions C05_flow_call_OtherKeyAttribute_unpack.
Theorem C05_flow_call_KEKIdentifier_unpack : forall view,
  cms_call_mut "KEKIdentifier.unpack"%string [VO (OReader view)]
  = Some (let* (k, rest) := KEKIdentifier_unpack view in Ok (VO (OKekId k), [VO (OReader rest)])).
Proof. exact call_mut_KEKIdentifier_unpack. Qed.
Print Assumptions C05_flow_call_KEKIdentifier_unpack.
Theorem C05_flow_call_KEKRecipientInfo_unpack : forall view h,
  cms_call_mut "KEKRecipientInfo.unpack/header"%string [VO (OReader view); vopt_hdr h]
  = Some (let* (k, rest) := KEKRecipientInfo_unpack view h in Ok (VO (OKri k), [VO (OReader rest); vopt_hdr h])).
Proof. exact call_mut_KEKRecipientInfo_unpack. Qed.
Print Assumptions C05_flow_call_KEKRecipientInfo_unpack.
Theorem C05_flow_call_EncryptedContentInfo_unpack : forall view,
  cms_call_mut "EncryptedContentInfo.unpack"%string [VO (OReader view)]
  = Some (let* (e, rest) := EncryptedContentInfo_unpack view in Ok (VO (OEci e), [VO (OReader rest)])).
Proof. exact call_mut_EncryptedContentInfo_unpack. Qed.
Print Assumptions C05_flow_call_EncryptedContentInfo_unpack.

(* the hypotheses are satisfiable: the EnvelopedData inside the example blob of C05_hyps_example *)
Definition ex_flow_ed : bytes :=
  match (let* h := peek_header ex_blob in ContentInfo_unpack ex_blob (Some h)) with
  | Ok ci => ci_content ci | Raise _ => [] end.
Example C05_flow_ex_EnvelopedData :
  wfb ex_flow_ed = true /\ (1000 <? List.length ex_flow_ed)%nat = true /\ (List.length ex_flow_ed <? 1478)%nat = true /\
  match EnvelopedData_unpack ex_flow_ed with Ok e => List.length (ed_recipient_infos e) = 1%nat | Raise _ => False end.
Proof. split; [|split; [|split]]; vm_compute; reflexivity. Qed.
Example C05_flow_ex_tie :
  value_of (run_mut MW 1478 k_flow_EnvelopedData_unpack [VN; VB ex_flow_ed])
  = (let* e := EnvelopedData_unpack ex_flow_ed in Ok (VO (OEd e))).
Proof.
  destruct C05_flow_ex_EnvelopedData as (HW & _ & HL & _).
  apply C05_flow_EnvelopedData_unpack_bytes; [exact HW|]. apply Nat.ltb_lt. exact HL.
Qed.

(* ---- bounded number of key-derivation steps, static half: call sites of the KDFs in the regenerated source and loop-freeness of every
   function on the unprotect path except compute_l2_key (whose loops C05_l2_loops_within_fuel / C05_bounded_kdf_partial bound by 63):
   2 + 63 + 3 calls at most. Columns: kdf, kdf_concat, compute_l2_key, compute_kek, compute_kek_from_public_key, get_kek, _decrypt_blob,
   loop free ---- *)
From V Require Import Prelude.PySyntax gen.F_gkdi gen.F_e2e gen.F_cache Proofs.C05CallSites.
Theorem C05_kdf_call_sites :
  kdf_row k_flow_compute_l1_key = (2, 0, 0, 0, 0, 0, 0, true)%nat /\
  kdf_row k_flow_compute_l2_key = (3, 0, 0, 0, 0, 0, 0, false)%nat /\
  kdf_row k_flow_compute_kek = (1, 1, 0, 0, 0, 0, 0, true)%nat /\
  kdf_row k_flow_compute_kek_from_public_key = (1, 0, 0, 1, 0, 0, 0, true)%nat /\
  kdf_row k_flow_gke_get_kek = (1, 0, 1, 0, 1, 0, 0, true)%nat /\
  kdf_row k_flow_decrypt_blob = (0, 0, 0, 0, 0, 1, 0, true)%nat /\
  kdf_row k_flow_ncrypt_unprotect_secret = (0, 0, 0, 0, 0, 0, 1, true)%nat /\
  kdf_row k_flow_kdf = (0, 0, 0, 0, 0, 0, 0, true)%nat /\
  kdf_row k_flow_kdf_concat = (0, 0, 0, 0, 0, 0, 0, true)%nat.
Proof. exact kdf_call_sites. Qed.
Print Assumptions C05_kdf_call_sites.
