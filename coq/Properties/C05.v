(* C05 -- Decrypting untrusted bytes ends promptly with a deliberate error type. Statements only. *)
From V Require Import Prelude.Base gen.K_cache Proofs.C05.

Theorem C05_l0_guard : forall l0, k_cache_l0_guard l0 = true <-> ~ (0 <= l0 <= 2147483647).
Proof. exact l0_guard_meaning. Qed.
Print Assumptions C05_l0_guard.
