(* C05 -- Decrypting untrusted bytes ends promptly with a deliberate error type. Statements only.

   Object: unprotect_offline (Model/Client.v), the whole offline path of ncrypt_unprotect_secret: DER reader,
   CMS / blob decoders, key identifier, SID -> security descriptor, KeyCache lookup, key chain, KEK, key unwrap,
   content decryption. `Safe r` (Proofs/C05.v): r is a value or raises one of ValueError, NotImplementedError,
   NotEnoughData, InvalidTag, InvalidUnwrap, NeedNetwork -- never IndexError, OverflowError, StructError,
   TypeError, KeyError, AttributeError, EOFError, IncompleteRead, OutOfFuel.

   Hypotheses: the crypto record is arbitrary up to the exception classes of its primitives (CryptoLaws);
   `wfb data` says the blob is a Python bytes object (the model's `bytes` is `list Z`; every element of a bytes
   object is in 0..255) -- its CONTENT is arbitrary; `cache_ok` (Proofs/C05Keys.v) says every cached seed
   envelope sits at a position L1 <= 31, L2 <= 31. Nothing is assumed of loaded root keys, cached L0 indices or
   key material. *)
From V Require Import Prelude.Base Prelude.PyInt gen.K_cache gen.Kernels.
From V Require Import Model.Types Model.Crypto Model.Sym Model.Blob Model.Client Model.Gkdi.
From V Require Import Proofs.C05 Proofs.C05Asn1 Proofs.C05Blob Proofs.C05Keys.

Theorem C05_l0_guard : forall l0, k_cache_l0_guard l0 = true <-> ~ (0 <= l0 <= 2147483647).
Proof. exact l0_guard_meaning. Qed.
Print Assumptions C05_l0_guard.

(* 1. value, NeedNetwork, or a deliberate error class *)
Theorem C05_deliberate : forall c, CryptoLaws c -> forall cache data, wfb data = true -> cache_ok cache ->
  Safe (fst (unprotect_offline c cache data)).
Proof. exact unprotect_offline_deliberate. Qed.
Print Assumptions C05_deliberate.

(* the same, with the error classes spelled out *)
Theorem C05_error_classes : forall c, CryptoLaws c -> forall cache data e, wfb data = true -> cache_ok cache ->
  fst (unprotect_offline c cache data) = Raise e ->
  e = ValueError \/ e = NotImplementedError \/ e = NotEnoughData \/ e = InvalidTag \/ e = InvalidUnwrap \/ e = NeedNetwork.
Proof. exact unprotect_offline_no_internal_error. Qed.
Print Assumptions C05_error_classes.

(* cache_ok is an invariant: it holds of a cache with any loaded root keys and no seeds, and a call preserves it *)
Theorem C05_cache_ok_initial : forall rkid rk, cache_ok (cc_load cc_empty rkid rk).
Proof. exact cc_load_empty_ok. Qed.
Print Assumptions C05_cache_ok_initial.
Theorem C05_cache_ok_load : forall cache rkid rk, cache_ok cache -> cache_ok (cc_load cache rkid rk).
Proof. exact cc_load_ok. Qed.
Print Assumptions C05_cache_ok_load.
Theorem C05_cache_ok_preserved : forall c, CryptoLaws c -> forall cache data, wfb data = true -> cache_ok cache ->
  cache_ok (snd (unprotect_offline c cache data)).
Proof. exact unprotect_offline_cache_ok. Qed.
Print Assumptions C05_cache_ok_preserved.

(* 2. every fuelled loop of the pipeline ends within its fuel: the reader loops have fuel = length of the bytes
   they walk (RecipientInfos, OID arcs, UTF-8 / UTF-16 decoding), the two key-chain loops fuel 100 *)
Theorem C05_no_fuel_exhaustion : forall c, CryptoLaws c -> forall cache data, wfb data = true -> cache_ok cache ->
  fst (unprotect_offline c cache data) <> Raise OutOfFuel.
Proof. exact unprotect_offline_no_fuel_exhaustion. Qed.
Print Assumptions C05_no_fuel_exhaustion.

(* (a) the parser layer on its own: DPAPINGBlob.unpack on arbitrary bytes *)
Theorem C05_blob_unpack : forall data, wfb data = true -> Safe (blob_unpack data).
Proof. exact blob_unpack_deliberate. Qed.
Print Assumptions C05_blob_unpack.

(* 3. PARTIAL. Wanted: C05_bounded_kdf : one unprotect_offline call makes at most 2 + 63 + 3 KDF calls
   (compute_l1_key 2, compute_l2_key <= 31 + 1 + 31, get_kek <= 3), as a theorem about a call counter threaded
   through the whole pipeline. The Crypto record's KDFs are pure functions and the model has no counter, so only
   the loop part is a theorem: instrument ANY kdf of the regenerated kernel k_compute_l2_key with a counter
   (`counted`); from an envelope at a position <= (31, 31) the derived key was reached with at most 63 KDF calls,
   it is the key of the uninstrumented run, and no fuel >= 32 is ever exhausted. The calls outside the kernel are
   straight-line code (no loop) in compute_l1_key / get_kek / compute_kek. *)
Theorem C05_bounded_kdf_partial : forall (K : Type) (kdf : K -> Z -> Z -> K) fuel l1 l2 a b k1 k2 r,
  a <= 31 -> b <= 31 -> (32 <= fuel)%nat ->
  k_compute_l2_key (counted kdf) fuel l1 l2 a b (k1, 0) (k2, 0) = Ok r ->
  0 <= snd r <= 63 /\ k_compute_l2_key kdf fuel l1 l2 a b k1 k2 = Ok (fst r).
Proof. exact @l2_kdf_calls. Qed.
Print Assumptions C05_bounded_kdf_partial.
Theorem C05_l2_loops_within_fuel : forall (K : Type) (kdf : K -> Z -> Z -> K) f1 f2 l1 l2 a b k1 k2,
  a <= 31 -> b <= 31 -> (32 <= f1)%nat -> (32 <= f2)%nat ->
  k_compute_l2_key kdf f1 l1 l2 a b k1 k2 <> Raise OutOfFuel.
Proof. exact @l2_fuel_independent. Qed.
Print Assumptions C05_l2_loops_within_fuel.

(* the KDF context is where the guards matter: outside the signed 32-bit range it is an OverflowError *)
Theorem C05_kdf_context_overflow : forall rkid l0 l1 l2, ~ i32 l0 -> Chain.compute_kdf_context rkid l0 l1 l2 = Raise OverflowError.
Proof. exact compute_kdf_context_l0_overflow. Qed.
Print Assumptions C05_kdf_context_overflow.

(* ---- the hypotheses are satisfiable; concrete runs ---- *)
Example C05_crypto_laws_inhabited : CryptoLaws idc.
Proof. exact idc_laws. Qed.
Example C05_hyps_example : wfb ex_blob = true /\ cache_ok ex_cache /\ len ex_blob = 1478.
Proof. exact ex_hyps. Qed.
Example C05_outcomes_example :
  fst (unprotect_offline sym ex_cache ex_blob) = Ok [104; 105] /\
  fst (unprotect_offline sym ex_cache (firstn 100 ex_blob)) = Raise NotEnoughData /\
  fst (unprotect_offline sym cc_empty ex_blob) = Raise NeedNetwork /\
  fst (unprotect_offline sym ex_cache (patch 54 [0; 0; 0; 128] ex_blob)) = Raise ValueError /\
  fst (unprotect_offline sym ex_cache (patch 54 [255; 255; 255; 255] ex_blob)) = Raise ValueError /\
  fst (unprotect_offline sym ex_cache (patch 58 [32; 0; 0; 0] ex_blob)) = Raise ValueError /\
  fst (unprotect_offline sym ex_cache (patch 62 [255; 255; 255; 255] ex_blob)) = Raise ValueError /\
  fst (unprotect_offline sym ex_cache (patch 62 [22; 0; 0; 0] ex_blob)) = Raise InvalidUnwrap /\
  fst (unprotect_offline sym ex_cache (patch 4 [2; 0] ex_blob)) = Raise ValueError /\
  fst (unprotect_offline sym ex_cache []) = Raise NotEnoughData.
Proof. exact ex_outcomes. Qed.
(* cache_ok cannot be dropped: a cached envelope claiming L1 = 200 exhausts the fuel of the L1 loop *)
Example C05_cache_ok_needed_example :
  fst (unprotect_offline sym (ex_cache_at 200 31) ex_blob) = Raise OutOfFuel /\ ~ cache_ok (ex_cache_at 200 31) /\
  cache_ok (ex_cache_at 31 31) /\ fst (unprotect_offline sym (ex_cache_at 31 31) ex_blob) = Raise InvalidUnwrap.
Proof. exact ex_cache_ok_needed. Qed.

(* work proportional to the input: the key length announced by a DH key blob inside the key identifier is bounded by
   the size of that blob (FFCDHKey.unpack refuses shorter data), so shared_secret.to_bytes(key_length) is linear *)
Theorem C05_dh_key_length_bounded : forall data k, FFCDHKey_unpack data = Ok k -> 8 + 3 * ffk_key_length k <= len data.
Proof. exact FFCDHKey_length_bounded. Qed.
Print Assumptions C05_dh_key_length_bounded.
