(* C03 -- KEK derivation agrees on both sides and with an independent implementation.
   Statements only; proofs in Proofs/Kek*.v.  Model: Model/Kek.v (GroupKeyEnvelope.get_kek / new_kek,
   compute_kek, compute_kek_from_public_key, compute_public_key) over any Crypto record; specification:
   Spec/KekSpec.v (MS-GKDI 3.1.4.1.2, SP800-56A, SP800-108).  `top` is Key(SD, RK, L0, 31, -1); every root
   key, security descriptor and L0 enter through it and through the universally quantified KDF. *)
From Coq Require Import String.
From V Require Import Prelude.Base Prelude.PyInt Prelude.TrueDiv.
From V Require Import gen.K_gkdi Model.Types Model.Crypto Model.Sym Model.Chain Model.KeyId Model.Gkdi Model.Kek.
From V Require Import Spec.GkdiSpec Spec.KekSpec.
From V Require Import Proofs.C02 Proofs.GkdiLib Proofs.GkdiStructs Proofs.KekLib Proofs.Kek Proofs.KekExamples.

(* ---- nonce mode: the encrypting side holds the L2 seed key of its position, or a conforming envelope
   without L2 key (allowed at L2 = 31); the decrypting side holds any conforming covering envelope ---- *)
Theorem C03_agree_nonce : forall (c : Crypto) (h : hash) (top : res bytes) (e e' : envelope) (rnd : Z -> bytes) (seed : bytes),
  envelope_hash e = Ok h -> envelope_hash e' = Ok h ->
  gke_is_public_key e = false -> gke_is_public_key e' = false ->
  gke_l0 e' = gke_l0 e -> gke_rkid e' = gke_rkid e ->
  0 <= gke_l1 e <= 31 -> 0 <= gke_l2 e <= 31 ->
  conforming (KDFof c h e) top (env_of e') -> covers (env_of e') (gke_l1 e) (gke_l2 e) ->
  K2 (KDFof c h e) top (gke_l1 e) (gke_l2 e) = Ok seed ->
  ((gke_l2_key e = seed /\ seed <> []) \/ (gke_l2_key e = [] /\ conforming (KDFof c h e) top (env_of e))) ->
  exists kid, new_kek c rnd e = Ok (kek_nonce c h seed (rnd 32), kid) /\ kid_key_info kid = rnd 32 /\
              get_kek c e' kid = Ok (kek_nonce c h seed (rnd 32)).
Proof. exact agree_nonce. Qed.
Print Assumptions C03_agree_nonce.

(* ---- DH: for every group (p > 0, g, key_length), seed and ephemeral exponent. Both sides are given as
   the value the specification prescribes (equality with Spec/KekSpec.v) and the two values are equal. ---- *)
Theorem C03_agree_dh : forall (c : Crypto) (h : hash) (top : res bytes) (es ep : envelope) (rnd : Z -> bytes) (seed : bytes) (kl p g : Z),
  envelope_hash es = Ok h -> envelope_hash ep = Ok h ->
  gke_is_public_key es = false -> gke_is_public_key ep = true ->
  gke_l0 es = gke_l0 ep -> gke_rkid es = gke_rkid ep ->
  gke_secret_alg es = STR_DH -> gke_secret_alg ep = STR_DH ->
  gke_priv_len es = gke_priv_len ep -> u32b (gke_priv_len ep) = true ->
  0 <= gke_l1 ep <= 31 -> 0 <= gke_l2 ep <= 31 ->
  conforming (KDFof c h ep) top (env_of es) -> covers (env_of es) (gke_l1 ep) (gke_l2 ep) ->
  K2 (KDFof c h ep) top (gke_l1 ep) (gke_l2 ep) = Ok seed ->
  0 < p -> u32b kl = true -> fitsb kl p = true -> fitsb kl g = true ->
  (* since the repair of D16 the receiver checks the peer's key blob against the group's DH parameters (secret_parameters
     of its envelope) and refuses the degenerate public values 0, 1, p - 1: both envelopes carry the group's parameters
     and both public values are valid group elements (SP800-56A 5.6.2.3.1; Spec/KekSpec.v dh_pub_valid) *)
  dh_group_params (gke_secret_params es) kl p g -> dh_group_params (gke_secret_params ep) kl p g ->
  let nbytes := bytes_of_bits (gke_priv_len ep) in
  let ybytes := kdf c h seed KDS_SERVICE (lit16z "DH") nbytes in
  let y := OS2IP ybytes in let x := OS2IP (rnd nbytes) in
  wfb ybytes = true -> wfb (rnd nbytes) = true ->
  dh_pub_valid p (dh_public p g y) -> dh_pub_valid p (dh_public p g x) ->
  gke_l2_key ep = concat (ffk_field_list {| ffk_key_length := kl; ffk_field_order := p; ffk_generator := g; ffk_public_key := dh_public p g y |}) ->
  exists kid,
    new_kek c rnd ep = Ok (kek_dh c h p kl (dh_public p g y) x, kid) /\
    kid_key_info kid = concat (ffk_field_list {| ffk_key_length := kl; ffk_field_order := p; ffk_generator := g; ffk_public_key := dh_public p g x |}) /\
    get_kek c es kid = Ok (kek_dh c h p kl (dh_public p g x) y) /\
    kek_dh c h p kl (dh_public p g x) y = kek_dh c h p kl (dh_public p g y) x.
Proof. exact agree_dh. Qed.
Print Assumptions C03_agree_dh.

(* ---- ECDH: from the commutation law of the curve primitive (CryptoLaws.ec_commutes) ---- *)
Theorem C03_agree_ecdh : forall (c : Crypto), CryptoLaws c ->
  forall (h : hash) (top : res bytes) (es ep : envelope) (rnd : Z -> bytes) (seed : bytes) (alg : pystr) (algz : bytes)
         (cv : curve) (kl Ax Ay : Z) (kek : bytes) (kid : key_identifier),
  envelope_hash es = Ok h -> envelope_hash ep = Ok h ->
  gke_is_public_key es = false -> gke_is_public_key ep = true ->
  gke_l0 es = gke_l0 ep -> gke_rkid es = gke_rkid ep ->
  gke_secret_alg es = alg -> gke_secret_alg ep = alg ->
  str_eqb alg STR_DH = false -> startswith alg STR_ECDH_P = true -> encode_utf16z alg = Ok algz ->
  gke_priv_len es = gke_priv_len ep -> u32b (gke_priv_len ep) = true ->
  0 <= gke_l1 ep <= 31 -> 0 <= gke_l2 ep <= 31 ->
  conforming (KDFof c h ep) top (env_of es) -> covers (env_of es) (gke_l1 ep) (gke_l2 ep) ->
  K2 (KDFof c h ep) top (gke_l1 ep) (gke_l2 ep) = Ok seed ->
  let nbytes := bytes_of_bits (gke_priv_len ep) in
  let y := OS2IP (kdf c h seed KDS_SERVICE algz nbytes) in let x := OS2IP (rnd nbytes) in
  ec_pub c cv y = Ok (Ax, Ay) ->
  let kA := {| eck_curve_name := curve_name cv; eck_key_length := kl; eck_x := Ax; eck_y := Ay |} in
  wf_eck kA = true -> gke_l2_key ep = concat (eck_field_list cv kA) ->
  new_kek c rnd ep = Ok (kek, kid) ->
  exists Zs Bx By, ec_dh c cv x (Ax, Ay) = Ok Zs /\ ec_pub c cv x = Ok (Bx, By) /\
    kek = kek_ecdh c h cv Zs /\
    kid_key_info kid = concat (eck_field_list cv {| eck_curve_name := curve_name cv; eck_key_length := kl; eck_x := Bx; eck_y := By |}) /\
    get_kek c es kid = Ok kek.
Proof. exact agree_ecdh. Qed.
Print Assumptions C03_agree_ecdh.

(* ---- fixed width: the shared secret is exactly key_length bytes whatever its magnitude (leading zero
   bytes kept) and reads back as y^x mod p; FFCDHKey fields likewise (C11_roundtrip_FFCDHKey) ---- *)
Theorem C03_fixed_width : forall kl p pub x, 0 < p -> 0 <= kl -> fitsb kl p = true ->
  len (dh_shared p kl pub x) = kl /\ OS2IP (dh_shared p kl pub x) = pub ^ x mod p.
Proof. exact fixed_width_shared. Qed.
Print Assumptions C03_fixed_width.

Theorem C03_fixed_width_key : forall k b, wf_ffk k = true -> FFCDHKey_pack k = Ok b ->
  len b = 8 + 3 * ffk_key_length k /\ FFCDHKey_unpack b = Ok k.
Proof. exact fixed_width_key. Qed.
Print Assumptions C03_fixed_width_key.

(* ---- the pieces of "equals the specification": Python's pow is b^e mod m; DH commutes; the regenerated
   kernel math.ceil(private_key_length / 8) is (len + 7) div 8 on both sides for every 32-bit length ---- *)
Theorem C03_modpow_spec : forall b e m, 0 < m -> 0 <= e -> modpow b e m = b ^ e mod m.
Proof. exact modpow_spec. Qed.
Print Assumptions C03_modpow_spec.

Theorem C03_modpow_comm : forall g x y p, 0 < p -> 0 <= x -> 0 <= y ->
  modpow (modpow g x p) y p = modpow (modpow g y p) x p.
Proof. exact modpow_comm. Qed.
Print Assumptions C03_modpow_comm.

Theorem C03_kernel_ceil : forall n, u32b n = true ->
  k_ceil_priv_get n = bytes_of_bits n /\ k_ceil_priv_new n = bytes_of_bits n.
Proof. exact k_ceil_priv_spec. Qed.
Print Assumptions C03_kernel_ceil.

(* ---- hypotheses are satisfiable: instances under the symbolic crypto ---- *)
Example C03_nonce_example : exists kid,
  new_kek sym ex_rnd (ex_es STR_DH 512) = Ok (kek_nonce sym SHA512 ex_seed (ex_rnd 32), kid) /\ kid_key_info kid = ex_rnd 32 /\
  get_kek sym (ex_es STR_DH 512) kid = Ok (kek_nonce sym SHA512 ex_seed (ex_rnd 32)).
Proof. exact agree_nonce_example. Qed.
Example C03_nonce_absent_l2_example : exists kek kid,
  new_kek sym (fun n => repeat 9 (Z.to_nat n)) d13_env = Ok (kek, kid) /\ get_kek sym d13_env kid = Ok kek.
Proof. exact d13_repaired. Qed.
Example C03_dh_example : forall kl, kl = 2 \/ kl = 5 -> exists kid kek,
  new_kek sym ex_rnd (ex_ep_dh kl 16 (ex_pub kl)) = Ok (kek, kid) /\ get_kek sym (ex_es_dh kl 16) kid = Ok kek.
Proof. exact agree_dh_example. Qed.
(* the new hypotheses of C03_agree_dh are met by that instance (parameters carried, both public values valid) and the
   validity predicate excludes exactly the degenerate values *)
Example C03_dh_params_example : forall kl, kl = 2 \/ kl = 5 -> dh_group_params (ex_sp kl) kl 65521 17.
Proof. exact ex_sp_params. Qed.
Example C03_dh_pub_valid_example :
  dh_pub_valid 65521 (dh_public 65521 17 ex_y) /\ dh_pub_valid 65521 (dh_public 65521 17 (OS2IP (ex_rnd 2))).
Proof. exact ex_pub_valid. Qed.
Example C03_dh_pub_degenerate : ~ dh_pub_valid 65521 0 /\ ~ dh_pub_valid 65521 1 /\ ~ dh_pub_valid 65521 65520.
Proof. exact ex_pub_degenerate. Qed.
Example C03_leading_zero_example : dh_shared 65521 2 17 1 = [0; 17] /\ len (dh_shared 65521 2 17 1) = 2.
Proof. exact leading_zero_shared. Qed.
Example C03_ecdh_example : exists kek kid, new_kek sym ex_rnd ex_epE = Ok (kek, kid) /\ get_kek sym ex_esE kid = Ok kek.
Proof. exact agree_ecdh_example. Qed.
Example C03_sym_commutes : forall cv a b A B, ec_pub sym cv a = Ok A -> ec_pub sym cv b = Ok B -> ec_dh sym cv a B = ec_dh sym cv b A.
Proof. exact sym_ec_commutes. Qed.

(* ---- tie to the source (group "kek"): the whole bodies of _gkdi.compute_kek, compute_kek_from_public_key, compute_public_key
   and GroupKeyEnvelope.is_public_key / get_kek / new_kek, regenerated as syntax on every run (gen/F_gkdi.v) and run in the
   world Flow/World_gkdi_keys.v (callees inside the library := the model functions; cryptography / pow / os.urandom := the
   Crypto record, py_pow3 and the explicit RNG `u`), ARE the model functions the theorems above are about. No loops: any fuel. ---- *)
From V Require Import Prelude.PyAst Prelude.PyWorld gen.F_gkdi Flow.World_gkdi_keys Proofs.Flow_gkdi_keys_kek.
Theorem C03_flow_gke_is_public_key : forall c u fuel e,
  run (W c u) fuel k_flow_gke_is_public_key [VO (OEnv e)] = Ok (vb (gke_is_public_key e)).
Proof. exact flow_gke_is_public_key. Qed.
Print Assumptions C03_flow_gke_is_public_key.
Theorem C03_flow_compute_kek : forall c u fuel h alg sp priv pub,
  run (W c u) fuel k_flow_compute_kek [VO (OHash h); VS alg; VB sp; VB priv; VB pub]
  = (let* b := compute_kek c h alg sp priv pub in Ok (VB b)).
Proof. exact flow_compute_kek. Qed.
Print Assumptions C03_flow_compute_kek.
Theorem C03_flow_compute_kek_from_public_key : forall c u fuel h seed alg sp pub n,
  run (W c u) fuel k_flow_compute_kek_from_public_key [VO (OHash h); VB seed; VS alg; VB sp; VB pub; VI n]
  = (let* b := compute_kek_from_public_key c h seed alg sp pub n in Ok (VB b)).
Proof. exact flow_compute_kek_from_public_key. Qed.
Print Assumptions C03_flow_compute_kek_from_public_key.
Theorem C03_flow_compute_public_key : forall c u fuel alg sp priv peer,
  run (W c u) fuel k_flow_compute_public_key [VS alg; VB sp; VB priv; VB peer]
  = (let* b := compute_public_key c alg sp priv peer in Ok (VB b)).
Proof. exact flow_compute_public_key. Qed.
Print Assumptions C03_flow_compute_public_key.
Theorem C03_flow_gke_get_kek : forall c u fuel e kid,
  run (W c u) fuel k_flow_gke_get_kek [VO (OEnv e); VO (OKid kid)] = (let* b := get_kek c e kid in Ok (VB b)).
Proof. exact flow_gke_get_kek. Qed.
Print Assumptions C03_flow_gke_get_kek.
(* os.urandom is the model's explicit RNG argument *)
Theorem C03_flow_gke_new_kek : forall c u fuel e,
  run (W c u) fuel k_flow_gke_new_kek [VO (OEnv e)]
  = (let* (kek, kid) := new_kek c u e in Ok (VT [VB kek; VO (OKid kid)])).
Proof. exact flow_gke_new_kek. Qed.
Print Assumptions C03_flow_gke_new_kek.

(* ---- tie to the source (group "chain", shared with C02): compute_kdf_context, compute_l1_key, compute_l2_key (the callee of
   get_kek / new_kek above) ---- *)
From V Require Import gen.Kernels Proofs.Flow_gkdi_keys_chain.
Theorem C03_flow_compute_kdf_context : forall c u fuel g l0 l1 l2,
  run (W c u) fuel k_flow_compute_kdf_context [VO (OUuid g); VI l0; VI l1; VI l2]
  = (let* b := compute_kdf_context g l0 l1 l2 in Ok (VB b)).
Proof. exact flow_compute_kdf_context. Qed.
Print Assumptions C03_flow_compute_kdf_context.
Theorem C03_flow_compute_l1_key : forall c u fuel sd g l0 rk h,
  run (W c u) fuel k_flow_compute_l1_key [VB sd; VO (OUuid g); VI l0; VB rk; VO (OHash h)]
  = (let* b := compute_l1_key c h sd g l0 rk in Ok (VB b)).
Proof. exact flow_compute_l1_key. Qed.
Print Assumptions C03_flow_compute_l1_key.
(* compute_l2_key, against the regenerated kernel the model instantiates (K := res bytes, kdf := kdfK): for every kernel
   fuel n that suffices and every interpreter fuel above it *)
Theorem C03_flow_compute_l2_key_kernel : forall c u h l1 l2 e (n fuel : nat), (n < fuel)%nat ->
  k_compute_l2_key (kdfK c h (gke_rkid e) (gke_l0 e)) n l1 l2 (gke_l1 e) (gke_l2 e) (Ok (gke_l1_key e)) (Ok (gke_l2_key e))
    <> Raise OutOfFuel ->
  run (W c u) fuel k_flow_compute_l2_key [VO (OHash h); VI l1; VI l2; VO (OEnv e)]
  = (let* b := match k_compute_l2_key (kdfK c h (gke_rkid e) (gke_l0 e)) n l1 l2 (gke_l1 e) (gke_l2 e)
                       (Ok (gke_l1_key e)) (Ok (gke_l2_key e)) with Ok r => r | Raise x => Raise x end in Ok (VB b)).
Proof. exact flow_l2_kernel. Qed.
Print Assumptions C03_flow_compute_l2_key_kernel.
(* against the model function: whenever the model's own fuel (L2_FUEL) suffices, every larger interpreter fuel gives the
   model's answer *)
Theorem C03_flow_compute_l2_key : forall c u fuel h l1 l2 e,
  (L2_FUEL < fuel)%nat -> compute_l2_key c h l1 l2 e <> Raise OutOfFuel ->
  run (W c u) fuel k_flow_compute_l2_key [VO (OHash h); VI l1; VI l2; VO (OEnv e)]
  = (let* b := compute_l2_key c h l1 l2 e in Ok (VB b)).
Proof. exact flow_compute_l2_key. Qed.
Print Assumptions C03_flow_compute_l2_key.
(* which it does for every envelope with indices up to 100 (MS-GKDI: up to 31), whatever is requested *)
Theorem C03_flow_l2_fuel_enough : forall c h l1 l2 e,
  gke_l1 e <= 100 -> gke_l2 e <= 100 -> compute_l2_key c h l1 l2 e <> Raise OutOfFuel.
Proof. exact l2_fuel_enough. Qed.
Print Assumptions C03_flow_l2_fuel_enough.
