(* C12 -- DCE/RPC and endpoint-mapper wire codecs are inverse; decoders terminate. Statements only. *)
From V Require Import Prelude.Base gen.K_rpc gen.C_rpc Proofs.RpcKernels.

(* ---- padding kernels (regenerated from _bind.py / _epm.py) ---- *)
Theorem C12_pad_bindack : forall n, k_bindack_pack_pad n = k_bindack_unpack_pad n /\
  0 <= k_bindack_pack_pad n < 4 /\ (2 + n + k_bindack_pack_pad n) mod 4 = 0.
Proof. exact (fun n => conj (bindack_pad_agree n) (bindack_pad_range n)). Qed.
Print Assumptions C12_pad_bindack.

Theorem C12_pad_eptmap : forall n, k_eptmap_pack_pad n = k_eptmap_unpack_pad n /\
  0 <= k_eptmap_pack_pad n < 8 /\ (12 + n + k_eptmap_pack_pad n) mod 8 = 0.
Proof. exact (fun n => conj (eptmap_pad_agree n) (eptmap_pad_range n)). Qed.
Print Assumptions C12_pad_eptmap.

(* between two towers EptMapResult.pack emits exactly the padding EptMapResult.unpack skips *)
Theorem C12_pad_eptmapresult : forall n idx cnt, 0 <= idx -> idx + 1 < cnt ->
  k_eptres_pack_pad n idx cnt = k_eptres_unpack_pad n.
Proof. exact eptres_pad_inner. Qed.
Print Assumptions C12_pad_eptmapresult.
