(* C12 -- DCE/RPC and endpoint-mapper wire codecs are inverse; decoders terminate. Statements only.
   Models: Model/Pdu.v Request.v Bind.v RpcDispatch.v Verification.v Epm.v; k_* / c_* are regenerated from
   the Python source on every run. wf_* are the boolean well-formedness predicates of the model files
   (field ranges = the widths pack writes, enum members, header frag_len/auth_len consistent with the
   message). pdu_unpack fuel bs returns the decoded PDU and the number of loop iterations (ticks). *)
From V Require Import Prelude.Base Prelude.PyInt Prelude.PySlice Prelude.PyStr gen.K_rpc gen.C_rpc.
From V Require Import Model.Pdu Model.Request Model.RpcLoop Model.Bind Model.Verification Model.RpcDispatch Model.Epm.
From V Require Import Proofs.RpcKernels Proofs.RpcPdu Proofs.RpcBind Proofs.RpcRoundtrip Proofs.RpcEpm Proofs.RpcExamples Proofs.RpcTotal Proofs.RpcTotalLib Proofs.RpcVerification Proofs.RpcTotalPdu Proofs.RpcEptMap.

(* ---- padding kernels (regenerated from _bind.py / _epm.py) ---- *)
Theorem C12_pad_bindack : forall n, k_bindack_pack_pad n = k_bindack_unpack_pad n /\
  0 <= k_bindack_pack_pad n < 4 /\ (2 + n + k_bindack_pack_pad n) mod 4 = 0.
Proof. exact (fun n => conj (bindack_pad_agree n) (bindack_pad_range n)). Qed.
Print Assumptions C12_pad_bindack.

Theorem C12_pad_bindnak : forall n, 0 <= k_bindnak_pad n < 4 /\ (2 + n + k_bindnak_pad n) mod 4 = 0.
Proof. exact bindnak_pad_range. Qed.
Print Assumptions C12_pad_bindnak.

Theorem C12_pad_eptmap : forall n, k_eptmap_pack_pad n = k_eptmap_unpack_pad n /\
  0 <= k_eptmap_pack_pad n < 8 /\ (12 + n + k_eptmap_pack_pad n) mod 8 = 0.
Proof. exact (fun n => conj (eptmap_pad_agree n) (eptmap_pad_range n)). Qed.
Print Assumptions C12_pad_eptmap.

(* between two towers EptMapResult.pack emits exactly the padding EptMapResult.unpack skips; after the last
   tower it aligns the status to 4 *)
Theorem C12_pad_eptmapresult : forall n idx cnt, 0 <= idx -> idx + 1 < cnt ->
  k_eptres_pack_pad n idx cnt = k_eptres_unpack_pad n.
Proof. exact eptres_pad_inner. Qed.
Print Assumptions C12_pad_eptmapresult.
Theorem C12_pad_eptmapresult_last : forall n idx cnt, idx + 1 = cnt ->
  0 <= k_eptres_pack_pad n idx cnt < 4 /\ (12 + n + k_eptres_pack_pad n idx cnt) mod 4 = 0.
Proof. exact eptres_pad_last. Qed.
Print Assumptions C12_pad_eptmapresult_last.

(* the dispatch keys of the model are exactly the registered packet types / commands / floors *)
Theorem C12_registries :
  c_PDU_registry = [c_PT_REQUEST; c_PT_RESPONSE; c_PT_FAULT; c_PT_BIND; c_PT_BIND_ACK; c_PT_BIND_NAK; c_PT_ALTER_CONTEXT; c_PT_ALTER_CONTEXT_RESP]
  /\ c_CMD_registry = [c_CMD_BITMASK_1; c_CMD_PCONTEXT; c_CMD_HEADER2]
  /\ c_FLOOR_registry = [c_FLOOR_TCP; c_FLOOR_IP; c_FLOOR_RPC_CO; c_FLOOR_UUID].
Proof. exact (conj pdu_registry_spec (conj cmd_registry_spec floor_registry_spec)). Qed.
Print Assumptions C12_registries.

(* ---- building blocks ---- *)
Theorem C12_rt_header : forall h rest, wf_pdu_header h = true -> pdu_header_unpack (pdu_header_pack h ++ rest) = Ok h.
Proof. exact pdu_header_unpack_pack. Qed.
Print Assumptions C12_rt_header.

Theorem C12_rt_sec_trailer : forall s, wf_sec_trailer s = true -> sec_trailer_unpack (sec_trailer_pack s) = Ok s.
Proof. exact sec_trailer_unpack_pack. Qed.
Print Assumptions C12_rt_sec_trailer.

(* PDU.unpack up to the dispatch: body, header and security trailer come back as packed (auth value of any length) *)
Theorem C12_rt_split : forall h body st, wf_pdu_header h = true ->
  wf_lengths h (len (pdu_header_pack h ++ body ++ opt_sec_trailer_pack st)) st = true ->
  pdu_split (pdu_header_pack h ++ body ++ opt_sec_trailer_pack st) = Ok (body, h, st).
Proof. exact pdu_split_pack. Qed.
Print Assumptions C12_rt_split.

(* ---- PDU.unpack (M.pack m) = m for the eight PDU types (decoded message equal to the packed one, hence
        M.pack m' = M.pack m); what the client decodes first ---- *)
Theorem C12_rt_bind_ack : forall m packed bsa fuel,
  sec_addr_bytes (ba_sec_addr m) = Ok bsa -> bind_ack_pack m = Ok packed ->
  wf_bind_ack_as c_PT_BIND_ACK m packed bsa = true -> (length packed <= fuel)%nat ->
  pdu_unpack fuel packed = Ok (PBindAck m, len (ba_results m)).
Proof. exact rt_bind_ack. Qed.
Print Assumptions C12_rt_bind_ack.

Theorem C12_rt_alter_context_resp : forall m packed bsa fuel,
  sec_addr_bytes (ba_sec_addr m) = Ok bsa -> bind_ack_pack m = Ok packed ->
  wf_bind_ack_as c_PT_ALTER_CONTEXT_RESP m packed bsa = true -> (length packed <= fuel)%nat ->
  pdu_unpack fuel packed = Ok (PAlterContextResp m, len (ba_results m)).
Proof. exact rt_alter_context_resp. Qed.
Print Assumptions C12_rt_alter_context_resp.

Theorem C12_rt_bind_nak : forall m fuel, wf_bind_nak m = true -> (length (bind_nak_pack m) <= fuel)%nat ->
  pdu_unpack fuel (bind_nak_pack m) = Ok (PBindNak m, len (bn_versions m)).
Proof. exact rt_bind_nak. Qed.
Print Assumptions C12_rt_bind_nak.

Theorem C12_rt_fault : forall m fuel, wf_fault m = true -> pdu_unpack fuel (fault_pack m) = Ok (PFault m, 0).
Proof. exact rt_fault. Qed.
Print Assumptions C12_rt_fault.

Theorem C12_rt_response : forall m fuel, wf_response m = true -> pdu_unpack fuel (response_pack m) = Ok (PResponse m, 0).
Proof. exact rt_response. Qed.
Print Assumptions C12_rt_response.

Theorem C12_rt_request : forall m fuel, wf_request m = true -> pdu_unpack fuel (request_pack m) = Ok (PRequest m, 0).
Proof. exact rt_request. Qed.
Print Assumptions C12_rt_request.

Theorem C12_rt_bind : forall m fuel, wf_bind m = true -> (length (bind_pack m) <= fuel)%nat ->
  pdu_unpack fuel (bind_pack m) = Ok (PBind m, ce_ticks (b_contexts m)).
Proof. exact rt_bind. Qed.
Print Assumptions C12_rt_bind.

Theorem C12_rt_alter_context : forall m fuel, wf_alter_context m = true -> (length (bind_pack m) <= fuel)%nat ->
  pdu_unpack fuel (bind_pack m) = Ok (PAlterContext m, ce_ticks (b_contexts m)).
Proof. exact rt_alter_context. Qed.
Print Assumptions C12_rt_alter_context.

(* ---- endpoint mapper: floors (known and unknown protocols) and EptMapResult; the decoded value carries the raw
        lhs/rhs caches pack emits (floor_norm), and re-packing it gives the same bytes ---- *)
Theorem C12_rt_floor : forall f rest, wf_floor f = true ->
  floor_unpack (floor_pack f ++ rest) = Ok (floor_norm f) /\ floor_pack (floor_norm f) = floor_pack f.
Proof. exact (fun f rest H => conj (floor_rt f rest H) (floor_pack_norm f)). Qed.
Print Assumptions C12_rt_floor.

Theorem C12_rt_ept_map_result : forall m fuel, wf_ept_map_result m = true -> (length (ept_map_result_pack m) <= fuel)%nat ->
  ept_map_result_unpack fuel (ept_map_result_pack m) = Ok (ept_map_result_norm m, tower_ticks (er_towers m))
  /\ ept_map_result_pack (ept_map_result_norm m) = ept_map_result_pack m.
Proof. exact (fun m fuel H Hf => conj (ept_map_result_rt m fuel H Hf) (ept_map_result_pack_norm m)). Qed.
Print Assumptions C12_rt_ept_map_result.

(* the ept_map request: object UUID present (non-nil) / absent, any tower (0..65535 floors of known or unknown protocols, hence
   every padding residue mod 8), entry handle present / absent, any max_towers. The tower length must fit the 4-octet
   length field pack writes (Python raises OverflowError otherwise); wf_ept_map itself does not say so. ticks = floors *)
Theorem C12_rt_ept_map : forall m fuel, wf_ept_map m = true -> in_range 4 (len (tower_bytes (em_tower m))) = true ->
  (length (ept_map_pack m) <= fuel)%nat ->
  ept_map_unpack fuel (ept_map_pack m) = Ok (ept_map_norm m, len (em_tower m))
  /\ ept_map_pack (ept_map_norm m) = ept_map_pack m.
Proof. exact (fun m fuel H HL Hf => conj (ept_map_rt m fuel H HL (ept_map_fuel m fuel Hf)) (ept_map_pack_norm m)). Qed.
Print Assumptions C12_rt_ept_map.

(* ---- verification trailer (_rpc/_verification.py). A command of a known class (bitmask1, pcontext, header2) packs
        from its typed fields and keeps the raw `value` octets only as a cache filled in by unpack (DESIGN.md section 2,
        "raw value cache"): the decoded command is command_norm c = same class, same typed fields, same flags,
        command = the class constant, value = exactly what pack emitted.  Unknown command types (any 14-bit type
        outside the registry) carry any value of at most 65535 octets. ---- *)
Theorem C12_rt_command : forall c rest, wf_command c = true ->
  command_unpack (command_pack c ++ rest) = Ok (command_norm c) /\ command_unpack (command_pack c) = Ok (command_norm c)
  /\ command_pack (command_norm c) = command_pack c
  /\ cmd_kind_of (command_norm c) = cmd_kind_of c /\ cmd_flags (command_norm c) = cmd_flags c
  /\ cmd_command (command_norm c) = command_type c /\ cmd_value (command_norm c) = command_value c.
Proof. exact (fun c rest H => conj (command_rt c rest H) (conj (command_unpack_pack c H) (conj (command_pack_norm c)
  (conj eq_refl (conj eq_refl (conj eq_refl eq_refl)))))). Qed.
Print Assumptions C12_rt_command.

(* a command that was itself produced by unpack (or a generic one) is a fixed point: unpack (pack c) = c *)
Theorem C12_rt_command_fixpoint : forall c, wf_command c = true -> command_norm c = c ->
  command_unpack (command_pack c) = Ok c.
Proof. exact (fun c H E => eq_ind (command_norm c) (fun x => command_unpack (command_pack c) = Ok x) (command_unpack_pack c H) c E). Qed.
Print Assumptions C12_rt_command_fixpoint.

(* any number (>= 1) of commands, exactly the last one carrying SEC_VT_COMMAND_END; ticks = number of commands *)
Theorem C12_rt_verification_trailer : forall cmds fuel, wf_commands cmds = true ->
  (length (verification_trailer_pack cmds) <= fuel)%nat ->
  verification_trailer_unpack fuel (verification_trailer_pack cmds) = Ok (map command_norm cmds, len cmds)
  /\ verification_trailer_pack (map command_norm cmds) = verification_trailer_pack cmds.
Proof. exact (fun cmds fuel H Hf => conj (verification_trailer_rt cmds fuel H Hf) (verification_trailer_pack_norm cmds)). Qed.
Print Assumptions C12_rt_verification_trailer.

(* ---- termination / cost on arbitrary octets (C12_total_M for every decoder M): for every octet string bs and every
        fuel > length bs (in particular fuel = length bs + 1, C12_fuel_len1) M.unpack never returns OutOfFuel, and the
        ticks of a successful decode are bounded by a linear function of the length (constants in each statement; no
        additive constant and no well-formedness of bs is needed: every loop iteration consumes octets). ---- *)
(* the floor loop on ANY view: every floor consumes at least 3 octets, so 3 t <= consumed length; t floors are kept *)
Theorem C12_total_floors : forall fuel n (view : bytes), len view < Z.of_nat fuel ->
  floors_unpack fuel n view <> Raise OutOfFuel /\
  forall s t, floors_unpack fuel n view = Ok (s, t) -> 0 <= t /\ 3 * t <= len view - len (fst s) /\ len (snd s) = t.
Proof. exact (fun fuel n view H => conj (proj1 (noof_spec _) (proj1 (floors_unpack_total3 fuel n view H))) (proj2 (floors_unpack_total3 fuel n view H))). Qed.
Print Assumptions C12_total_floors.

(* EptMapResult.unpack on ANY octet string: ticks (towers + floors) <= length, at most length / 8 towers kept *)
Theorem C12_total_ept_map_result : forall bs fuel, len bs < Z.of_nat fuel ->
  ept_map_result_unpack fuel bs <> Raise OutOfFuel /\
  forall m t, ept_map_result_unpack fuel bs = Ok (m, t) -> 0 <= t <= len bs /\ 8 * len (er_towers m) <= len bs.
Proof. exact ept_map_result_unpack_total. Qed.
Print Assumptions C12_total_ept_map_result.

(* PDU.unpack on ANY octet string (all eight registered PDU types, arbitrary wire counts, no well-formedness needed): never
   out of fuel, and the loop ticks (contexts + their transfer syntaxes / results / protocol versions) are <= length:
   every iteration consumes at least 2 octets of the fragment *)
Theorem C12_total_pdu : forall bs fuel, len bs < Z.of_nat fuel ->
  pdu_unpack fuel bs <> Raise OutOfFuel /\ forall p t, pdu_unpack fuel bs = Ok (p, t) -> 0 <= t <= len bs.
Proof. exact pdu_unpack_total. Qed.
Print Assumptions C12_total_pdu.

(* EptMap.unpack on ANY octet string: ticks = floors kept, 3 per floor at least *)
Theorem C12_total_ept_map : forall bs fuel, len bs < Z.of_nat fuel ->
  ept_map_unpack fuel bs <> Raise OutOfFuel /\
  forall m t, ept_map_unpack fuel bs = Ok (m, t) -> 0 <= t /\ 3 * t <= len bs /\ len (em_tower m) = t.
Proof. exact ept_map_unpack_total. Qed.
Print Assumptions C12_total_ept_map.

(* fuel = length + 1 meets the fuel hypothesis of every C12_total_* theorem *)
Theorem C12_fuel_len1 : forall bs : bytes, len bs < Z.of_nat (S (length bs)).
Proof. exact len_lt_S. Qed.
Print Assumptions C12_fuel_len1.

(* VerificationTrailer.unpack on ANY octet string (no well-formedness needed): never out of fuel; a successful decode made
   t >= 1 loop iterations, kept t commands, and 8 + 4 t <= length (constants: ticks <= (length - 8) / 4) *)
Theorem C12_total_verification_trailer : forall bs fuel, len bs < Z.of_nat fuel ->
  verification_trailer_unpack fuel bs <> Raise OutOfFuel /\
  forall cs t, verification_trailer_unpack fuel bs = Ok (cs, t) -> 1 <= t /\ 8 + 4 * t <= len bs /\ len cs = t.
Proof. exact verification_trailer_unpack_total. Qed.
Print Assumptions C12_total_verification_trailer.

(* the instance the property text names: fuel = length + 1, every octet string, all four top-level decoders *)
Theorem C12_total_len1 : forall bs : bytes,
  pdu_unpack (S (length bs)) bs <> Raise OutOfFuel /\ verification_trailer_unpack (S (length bs)) bs <> Raise OutOfFuel
  /\ ept_map_unpack (S (length bs)) bs <> Raise OutOfFuel /\ ept_map_result_unpack (S (length bs)) bs <> Raise OutOfFuel.
Proof. exact (fun bs => conj (proj1 (pdu_unpack_total bs _ (len_lt_S bs))) (conj (proj1 (verification_trailer_unpack_total bs _ (len_lt_S bs)))
  (conj (proj1 (ept_map_unpack_total bs _ (len_lt_S bs))) (proj1 (ept_map_result_unpack_total bs _ (len_lt_S bs)))))). Qed.
Print Assumptions C12_total_len1.

(* ---- the hypotheses are satisfiable by non-trivial messages ---- *)
Example C12_example_bind_ack : exists m packed bsa,
  ba_sec_addr m = [52; 57; 54; 54; 56] /\ length (ba_results m) = 2%nat /\
  sec_addr_bytes (ba_sec_addr m) = Ok bsa /\ bind_ack_pack m = Ok packed /\ wf_bind_ack_as c_PT_BIND_ACK m packed bsa = true.
Proof. exact example_bind_ack. Qed.
Example C12_example_ept_map_result : exists m, length (er_towers m) = 2%nat /\ wf_ept_map_result m = true
  /\ len (tower_bytes (hd [] (er_towers m))) mod 8 = 0.
Proof. exact example_ept_map_result. Qed.
Example C12_example_commands : wf_commands ex_commands = true /\ length ex_commands = 4%nat /\
  forallb wf_command ex_commands = true /\ len (verification_trailer_pack ex_commands) = 87.
Proof. exact example_commands. Qed.
Example C12_example_ept_map : wf_ept_map ex_ept_map = true /\ in_range 4 (len (tower_bytes (em_tower ex_ept_map))) = true
  /\ length (em_tower ex_ept_map) = 6%nat /\ len (ept_map_pack ex_ept_map) = 152
  /\ wf_ept_map {| em_obj := None; em_tower := []; em_entry_handle := None; em_max_towers := 0 |} = true.
Proof. exact example_ept_map. Qed.

(* ---- the edges of the well-formedness predicates: what the codecs do on the inputs wf_lengths / wf_ept_map /
        wf_entry_handle / wf_bind_nak / wf_commands exclude (listed in PARTIAL of vlib/props/c12.py) ---- *)
From V Require Import Proofs.RpcEdge.
(* a security trailer on a request / response / fault whose header says auth_len = 0 - in particular a trailer with an
   EMPTY auth value on an otherwise consistent PDU (C12_edge_example) - is not read back as a trailer (DCE/RPC:
   auth_length = 0 means "no auth trailer"): its 8 octets come back as the tail of stub_data, and the decoded PDU packs
   to the same octets *)
Theorem C12_edge_trailer_request : forall m t fuel, rq_sec_trailer m = Some t -> wf_request (request_absorbed m t) = true ->
  request_pack m = request_pack (request_absorbed m t)
  /\ pdu_unpack fuel (request_pack m) = Ok (PRequest (request_absorbed m t), 0).
Proof. exact edge_trailer_request. Qed.
Print Assumptions C12_edge_trailer_request.
Theorem C12_edge_trailer_response : forall m t fuel, rs_sec_trailer m = Some t -> wf_response (response_absorbed m t) = true ->
  response_pack m = response_pack (response_absorbed m t)
  /\ pdu_unpack fuel (response_pack m) = Ok (PResponse (response_absorbed m t), 0).
Proof. exact edge_trailer_response. Qed.
Print Assumptions C12_edge_trailer_response.
Theorem C12_edge_trailer_fault : forall m t fuel, f_sec_trailer m = Some t -> wf_fault (fault_absorbed m t) = true ->
  fault_pack m = fault_pack (fault_absorbed m t)
  /\ pdu_unpack fuel (fault_pack m) = Ok (PFault (fault_absorbed m t), 0).
Proof. exact edge_trailer_fault. Qed.
Print Assumptions C12_edge_trailer_fault.
Example C12_edge_example : rq_sec_trailer ex_edge_request = Some ex_edge_trailer /\ st_auth_value ex_edge_trailer = []
  /\ h_auth_len (rq_header ex_edge_request) = len (st_auth_value ex_edge_trailer)
  /\ h_frag_len (rq_header ex_edge_request) = len (request_pack ex_edge_request)
  /\ wf_request (request_absorbed ex_edge_request ex_edge_trailer) = true.
Proof. exact example_edge_trailer. Qed.
(* a nil object UUID packs to the octets of "no object" and decodes to None; likewise an all-zero entry handle *)
Theorem C12_edge_nil_object : forall m fuel, em_obj m = None -> wf_ept_map m = true ->
  in_range 4 (len (tower_bytes (em_tower m))) = true -> (length (ept_map_pack m) <= fuel)%nat ->
  ept_map_pack (ept_map_with_obj (Some (repeat 0 16)) m) = ept_map_pack m
  /\ ept_map_unpack fuel (ept_map_pack (ept_map_with_obj (Some (repeat 0 16)) m)) = Ok (ept_map_norm m, len (em_tower m)).
Proof. exact edge_nil_object. Qed.
Print Assumptions C12_edge_nil_object.
Theorem C12_edge_zero_handle : forall rest,
  entry_handle_pack (Some (0, repeat 0 16)) = entry_handle_pack None
  /\ entry_handle_unpack (entry_handle_pack (Some (0, repeat 0 16)) ++ rest) = Ok None.
Proof. exact edge_zero_handle. Qed.
Print Assumptions C12_edge_zero_handle.
(* BindNak.pack emits no security trailer and BindNak._unpack returns sec_trailer=None: a trailer on the message is dropped *)
Theorem C12_edge_bind_nak_trailer : forall m t fuel, wf_bind_nak m = true -> (length (bind_nak_pack m) <= fuel)%nat ->
  bind_nak_pack (bind_nak_with_trailer t m) = bind_nak_pack m
  /\ pdu_unpack fuel (bind_nak_pack (bind_nak_with_trailer t m)) = Ok (PBindNak m, len (bn_versions m)).
Proof. exact edge_bind_nak_trailer. Qed.
Print Assumptions C12_edge_bind_nak_trailer.
(* the empty command list packs to the bare signature, which VerificationTrailer.unpack rejects *)
Theorem C12_edge_vt_empty : forall fuel, verification_trailer_pack [] = c_VT_signature
  /\ verification_trailer_unpack (S fuel) (verification_trailer_pack []) = Raise ValueError.
Proof. exact edge_vt_empty. Qed.
Print Assumptions C12_edge_vt_empty.

(* ---- flows: the codecs of _rpc/_pdu.py, _request.py, _bind.py, _verification.py and _epm.py, regenerated as syntax on
   every run (gen/F_rpc.v) and run in the world Flow/World_rpc.v, ARE the model functions the theorems above are about.
   `cls` is the class the classmethod is defined on.
   pack: chk b x = if b then Ok (VB x) else Raise OverflowError with b = <X>_ranges x of Flow/World_rpc.v: every
   z.to_bytes(w, ..) reached from X.pack, those of nested x.field.pack() included (the world gives a nested pack exactly
   this checked meaning, i.e. the right-hand side of its own theorem below).  wf_<X> x = true implies <X>_ranges x = true
   (theorems C12_flow_wf_X_ranges), so on the well-formed messages the round-trip theorems above quantify over the run is Ok of the model's
   pack (theorems C12_flow_X_pack_wf).  EptMapResult.pack is tied under its ranges only.
   unpack with a counted loop: lift_fst forgets the tick count and the model's fuel must suffice (`<> Raise OutOfFuel`, or
   `len data < fuel` in the *_total variants, by the C12_total_* theorems); VerificationTrailer.unpack: fuel for fuel. ---- *)
From V Require Import Prelude.PyAst Prelude.PyWorld gen.F_rpc Flow.World_rpc Proofs.Flow_rpc_lib.
From V Require Import Proofs.Flow_rpc_wf Proofs.Flow_rpc_pdu Proofs.Flow_rpc_request Proofs.Flow_rpc_bind_ctx Proofs.Flow_rpc_bind_bind Proofs.Flow_rpc_bind_ack
  Proofs.Flow_rpc_vt Proofs.Flow_rpc_epm Proofs.Flow_rpc_eptmap_unpack Proofs.Flow_rpc_eptmap_pack.
From V Require Import Prelude.PySlice.
Local Open Scope list_scope.
Local Open Scope Z_scope.
(* Flow_rpc_pdu.v *)
Theorem C12_flow_datarep_pack : forall mf fuel d, run (W mf) fuel k_flow_datarep_pack [VO (ODataRep d)] = chk (data_rep_ranges d) (data_rep_pack d).
Proof. exact flow_datarep_pack. Qed.
Print Assumptions C12_flow_datarep_pack.
Theorem C12_flow_datarep_unpack : forall mf fuel data, run (W mf) fuel k_flow_datarep_unpack [VO (OCls CDataRep); VB data] = (let* d := data_rep_unpack data in Ok (VO (ODataRep d))).
Proof. exact flow_datarep_unpack. Qed.
Print Assumptions C12_flow_datarep_unpack.
Theorem C12_flow_pduheader_pack : forall mf fuel h, run (W mf) fuel k_flow_pduheader_pack [VO (OHeader h)] = chk (pdu_header_ranges h) (pdu_header_pack h).
Proof. exact flow_pduheader_pack. Qed.
Print Assumptions C12_flow_pduheader_pack.
Theorem C12_flow_pduheader_unpack : forall mf fuel data, run (W mf) fuel k_flow_pduheader_unpack [VO (OCls CPDUHeader); VB data] = (let* h := pdu_header_unpack data in Ok (VO (OHeader h))).
Proof. exact flow_pduheader_unpack. Qed.
Print Assumptions C12_flow_pduheader_unpack.
Theorem C12_flow_sectrailer_pack : forall mf fuel s, run (W mf) fuel k_flow_sectrailer_pack [VO (OSecTrailer s)] = chk (sec_trailer_ranges s) (sec_trailer_pack s).
Proof. exact flow_sectrailer_pack. Qed.
Print Assumptions C12_flow_sectrailer_pack.
Theorem C12_flow_sectrailer_unpack : forall mf fuel data, run (W mf) fuel k_flow_sectrailer_unpack [VO (OCls CSecTrailer); VB data] = (let* s := sec_trailer_unpack data in Ok (VO (OSecTrailer s))).
Proof. exact flow_sectrailer_unpack. Qed.
Print Assumptions C12_flow_sectrailer_unpack.
Theorem C12_flow_fault_unpack : forall mf fuel data h st, run (W mf) fuel k_flow_fault_unpack [VO (OCls CFault); VB data; VO (OHeader h); vst st] = (let* m := fault_unpack data h st in Ok (VO (OFault m))).
Proof. exact flow_fault_unpack. Qed.
Print Assumptions C12_flow_fault_unpack.
Theorem C12_flow_fault_pack : forall mf fuel m, run (W mf) fuel k_flow_fault_pack [VO (OFault m)] = chk (fault_ranges m) (fault_pack m).
Proof. exact flow_fault_pack. Qed.
Print Assumptions C12_flow_fault_pack.
Theorem C12_flow_wf_data_rep_ranges : forall d, wf_data_rep d = true -> data_rep_ranges d = true.
Proof. exact wf_data_rep_ranges. Qed.
Print Assumptions C12_flow_wf_data_rep_ranges.
Theorem C12_flow_wf_pdu_header_ranges : forall h, wf_pdu_header h = true -> pdu_header_ranges h = true.
Proof. exact wf_pdu_header_ranges. Qed.
Print Assumptions C12_flow_wf_pdu_header_ranges.
Theorem C12_flow_wf_sec_trailer_ranges : forall s, wf_sec_trailer s = true -> sec_trailer_ranges s = true.
Proof. exact wf_sec_trailer_ranges. Qed.
Print Assumptions C12_flow_wf_sec_trailer_ranges.
Theorem C12_flow_wf_lengths_ranges : forall h total st, wf_lengths h total st = true -> opt_sec_trailer_ranges st = true.
Proof. exact wf_lengths_ranges. Qed.
Print Assumptions C12_flow_wf_lengths_ranges.
Theorem C12_flow_wf_fault_ranges : forall m, wf_fault m = true -> fault_ranges m = true.
Proof. exact wf_fault_ranges. Qed.
Print Assumptions C12_flow_wf_fault_ranges.
Theorem C12_flow_fault_pack_wf : forall mf fuel m, wf_fault m = true -> run (W mf) fuel k_flow_fault_pack [VO (OFault m)] = Ok (VB (fault_pack m)).
Proof. exact flow_fault_pack_wf. Qed.
Print Assumptions C12_flow_fault_pack_wf.
(* Flow_rpc_request.v *)
Theorem C12_flow_response_unpack : forall mf fuel data h st, run (W mf) fuel k_flow_response_unpack [VO (OCls CResponse); VB data; VO (OHeader h); vst st] = (let* m := response_unpack data h st in Ok (VO (OResponse m))).
Proof. exact flow_response_unpack. Qed.
Print Assumptions C12_flow_response_unpack.
Theorem C12_flow_response_pack : forall mf fuel m, run (W mf) fuel k_flow_response_pack [VO (OResponse m)] = chk (response_ranges m) (response_pack m).
Proof. exact flow_response_pack. Qed.
Print Assumptions C12_flow_response_pack.
Theorem C12_flow_request_unpack : forall mf fuel data h st, run (W mf) fuel k_flow_request_unpack [VO (OCls CRequest); VB data; VO (OHeader h); vst st] = (let* m := request_unpack data h st in Ok (VO (ORequest m))).
Proof. exact flow_request_unpack. Qed.
Print Assumptions C12_flow_request_unpack.
Theorem C12_flow_request_pack : forall mf fuel m, run (W mf) fuel k_flow_request_pack [VO (ORequest m)] = chk (request_ranges m) (request_pack m).
Proof. exact flow_request_pack. Qed.
Print Assumptions C12_flow_request_pack.
Theorem C12_flow_wf_request_ranges : forall m, wf_request m = true -> request_ranges m = true.
Proof. exact wf_request_ranges. Qed.
Print Assumptions C12_flow_wf_request_ranges.
Theorem C12_flow_wf_response_ranges : forall m, wf_response m = true -> response_ranges m = true.
Proof. exact wf_response_ranges. Qed.
Print Assumptions C12_flow_wf_response_ranges.
Theorem C12_flow_request_pack_wf : forall mf fuel m, wf_request m = true -> run (W mf) fuel k_flow_request_pack [VO (ORequest m)] = Ok (VB (request_pack m)).
Proof. exact flow_request_pack_wf. Qed.
Print Assumptions C12_flow_request_pack_wf.
Theorem C12_flow_response_pack_wf : forall mf fuel m, wf_response m = true -> run (W mf) fuel k_flow_response_pack [VO (OResponse m)] = Ok (VB (response_pack m)).
Proof. exact flow_response_pack_wf. Qed.
Print Assumptions C12_flow_response_pack_wf.
(* Flow_rpc_bind_ctx.v, Flow_rpc_bind_bind.v, Flow_rpc_bind_ack.v *)
Theorem C12_flow_syntaxid_pack : forall mf fuel s, run (W mf) fuel k_flow_syntaxid_pack [VO (OSyntaxId s)] = chk (syntax_id_ranges s) (syntax_id_pack s).
Proof. exact flow_syntaxid_pack. Qed.
Print Assumptions C12_flow_syntaxid_pack.
Theorem C12_flow_syntaxid_unpack : forall mf fuel data, run (W mf) fuel k_flow_syntaxid_unpack [VO (OCls CSyntaxId); VB data] = (let* s := syntax_id_unpack data in Ok (VO (OSyntaxId s))).
Proof. exact flow_syntaxid_unpack. Qed.
Print Assumptions C12_flow_syntaxid_unpack.
Theorem C12_flow_contextresult_pack : forall mf fuel r, run (W mf) fuel k_flow_contextresult_pack [VO (OContextResult r)] = chk (context_result_ranges r) (context_result_pack r).
Proof. exact flow_contextresult_pack. Qed.
Print Assumptions C12_flow_contextresult_pack.
Theorem C12_flow_contextresult_unpack : forall mf fuel data, run (W mf) fuel k_flow_contextresult_unpack [VO (OCls CContextResult); VB data] = (let* r := context_result_unpack data in Ok (VO (OContextResult r))).
Proof. exact flow_contextresult_unpack. Qed.
Print Assumptions C12_flow_contextresult_unpack.
Theorem C12_flow_contextelement_pack : forall mf fuel c, run (W mf) fuel k_flow_contextelement_pack [VO (OContextElement c)] = chk (context_element_ranges c) (context_element_pack c).
Proof. exact flow_contextelement_pack. Qed.
Print Assumptions C12_flow_contextelement_pack.
Theorem C12_flow_contextelement_unpack : forall mf mfuel fuel data, context_element_unpack mfuel data <> Raise OutOfFuel -> run (W mf) fuel k_flow_contextelement_unpack [VO (OCls CContextElement); VB data] = lift_fst OContextElement (context_element_unpack mfuel data).
Proof. exact flow_contextelement_unpack. Qed.
Print Assumptions C12_flow_contextelement_unpack.
Theorem C12_flow_bind_unpack_as : forall c mf fuel data h st, (c = CBind \/ c = CAlterContext) -> bind_unpack mf data h st <> Raise OutOfFuel -> run (W mf) fuel k_flow_bind_unpack [VO (OCls c); VB data; VO (OHeader h); vst st] = lift_fst OBind (bind_unpack mf data h st).
Proof. exact flow_bind_unpack_as. Qed.
Print Assumptions C12_flow_bind_unpack_as.
Theorem C12_flow_bindack_unpack_as : forall c mf mfuel fuel data h st, (c = CBindAck \/ c = CAlterContextResponse) -> bind_ack_unpack mfuel data h st <> Raise OutOfFuel -> run (W mf) fuel k_flow_bindack_unpack [VO (OCls c); VB data; VO (OHeader h); vst st] = lift_fst OBindAck (bind_ack_unpack mfuel data h st).
Proof. exact flow_bindack_unpack_as. Qed.
Print Assumptions C12_flow_bindack_unpack_as.
Theorem C12_flow_bindnak_unpack : forall mf mfuel fuel data h st, bind_nak_unpack mfuel data h st <> Raise OutOfFuel -> run (W mf) fuel k_flow_bindnak_unpack [VO (OCls CBindNak); VB data; VO (OHeader h); vst st] = lift_fst OBindNak (bind_nak_unpack mfuel data h st).
Proof. exact flow_bindnak_unpack. Qed.
Print Assumptions C12_flow_bindnak_unpack.
Theorem C12_flow_bind_unpack : forall mf fuel data h st, bind_unpack mf data h st <> Raise OutOfFuel -> run (W mf) fuel k_flow_bind_unpack [VO (OCls CBind); VB data; VO (OHeader h); vst st] = lift_fst OBind (bind_unpack mf data h st).
Proof. exact flow_bind_unpack. Qed.
Print Assumptions C12_flow_bind_unpack.
Theorem C12_flow_bindack_unpack : forall mf mfuel fuel data h st, bind_ack_unpack mfuel data h st <> Raise OutOfFuel -> run (W mf) fuel k_flow_bindack_unpack [VO (OCls CBindAck); VB data; VO (OHeader h); vst st] = lift_fst OBindAck (bind_ack_unpack mfuel data h st).
Proof. exact flow_bindack_unpack. Qed.
Print Assumptions C12_flow_bindack_unpack.
Theorem C12_flow_altercontext_unpack : forall mf fuel data h st, run (W mf) fuel k_flow_altercontext_unpack [VO (OCls CAlterContext); VB data; VO (OHeader h); vst st] = lift_fst OBind (bind_unpack mf data h st).
Proof. exact flow_altercontext_unpack. Qed.
Print Assumptions C12_flow_altercontext_unpack.
Theorem C12_flow_altercontext_unpack_body : forall mf fuel data h st, bind_unpack mf data h st <> Raise OutOfFuel -> run (W mf) fuel k_flow_bind_unpack [VO (OCls CAlterContext); VB data; VO (OHeader h); vst st] = lift_fst OBind (bind_unpack mf data h st).
Proof. exact flow_altercontext_unpack_body. Qed.
Print Assumptions C12_flow_altercontext_unpack_body.
Theorem C12_flow_altercontextresponse_unpack : forall mf fuel data h st, run (W mf) fuel k_flow_altercontextresponse_unpack [VO (OCls CAlterContextResponse); VB data; VO (OHeader h); vst st] = lift_fst OBindAck (bind_ack_unpack mf data h st).
Proof. exact flow_altercontextresponse_unpack. Qed.
Print Assumptions C12_flow_altercontextresponse_unpack.
Theorem C12_flow_altercontextresponse_unpack_body : forall mf mfuel fuel data h st, bind_ack_unpack mfuel data h st <> Raise OutOfFuel -> run (W mf) fuel k_flow_bindack_unpack [VO (OCls CAlterContextResponse); VB data; VO (OHeader h); vst st] = lift_fst OBindAck (bind_ack_unpack mfuel data h st).
Proof. exact flow_altercontextresponse_unpack_body. Qed.
Print Assumptions C12_flow_altercontextresponse_unpack_body.
Theorem C12_flow_bind_pack : forall mf fuel m, run (W mf) fuel k_flow_bind_pack [VO (OBind m)] = chk (bind_ranges m) (bind_pack m).
Proof. exact flow_bind_pack. Qed.
Print Assumptions C12_flow_bind_pack.
Theorem C12_flow_bindack_pack : forall mf fuel m, run (W mf) fuel k_flow_bindack_pack [VO (OBindAck m)] = (let* bsa := sec_addr_bytes (ba_sec_addr m) in chk (bind_ack_ranges m bsa) (pdu_header_pack (ba_header m) ++ bind_ack_body_of m bsa ++ opt_sec_trailer_pack (ba_sec_trailer m))).
Proof. exact flow_bindack_pack. Qed.
Print Assumptions C12_flow_bindack_pack.
Theorem C12_flow_bindnak_pack : forall mf fuel m, run (W mf) fuel k_flow_bindnak_pack [VO (OBindNak m)] = chk (bind_nak_ranges m) (bind_nak_pack m).
Proof. exact flow_bindnak_pack. Qed.
Print Assumptions C12_flow_bindnak_pack.
Theorem C12_flow_btfn : forall mf fuel flags, run (W mf) fuel k_flow_btfn [VI flags] = if in_range 1 flags then Ok (VO (OSyntaxId (bind_time_feature_negotiation flags))) else Raise ValueError.
Proof. exact flow_btfn. Qed.
Print Assumptions C12_flow_btfn.
Theorem C12_flow_contextelement_unpack_total : forall mf mfuel fuel data, len data < Z.of_nat mfuel -> run (W mf) fuel k_flow_contextelement_unpack [VO (OCls CContextElement); VB data] = lift_fst OContextElement (context_element_unpack mfuel data).
Proof. exact flow_contextelement_unpack_total. Qed.
Print Assumptions C12_flow_contextelement_unpack_total.
Theorem C12_flow_bind_unpack_total : forall mf fuel data h st, len data < Z.of_nat mf -> run (W mf) fuel k_flow_bind_unpack [VO (OCls CBind); VB data; VO (OHeader h); vst st] = lift_fst OBind (bind_unpack mf data h st).
Proof. exact flow_bind_unpack_total. Qed.
Print Assumptions C12_flow_bind_unpack_total.
Theorem C12_flow_bindack_unpack_total : forall mf mfuel fuel data h st, len data < Z.of_nat mfuel -> run (W mf) fuel k_flow_bindack_unpack [VO (OCls CBindAck); VB data; VO (OHeader h); vst st] = lift_fst OBindAck (bind_ack_unpack mfuel data h st).
Proof. exact flow_bindack_unpack_total. Qed.
Print Assumptions C12_flow_bindack_unpack_total.
Theorem C12_flow_bindnak_unpack_total : forall mf mfuel fuel data h st, len data < Z.of_nat mfuel -> run (W mf) fuel k_flow_bindnak_unpack [VO (OCls CBindNak); VB data; VO (OHeader h); vst st] = lift_fst OBindNak (bind_nak_unpack mfuel data h st).
Proof. exact flow_bindnak_unpack_total. Qed.
Print Assumptions C12_flow_bindnak_unpack_total.
Theorem C12_flow_wf_syntax_id_ranges : forall s, wf_syntax_id s = true -> syntax_id_ranges s = true.
Proof. exact wf_syntax_id_ranges. Qed.
Print Assumptions C12_flow_wf_syntax_id_ranges.
Theorem C12_flow_wf_context_element_ranges : forall c, wf_context_element c = true -> context_element_ranges c = true.
Proof. exact wf_context_element_ranges. Qed.
Print Assumptions C12_flow_wf_context_element_ranges.
Theorem C12_flow_wf_context_result_ranges : forall r, wf_context_result r = true -> context_result_ranges r = true.
Proof. exact wf_context_result_ranges. Qed.
Print Assumptions C12_flow_wf_context_result_ranges.
Theorem C12_flow_wf_bind_ranges : forall pt m, wf_bind_as pt m = true -> bind_ranges m = true.
Proof. exact wf_bind_ranges. Qed.
Print Assumptions C12_flow_wf_bind_ranges.
Theorem C12_flow_wf_bind_ack_ranges : forall pt m packed bsa, wf_bind_ack_as pt m packed bsa = true -> bind_ack_ranges m bsa = true.
Proof. exact wf_bind_ack_ranges. Qed.
Print Assumptions C12_flow_wf_bind_ack_ranges.
Theorem C12_flow_bind_pack_wf : forall mf fuel pt m, wf_bind_as pt m = true -> run (W mf) fuel k_flow_bind_pack [VO (OBind m)] = Ok (VB (bind_pack m)).
Proof. exact flow_bind_pack_wf. Qed.
Print Assumptions C12_flow_bind_pack_wf.
Theorem C12_flow_bindack_pack_wf : forall mf fuel pt m packed bsa, sec_addr_bytes (ba_sec_addr m) = Ok bsa -> wf_bind_ack_as pt m packed bsa = true -> run (W mf) fuel k_flow_bindack_pack [VO (OBindAck m)] = (let* p := bind_ack_pack m in Ok (VB p)).
Proof. exact flow_bindack_pack_wf. Qed.
Print Assumptions C12_flow_bindack_pack_wf.
(* Flow_rpc_vt.v *)
Theorem C12_flow_command_pack : forall mf fuel c, run (W mf) fuel k_flow_command_pack [VO (OCommand c)] = chk (command_generic_ranges (command_type c) (cmd_flags c) (cmd_value c)) (command_generic_pack (command_type c) (cmd_flags c) (cmd_value c)).
Proof. exact flow_command_pack. Qed.
Print Assumptions C12_flow_command_pack.
Theorem C12_flow_command_pack_generic : forall mf fuel c, cmd_kind_of c = CK_Generic -> run (W mf) fuel k_flow_command_pack [VO (OCommand c)] = chk (command_ranges c) (command_pack c).
Proof. exact flow_command_pack_generic. Qed.
Print Assumptions C12_flow_command_pack_generic.
Theorem C12_flow_command_unpack : forall mf fuel data, run (W mf) fuel k_flow_command_unpack [VO (OCls CCommand); VB data] = (let* c := command_unpack data in Ok (VO (OCommand c))).
Proof. exact flow_command_unpack. Qed.
Print Assumptions C12_flow_command_unpack.
Theorem C12_flow_cmdbitmask_pack : forall mf fuel c bits, cmd_kind_of c = CK_Bitmask bits -> run (W mf) fuel k_flow_cmdbitmask_pack [VO (OCommand c)] = chk (command_ranges c) (command_pack c).
Proof. exact flow_cmdbitmask_pack. Qed.
Print Assumptions C12_flow_cmdbitmask_pack.
Theorem C12_flow_cmdbitmask_unpack : forall mf fuel flags value, run (W mf) fuel k_flow_cmdbitmask_unpack [VO (OCls CCommandBitmask); VI flags; VB value] = Ok (VO (OCommand (known_command (CK_Bitmask (le_val value)) flags))).
Proof. exact flow_cmdbitmask_unpack. Qed.
Print Assumptions C12_flow_cmdbitmask_unpack.
Theorem C12_flow_cmdpcontext_pack : forall mf fuel c i t, cmd_kind_of c = CK_PContext i t -> run (W mf) fuel k_flow_cmdpcontext_pack [VO (OCommand c)] = chk (command_ranges c) (command_pack c).
Proof. exact flow_cmdpcontext_pack. Qed.
Print Assumptions C12_flow_cmdpcontext_pack.
Theorem C12_flow_cmdpcontext_unpack : forall mf fuel flags value, run (W mf) fuel k_flow_cmdpcontext_unpack [VO (OCls CCommandPContext); VI flags; VB value] = (let* i := syntax_id_unpack value in let* t := syntax_id_unpack (slice (Some 20) None value) in Ok (VO (OCommand (known_command (CK_PContext i t) flags)))).
Proof. exact flow_cmdpcontext_unpack. Qed.
Print Assumptions C12_flow_cmdpcontext_unpack.
Theorem C12_flow_cmdheader2_pack : forall mf fuel c pt dr call ctx op, cmd_kind_of c = CK_Header2 pt dr call ctx op -> run (W mf) fuel k_flow_cmdheader2_pack [VO (OCommand c)] = chk (command_ranges c) (command_pack c).
Proof. exact flow_cmdheader2_pack. Qed.
Print Assumptions C12_flow_cmdheader2_pack.
Theorem C12_flow_cmdheader2_unpack : forall mf fuel flags value, run (W mf) fuel k_flow_cmdheader2_unpack [VO (OCls CCommandHeader2); VI flags; VB value] = (let* b0 := index value 0 in let* packet_type := enum_lookup c_PacketType_values b0 in let* dr := data_rep_unpack (slice (Some 4) (Some 8) value) in Ok (VO (OCommand (known_command (CK_Header2 packet_type dr (le_val (slice (Some 8) (Some 12) value)) (le_val (slice (Some 12) (Some 14) value)) (le_val (slice (Some 14) (Some 16) value))) flags)))).
Proof. exact flow_cmdheader2_unpack. Qed.
Print Assumptions C12_flow_cmdheader2_unpack.
Theorem C12_flow_vt_pack : forall mf fuel cs, run (W mf) fuel k_flow_vt_pack [VO (OVT cs)] = chk (forallb command_ranges cs) (verification_trailer_pack cs).
Proof. exact flow_vt_pack. Qed.
Print Assumptions C12_flow_vt_pack.
Theorem C12_flow_vt_unpack : forall mf fuel data, run (W mf) fuel k_flow_vt_unpack [VO (OCls CVerificationTrailer); VB data] = (let* (cs, _) := verification_trailer_unpack fuel data in Ok (VO (OVT cs))).
Proof. exact flow_vt_unpack. Qed.
Print Assumptions C12_flow_vt_unpack.
Theorem C12_flow_wf_command_ranges : forall c, wf_command c = true -> command_ranges c = true.
Proof. exact wf_command_ranges. Qed.
Print Assumptions C12_flow_wf_command_ranges.
Theorem C12_flow_wf_commands_ranges : forall cs, wf_commands cs = true -> forallb command_ranges cs = true.
Proof. exact wf_commands_ranges. Qed.
Print Assumptions C12_flow_wf_commands_ranges.
Theorem C12_flow_vt_pack_wf : forall mf fuel cs, wf_commands cs = true -> run (W mf) fuel k_flow_vt_pack [VO (OVT cs)] = Ok (VB (verification_trailer_pack cs)).
Proof. exact flow_vt_pack_wf. Qed.
Print Assumptions C12_flow_vt_pack_wf.
(* Flow_rpc_epm.v *)
Theorem C12_flow_floor_pack : forall mf fuel f, run (W mf) fuel k_flow_floor_pack [VO (OFloor f)] = chk (floor_generic_ranges (floor_protocol f) (fl_lhs f) (fl_rhs f)) (floor_generic_pack (floor_protocol f) (fl_lhs f) (fl_rhs f)).
Proof. exact flow_floor_pack. Qed.
Print Assumptions C12_flow_floor_pack.
Theorem C12_flow_floor_pack_generic : forall mf fuel f, fl_kind f = FK_Generic -> run (W mf) fuel k_flow_floor_pack [VO (OFloor f)] = chk (floor_ranges f) (floor_pack f).
Proof. exact flow_floor_pack_generic. Qed.
Print Assumptions C12_flow_floor_pack_generic.
Theorem C12_flow_floor_unpack : forall mf fuel data, run (W mf) fuel k_flow_floor_unpack [VO (OCls CFloor); VB data] = (let* f := floor_unpack data in Ok (VO (OFloor f))).
Proof. exact flow_floor_unpack. Qed.
Print Assumptions C12_flow_floor_unpack.
Theorem C12_flow_tcpfloor_pack : forall mf fuel f port, fl_kind f = FK_TCP port -> run (W mf) fuel k_flow_tcpfloor_pack [VO (OFloor f)] = chk (floor_ranges f) (floor_pack f).
Proof. exact flow_tcpfloor_pack. Qed.
Print Assumptions C12_flow_tcpfloor_pack.
Theorem C12_flow_tcpfloor_unpack : forall mf fuel lhs rhs, run (W mf) fuel k_flow_tcpfloor_unpack [VO (OCls CTCPFloor); VB lhs; VB rhs] = Ok (VO (OFloor (known_floor (FK_TCP (be_val rhs))))).
Proof. exact flow_tcpfloor_unpack. Qed.
Print Assumptions C12_flow_tcpfloor_unpack.
Theorem C12_flow_ipfloor_pack : forall mf fuel f addr, fl_kind f = FK_IP addr -> run (W mf) fuel k_flow_ipfloor_pack [VO (OFloor f)] = chk (floor_ranges f) (floor_pack f).
Proof. exact flow_ipfloor_pack. Qed.
Print Assumptions C12_flow_ipfloor_pack.
Theorem C12_flow_ipfloor_unpack : forall mf fuel lhs rhs, run (W mf) fuel k_flow_ipfloor_unpack [VO (OCls CIPFloor); VB lhs; VB rhs] = Ok (VO (OFloor (known_floor (FK_IP (be_val rhs))))).
Proof. exact flow_ipfloor_unpack. Qed.
Print Assumptions C12_flow_ipfloor_unpack.
Theorem C12_flow_rpccofloor_pack : forall mf fuel f vm, fl_kind f = FK_RPC_CO vm -> run (W mf) fuel k_flow_rpccofloor_pack [VO (OFloor f)] = chk (floor_ranges f) (floor_pack f).
Proof. exact flow_rpccofloor_pack. Qed.
Print Assumptions C12_flow_rpccofloor_pack.
Theorem C12_flow_rpccofloor_unpack : forall mf fuel lhs rhs, run (W mf) fuel k_flow_rpccofloor_unpack [VO (OCls CRPCConnectionOrientedFloor); VB lhs; VB rhs] = Ok (VO (OFloor (known_floor (FK_RPC_CO (le_val rhs))))).
Proof. exact flow_rpccofloor_unpack. Qed.
Print Assumptions C12_flow_rpccofloor_unpack.
Theorem C12_flow_uuidfloor_pack : forall mf fuel f u v vm, fl_kind f = FK_UUID u v vm -> run (W mf) fuel k_flow_uuidfloor_pack [VO (OFloor f)] = chk (floor_ranges f) (floor_pack f).
Proof. exact flow_uuidfloor_pack. Qed.
Print Assumptions C12_flow_uuidfloor_pack.
Theorem C12_flow_uuidfloor_unpack : forall mf fuel lhs rhs, run (W mf) fuel k_flow_uuidfloor_unpack [VO (OCls CUUIDFloor); VB lhs; VB rhs] = (let* u := uuid_of_bytes_le (slice None (Some 16) lhs) in Ok (VO (OFloor (known_floor (FK_UUID u (le_val (slice (Some 16) (Some 18) lhs)) (le_val rhs)))))).
Proof. exact flow_uuidfloor_unpack. Qed.
Print Assumptions C12_flow_uuidfloor_unpack.
Theorem C12_flow_eptmapresult_unpack : forall mf mfuel fuel data, ept_map_result_unpack mfuel data <> Raise OutOfFuel -> run (W mf) fuel k_flow_eptmapresult_unpack [VO (OCls CEptMapResult); VB data] = lift_fst OEptMapResult (ept_map_result_unpack mfuel data).
Proof. exact flow_eptmapresult_unpack. Qed.
Print Assumptions C12_flow_eptmapresult_unpack.
Theorem C12_flow_eptmapresult_pack : forall mf fuel m, ept_map_result_ranges m = true -> run (W mf) fuel k_flow_eptmapresult_pack [VO (OEptMapResult m)] = Ok (VB (ept_map_result_pack m)).
Proof. exact flow_eptmapresult_pack. Qed.
Print Assumptions C12_flow_eptmapresult_pack.
Theorem C12_flow_wf_floor_ranges : forall f, wf_floor f = true -> floor_ranges f = true.
Proof. exact wf_floor_ranges. Qed.
Print Assumptions C12_flow_wf_floor_ranges.
Theorem C12_flow_wf_eptres_ranges : forall m, wf_ept_map_result m = true -> ept_map_result_ranges m = true.
Proof. exact wf_eptres_ranges. Qed.
Print Assumptions C12_flow_wf_eptres_ranges.
Theorem C12_flow_eptmapresult_unpack_total : forall mf mfuel fuel data, len data < Z.of_nat mfuel -> run (W mf) fuel k_flow_eptmapresult_unpack [VO (OCls CEptMapResult); VB data] = lift_fst OEptMapResult (ept_map_result_unpack mfuel data).
Proof. exact flow_eptmapresult_unpack_total. Qed.
Print Assumptions C12_flow_eptmapresult_unpack_total.
(* Flow_rpc_eptmap_unpack.v, Flow_rpc_eptmap_pack.v *)
Theorem C12_flow_build_tcpip_tower : forall mf fuel service data_rep port addr, run (W mf) fuel k_flow_build_tcpip_tower [VO (OSyntaxId service); VO (OSyntaxId data_rep); VI port; VI addr] = Ok (vfloors (build_tcpip_tower service data_rep port addr)).
Proof. exact flow_build_tcpip_tower. Qed.
Print Assumptions C12_flow_build_tcpip_tower.
Theorem C12_flow_eptmap_unpack : forall mf mfuel fuel data, ept_map_unpack mfuel data <> Raise OutOfFuel -> run (W mf) fuel k_flow_eptmap_unpack [VO (OCls CEptMap); VB data] = lift_fst OEptMap (ept_map_unpack mfuel data).
Proof. exact flow_eptmap_unpack. Qed.
Print Assumptions C12_flow_eptmap_unpack.
Theorem C12_flow_eptmap_pack : forall mf fuel m, run (W mf) fuel k_flow_eptmap_pack [VO (OEptMap m)] = chk (ept_map_ranges m) (ept_map_pack m).
Proof. exact flow_eptmap_pack. Qed.
Print Assumptions C12_flow_eptmap_pack.
Theorem C12_flow_eptmap_unpack_total : forall mf mfuel fuel data, len data < Z.of_nat mfuel -> run (W mf) fuel k_flow_eptmap_unpack [VO (OCls CEptMap); VB data] = lift_fst OEptMap (ept_map_unpack mfuel data).
Proof. exact flow_eptmap_unpack_total. Qed.
Print Assumptions C12_flow_eptmap_unpack_total.
(* the range hypothesis of C12_flow_eptmapresult_pack is met by the two-tower example above *)
Example C12_flow_example_eptres_ranges : exists m, length (er_towers m) = 2%nat /\ ept_map_result_ranges m = true.
Proof. exact (match example_ept_map_result with ex_intro _ m (conj H1 (conj H2 _)) => ex_intro _ m (conj H1 (wf_eptres_ranges m H2)) end). Qed.
