(* C11 -- MS-GKDI structures and GetKey stubs have exactly the specified byte layout.
   Statements only; proofs in Proofs/Gkdi*.v.  Model: Model/KeyId.v, Model/Gkdi.v (after
   _blob.KeyIdentifier, _gkdi.py, _client._process_get_key_result); independent encoders:
   Spec/GkdiLayout.v (field tables from MS-GKDI 2.2.1-2.2.4, NDR64 stubs of GetKey). *)
From V Require Import Prelude.Base Prelude.PyInt Prelude.PySlice Prelude.PyStr.
From V Require Import gen.K_gkdi Model.Types Model.KeyId Model.Gkdi Model.GkdiView Spec.GkdiLayout.
From V Require Import Proofs.GkdiLib Proofs.GkdiKeyId Proofs.GkdiEnvelope Proofs.GkdiGetKey.

(* ---- round trips ---- *)
Theorem C11_roundtrip_KeyIdentifier : forall k, wf_kid k = true ->
  exists b, KeyIdentifier_pack k = Ok b /\ KeyIdentifier_unpack b = Ok k.
Proof. exact KeyIdentifier_roundtrip. Qed.
Print Assumptions C11_roundtrip_KeyIdentifier.

Theorem C11_roundtrip_GroupKeyEnvelope : forall e, wf_env e = true ->
  exists b, GroupKeyEnvelope_pack e = Ok b /\ GroupKeyEnvelope_unpack b = Ok e.
Proof. exact GroupKeyEnvelope_roundtrip. Qed.
Print Assumptions C11_roundtrip_GroupKeyEnvelope.

Theorem C11_getkey_roundtrip : forall g, wf_getkey g = true ->
  exists b, GetKey_pack g = Ok b /\ GetKey_unpack b = Ok g.
Proof. exact GetKey_roundtrip. Qed.
Print Assumptions C11_getkey_roundtrip.

(* ---- GetKey request stub = NDR64 encoding of the arguments, for every SD length (every
   residue mod 8) and a null / non-null root key pointer ---- *)
Theorem C11_getkey_ndr64 : forall g, wf_getkey g = true ->
  exists b, GetKey_pack g = Ok b /\
            ndr64_getkey_request (gk_target_sd g) (gk_root_key_id g) (gk_l0 g) (gk_l1 g) (gk_l2 g) = Some b.
Proof. exact GetKey_pack_eq_ndr64. Qed.
Print Assumptions C11_getkey_ndr64.

(* the padding kernel regenerated from GetKey.unpack aligns the pointer to 8 *)
Theorem C11_kernel_unpack_pad : forall n, 0 <= k_getkey_unpack_pad n < 8 /\ (n + k_getkey_unpack_pad n) mod 8 = 0.
Proof. exact k_getkey_unpack_pad_spec. Qed.
Print Assumptions C11_kernel_unpack_pad.

(* ---- reply: the decoder extracts the envelope bytes from the NDR64 reply for every length ---- *)
Theorem C11_reply : forall out b, u32b (len out) = true -> ndr64_getkey_reply out 0 = Some b ->
  GetKey_unpack_response b = GroupKeyEnvelope_unpack out.
Proof. exact unpack_response_ndr64. Qed.
Print Assumptions C11_reply.

Theorem C11_reply_encodable : forall out h, u32b (len out) = true -> u32b h = true ->
  exists b, ndr64_getkey_reply out h = Some b.
Proof. exact ndr64_getkey_reply_total. Qed.
Print Assumptions C11_reply_encodable.

Theorem C11_reply_hresult : forall out h b, u32b (len out) = true -> u32b h = true -> h <> 0 ->
  ndr64_getkey_reply out h = Some b -> GetKey_unpack_response b = Raise ValueError.
Proof. exact unpack_response_failure. Qed.
Print Assumptions C11_reply_hresult.

Theorem C11_reply_hresult_nobuffer : forall h b, u32b h = true -> h <> 0 ->
  ndr64_getkey_reply_fail h = Some b -> GetKey_unpack_response b = Raise ValueError.
Proof. exact unpack_response_reply_fail. Qed.
Print Assumptions C11_reply_hresult_nobuffer.

Theorem C11_reply_hresult_any : forall data, le_val (slice (Some (-4)) None data) <> 0 ->
  GetKey_unpack_response data = Raise ValueError.
Proof. exact unpack_response_hresult. Qed.
Print Assumptions C11_reply_hresult_any.

(* ---- auth padding (sec_trailer.pad_length bytes) is stripped before decoding ---- *)
Theorem C11_strip_pad : forall stub pad,
  process_get_key_result (stub ++ pad) (Some (len pad)) = GetKey_unpack_response stub.
Proof. exact strip_pad. Qed.
Print Assumptions C11_strip_pad.

Theorem C11_strip_none : forall stub, process_get_key_result stub None = GetKey_unpack_response stub.
Proof. exact no_trailer_no_strip. Qed.
Print Assumptions C11_strip_none.

(* hypotheses are satisfiable by non-trivial values *)
Example C11_wf_kid_example :
  wf_kid {| kid_version := 1; kid_flags := 4294967295; kid_l0 := 361; kid_l1 := 0; kid_l2 := 31;
            kid_rkid := repeat 7 16; kid_key_info := [1; 2; 3]; kid_domain := [100; 128512]; kid_forest := [] |} = true.
Proof. exact wf_kid_example. Qed.
Example C11_wf_env_example : exists e, wf_env e = true /\ gke_domain e = [128512; 0; 97] /\ gke_l0 e = 4294967295.
Proof. eexists. split; [exact wf_env_example|split; reflexivity]. Qed.
Example C11_wf_getkey_example : exists g, wf_getkey g = true /\ len (gk_target_sd g) = 5 /\ gk_l2 g = -2147483648.
Proof. eexists. split; [exact wf_getkey_example|split; reflexivity]. Qed.
