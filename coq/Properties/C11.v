(* C11 -- MS-GKDI structures and GetKey stubs have exactly the specified byte layout.
   Statements only; proofs in Proofs/Gkdi*.v. *)
From V Require Import Prelude.Base Prelude.PyInt Prelude.PySlice Prelude.PyStr.
From V Require Import Model.Types Model.KeyId Model.Gkdi Model.GkdiView Spec.GkdiLayout.
From V Require Import Proofs.GkdiLib Proofs.GkdiKeyId.

Theorem C11_roundtrip_KeyIdentifier : forall k, wf_kid k = true ->
  exists b, KeyIdentifier_pack k = Ok b /\ KeyIdentifier_unpack b = Ok k.
Proof. exact KeyIdentifier_roundtrip. Qed.
Print Assumptions C11_roundtrip_KeyIdentifier.
