(* C11 -- MS-GKDI structures and GetKey stubs have exactly the specified byte layout.
   Statements only; proofs in Proofs/Gkdi*.v.  Model: Model/KeyId.v, Model/Gkdi.v (after
   _blob.KeyIdentifier, _gkdi.py, _client._process_get_key_result); independent encoders:
   Spec/GkdiLayout.v (field tables from MS-GKDI 2.2.1-2.2.4, NDR64 stubs of GetKey). *)
From V Require Import Prelude.Base Prelude.PyInt Prelude.PySlice Prelude.PyStr.
From V Require Import gen.K_gkdi Model.Types Model.KeyId Model.Gkdi Model.GkdiView Spec.GkdiLayout.
From V Require Import Model.Crypto Proofs.GkdiLib Proofs.GkdiKeyId Proofs.GkdiEnvelope Proofs.GkdiGetKey Proofs.GkdiStructs Proofs.GkdiLayoutEq Proofs.GkdiLayoutIff Proofs.GkdiSafe.

(* ---- round trips ---- *)
Theorem C11_roundtrip_KeyIdentifier : forall k, wf_kid k = true ->
  exists b, KeyIdentifier_pack k = Ok b /\ KeyIdentifier_unpack b = Ok k.
Proof. exact KeyIdentifier_roundtrip. Qed.
Print Assumptions C11_roundtrip_KeyIdentifier.

Theorem C11_roundtrip_GroupKeyEnvelope : forall e, wf_env e = true ->
  exists b, GroupKeyEnvelope_pack e = Ok b /\ GroupKeyEnvelope_unpack b = Ok e.
Proof. exact GroupKeyEnvelope_roundtrip. Qed.
Print Assumptions C11_roundtrip_GroupKeyEnvelope.

Theorem C11_getkey_roundtrip : forall g, wf_getkey g = true ->
  exists b, GetKey_pack g = Ok b /\ GetKey_unpack b = Ok g.
Proof. exact GetKey_roundtrip. Qed.
Print Assumptions C11_getkey_roundtrip.

Theorem C11_roundtrip_KDFParameters : forall name, wf_kdfp name = true ->
  exists b, KDFParameters_pack name = Ok b /\ KDFParameters_unpack b = Ok name.
Proof. exact KDFParameters_roundtrip. Qed.
Print Assumptions C11_roundtrip_KDFParameters.

Theorem C11_roundtrip_FFCDHParameters : forall p, wf_ffp p = true ->
  exists b, FFCDHParameters_pack p = Ok b /\ FFCDHParameters_unpack b = Ok p.
Proof. exact FFCDHParameters_roundtrip. Qed.
Print Assumptions C11_roundtrip_FFCDHParameters.

(* integers with leading zero bytes, for every key length: wf_ffk only asks 0 <= v < 256^key_length *)
Theorem C11_roundtrip_FFCDHKey : forall k, wf_ffk k = true ->
  exists b, FFCDHKey_pack k = Ok b /\ FFCDHKey_unpack b = Ok k.
Proof. exact FFCDHKey_roundtrip. Qed.
Print Assumptions C11_roundtrip_FFCDHKey.

Theorem C11_roundtrip_ECDHKey : forall k, wf_eck k = true ->
  exists b, ECDHKey_pack k = Ok b /\ ECDHKey_unpack b = Ok k.
Proof. exact ECDHKey_roundtrip. Qed.
Print Assumptions C11_roundtrip_ECDHKey.

(* ---- the encodings equal the independent table-driven encoder written from MS-GKDI ---- *)
Theorem C11_layout_KeyIdentifier : forall k, wf_kid k = true ->
  exists b, KeyIdentifier_pack k = Ok b /\ layout KeyIdentifier_table (spec_of_kid k) = Some b.
Proof. exact KeyIdentifier_layout. Qed.
Print Assumptions C11_layout_KeyIdentifier.

Theorem C11_layout_GroupKeyEnvelope : forall e, wf_env e = true ->
  exists b, GroupKeyEnvelope_pack e = Ok b /\ layout GroupKeyEnvelope_table (spec_of_env e) = Some b.
Proof. exact GroupKeyEnvelope_layout. Qed.
Print Assumptions C11_layout_GroupKeyEnvelope.

Theorem C11_layout_KDFParameters : forall name, wf_kdfp name = true ->
  exists b, KDFParameters_pack name = Ok b /\ layout KDFParameters_table name = Some b.
Proof. exact KDFParameters_layout. Qed.
Print Assumptions C11_layout_KDFParameters.

Theorem C11_layout_FFCDHParameters : forall p, wf_ffp p = true ->
  exists b, FFCDHParameters_pack p = Ok b /\ layout FFCDHParameters_table (spec_of_ffp p) = Some b.
Proof. exact FFCDHParameters_layout. Qed.
Print Assumptions C11_layout_FFCDHParameters.

Theorem C11_layout_FFCDHKey : forall k, wf_ffk k = true ->
  exists b, FFCDHKey_pack k = Ok b /\ layout FFCDHKey_table (spec_of_ffk k) = Some b.
Proof. exact FFCDHKey_layout. Qed.
Print Assumptions C11_layout_FFCDHKey.

Theorem C11_layout_ECDHKey : forall k, wf_eck k = true ->
  exists b, ECDHKey_pack k = Ok b /\ layout ECDHKey_table (spec_of_eck k) = Some b.
Proof. exact ECDHKey_layout. Qed.
Print Assumptions C11_layout_ECDHKey.

(* ---- the same for ALL field values, well-formed or not: the packer succeeds exactly when the independent
   encoder does, with the same bytes (res_opt maps Ok b to Some b and an exception to None). The only side
   condition is the typing invariant of uuid.UUID: a root key identifier is 16 bytes. ---- *)
Theorem C11_layout_all_KeyIdentifier : forall k, len (kid_rkid k) = 16 ->
  layout KeyIdentifier_table (spec_of_kid k) = res_opt (KeyIdentifier_pack k).
Proof. exact KeyIdentifier_layout_iff. Qed.
Print Assumptions C11_layout_all_KeyIdentifier.

Theorem C11_layout_all_GroupKeyEnvelope : forall e, len (gke_rkid e) = 16 ->
  layout GroupKeyEnvelope_table (spec_of_env e) = res_opt (GroupKeyEnvelope_pack e).
Proof. exact GroupKeyEnvelope_layout_iff. Qed.
Print Assumptions C11_layout_all_GroupKeyEnvelope.

Theorem C11_layout_all_KDFParameters : forall name, layout KDFParameters_table name = res_opt (KDFParameters_pack name).
Proof. exact KDFParameters_layout_iff. Qed.
Print Assumptions C11_layout_all_KDFParameters.

Theorem C11_layout_all_FFCDHParameters : forall p, layout FFCDHParameters_table (spec_of_ffp p) = res_opt (FFCDHParameters_pack p).
Proof. exact FFCDHParameters_layout_iff. Qed.
Print Assumptions C11_layout_all_FFCDHParameters.

Theorem C11_layout_all_FFCDHKey : forall k, layout FFCDHKey_table (spec_of_ffk k) = res_opt (FFCDHKey_pack k).
Proof. exact FFCDHKey_layout_iff. Qed.
Print Assumptions C11_layout_all_FFCDHKey.

Theorem C11_layout_all_ECDHKey : forall k, layout ECDHKey_table (spec_of_eck k) = res_opt (ECDHKey_pack k).
Proof. exact ECDHKey_layout_iff. Qed.
Print Assumptions C11_layout_all_ECDHKey.

(* ---- the decoders on arbitrary bytes: a value or ValueError, nothing else (and they terminate: the
   UTF-16 decoder never exhausts its fuel) ---- *)
Theorem C11_unpack_total_KeyIdentifier : forall data, only_value_error (KeyIdentifier_unpack data).
Proof. exact KeyIdentifier_unpack_safe. Qed.
Print Assumptions C11_unpack_total_KeyIdentifier.

Theorem C11_unpack_total_GroupKeyEnvelope : forall data, only_value_error (GroupKeyEnvelope_unpack data).
Proof. exact GroupKeyEnvelope_unpack_safe. Qed.
Print Assumptions C11_unpack_total_GroupKeyEnvelope.

Theorem C11_unpack_total_response : forall stub trailer, only_value_error (process_get_key_result stub trailer).
Proof. exact process_get_key_result_safe. Qed.
Print Assumptions C11_unpack_total_response.

(* ---- GetKey request stub = NDR64 encoding of the arguments, for every SD length (every
   residue mod 8) and a null / non-null root key pointer ---- *)
Theorem C11_getkey_ndr64 : forall g, wf_getkey g = true ->
  exists b, GetKey_pack g = Ok b /\
            ndr64_getkey_request (gk_target_sd g) (gk_root_key_id g) (gk_l0 g) (gk_l1 g) (gk_l2 g) = Some b.
Proof. exact GetKey_pack_eq_ndr64. Qed.
Print Assumptions C11_getkey_ndr64.

(* the padding kernel regenerated from GetKey.unpack aligns the pointer to 8 *)
Theorem C11_kernel_unpack_pad : forall n, 0 <= k_getkey_unpack_pad n < 8 /\ (n + k_getkey_unpack_pad n) mod 8 = 0.
Proof. exact k_getkey_unpack_pad_spec. Qed.
Print Assumptions C11_kernel_unpack_pad.

(* ---- reply: the decoder extracts the envelope bytes from the NDR64 reply for every length ---- *)
Theorem C11_reply : forall out b, u32b (len out) = true -> ndr64_getkey_reply out 0 = Some b ->
  GetKey_unpack_response b = GroupKeyEnvelope_unpack out.
Proof. exact unpack_response_ndr64. Qed.
Print Assumptions C11_reply.

Theorem C11_reply_encodable : forall out h, u32b (len out) = true -> u32b h = true ->
  exists b, ndr64_getkey_reply out h = Some b.
Proof. exact ndr64_getkey_reply_total. Qed.
Print Assumptions C11_reply_encodable.

Theorem C11_reply_hresult : forall out h b, u32b (len out) = true -> u32b h = true -> h <> 0 ->
  ndr64_getkey_reply out h = Some b -> GetKey_unpack_response b = Raise ValueError.
Proof. exact unpack_response_failure. Qed.
Print Assumptions C11_reply_hresult.

Theorem C11_reply_hresult_nobuffer : forall h b, u32b h = true -> h <> 0 ->
  ndr64_getkey_reply_fail h = Some b -> GetKey_unpack_response b = Raise ValueError.
Proof. exact unpack_response_reply_fail. Qed.
Print Assumptions C11_reply_hresult_nobuffer.

Theorem C11_reply_hresult_any : forall data, le_val (slice (Some (-4)) None data) <> 0 ->
  GetKey_unpack_response data = Raise ValueError.
Proof. exact unpack_response_hresult. Qed.
Print Assumptions C11_reply_hresult_any.

(* ---- auth padding (sec_trailer.pad_length bytes) is stripped before decoding ---- *)
Theorem C11_strip_pad : forall stub pad,
  process_get_key_result (stub ++ pad) (Some (len pad)) = GetKey_unpack_response stub.
Proof. exact strip_pad. Qed.
Print Assumptions C11_strip_pad.

Theorem C11_strip_none : forall stub, process_get_key_result stub None = GetKey_unpack_response stub.
Proof. exact no_trailer_no_strip. Qed.
Print Assumptions C11_strip_none.

(* hypotheses are satisfiable by non-trivial values *)
Example C11_wf_kid_example :
  wf_kid {| kid_version := 1; kid_flags := 4294967295; kid_l0 := 361; kid_l1 := 0; kid_l2 := 31;
            kid_rkid := repeat 7 16; kid_key_info := [1; 2; 3]; kid_domain := [100; 128512]; kid_forest := [] |} = true.
Proof. exact wf_kid_example. Qed.
Example C11_wf_env_example : exists e, wf_env e = true /\ gke_domain e = [128512; 0; 97] /\ gke_l0 e = 4294967295.
Proof. eexists. split; [exact wf_env_example|split; reflexivity]. Qed.
Example C11_wf_ffk_leading_zeros :
  wf_ffk {| ffk_key_length := 2; ffk_field_order := 65521; ffk_generator := 3; ffk_public_key := 255 |} = true /\
  FFCDHKey_pack {| ffk_key_length := 2; ffk_field_order := 65521; ffk_generator := 3; ffk_public_key := 255 |}
  = Ok [68; 72; 80; 66; 2; 0; 0; 0; 255; 241; 0; 3; 0; 255].
Proof. split; [exact wf_ffk_example|exact ffk_leading_zero_example]. Qed.
Example C11_wf_small_examples :
  wf_ffp {| ffp_key_length := 3; ffp_field_order := 65521; ffp_generator := 0 |} = true /\
  wf_kdfp [] = true /\ wf_kdfp [128512] = true.
Proof. split; [exact wf_ffp_example|split; reflexivity]. Qed.
Example C11_wf_getkey_example : exists g, wf_getkey g = true /\ len (gk_target_sd g) = 5 /\ gk_l2 g = -2147483648.
Proof. eexists. split; [exact wf_getkey_example|split; reflexivity]. Qed.

(* ---- tie to the source: the whole bodies of the fixed-layout codecs of _gkdi.py and of _blob.KeyIdentifier, regenerated
   as syntax on every run (gen/F_gkdi.v) and run in the world Flow/World_gkdi_codecs.v, ARE the model functions the
   theorems above are about -- for all arguments (records, input bytes).  `cls` is the class token where the body reads
   cls.magic, and any value where it does not use cls. ---- *)
(* imported here, not at the top: Prelude.PyAst exports Coq's String, whose `++` would capture the statements above *)
From V Require Import Prelude.PyAst Prelude.PyWorld gen.F_gkdi Flow.World_gkdi_codecs.
From V Require Import Proofs.Flow_gkdi_codecs_params Proofs.Flow_gkdi_codecs_envelope Proofs.Flow_gkdi_codecs_keyid Proofs.Flow_gkdi_codecs_getkey.

Theorem C11_flow_kdfp_pack : forall fuel name,
  run W fuel k_flow_kdfp_pack [VO (OKdfp name)] = (let* b := KDFParameters_pack name in Ok (VB b)).
Proof. exact flow_kdfp_pack. Qed.
Print Assumptions C11_flow_kdfp_pack.
Theorem C11_flow_kdfp_unpack : forall fuel c data,
  run W fuel k_flow_kdfp_unpack [c; VB data] = (let* n := KDFParameters_unpack data in Ok (VO (OKdfp n))).
Proof. exact flow_kdfp_unpack. Qed.
Print Assumptions C11_flow_kdfp_unpack.
Theorem C11_flow_kdfp_hash_algorithm : forall fuel name,
  run W fuel k_flow_kdfp_hash_algorithm [VO (OKdfp name)] = (let* h := hash_algorithm name in Ok (VO (OHash h))).
Proof. exact flow_kdfp_hash_algorithm. Qed.
Print Assumptions C11_flow_kdfp_hash_algorithm.

Theorem C11_flow_gke_pack : forall fuel e,
  run W fuel k_flow_gke_pack [VO (OEnv e)] = (let* b := GroupKeyEnvelope_pack e in Ok (VB b)).
Proof. exact flow_gke_pack. Qed.
Print Assumptions C11_flow_gke_pack.
Theorem C11_flow_gke_unpack : forall fuel data,
  run W fuel k_flow_gke_unpack [VO (OCls CGke); VB data] = (let* e := GroupKeyEnvelope_unpack data in Ok (VO (OEnv e))).
Proof. exact flow_gke_unpack. Qed.
Print Assumptions C11_flow_gke_unpack.

Theorem C11_flow_kid_pack : forall fuel k,
  run W fuel k_flow_kid_pack [VO (OKid k)] = (let* b := KeyIdentifier_pack k in Ok (VB b)).
Proof. exact flow_kid_pack. Qed.
Print Assumptions C11_flow_kid_pack.
Theorem C11_flow_kid_unpack : forall fuel data,
  run W fuel k_flow_kid_unpack [VO (OCls CKid); VB data] = (let* k := KeyIdentifier_unpack data in Ok (VO (OKid k))).
Proof. exact flow_kid_unpack. Qed.
Print Assumptions C11_flow_kid_unpack.
Theorem C11_flow_kid_is_public_key : forall fuel k,
  run W fuel k_flow_kid_is_public_key [VO (OKid k)] = Ok (VI (if kid_is_public_key k then 1 else 0)).
Proof. exact flow_kid_is_public_key. Qed.
Print Assumptions C11_flow_kid_is_public_key.

Theorem C11_flow_getkey_pack : forall fuel g,
  run W fuel k_flow_getkey_pack [VO (OGetKey g)] = (let* b := GetKey_pack g in Ok (VB b)).
Proof. exact flow_getkey_pack. Qed.
Print Assumptions C11_flow_getkey_pack.
Theorem C11_flow_getkey_unpack : forall fuel c data,
  run W fuel k_flow_getkey_unpack [c; VB data] = (let* g := GetKey_unpack data in Ok (VO (OGetKey g))).
Proof. exact flow_getkey_unpack. Qed.
Print Assumptions C11_flow_getkey_unpack.
Theorem C11_flow_getkey_unpack_response : forall fuel c data,
  run W fuel k_flow_getkey_unpack_response [c; VB data] = (let* e := GetKey_unpack_response data in Ok (VO (OEnv e))).
Proof. exact flow_getkey_unpack_response. Qed.
Print Assumptions C11_flow_getkey_unpack_response.

Theorem C11_flow_ffk_pack : forall fuel k,
  run W fuel k_flow_ffk_pack [VO (OFfk k)] = (let* b := FFCDHKey_pack k in Ok (VB b)).
Proof. exact flow_ffk_pack. Qed.
Print Assumptions C11_flow_ffk_pack.
Theorem C11_flow_ffk_unpack : forall fuel data,
  run W fuel k_flow_ffk_unpack [VO (OCls CFfk); VB data] = (let* k := FFCDHKey_unpack data in Ok (VO (OFfk k))).
Proof. exact flow_ffk_unpack. Qed.
Print Assumptions C11_flow_ffk_unpack.

Theorem C11_flow_eck_pack : forall fuel k,
  run W fuel k_flow_eck_pack [VO (OEck k)] = (let* b := ECDHKey_pack k in Ok (VB b)).
Proof. exact flow_eck_pack. Qed.
Print Assumptions C11_flow_eck_pack.
Theorem C11_flow_eck_unpack : forall fuel c data,
  run W fuel k_flow_eck_unpack [c; VB data] = (let* k := ECDHKey_unpack data in Ok (VO (OEck k))).
Proof. exact flow_eck_unpack. Qed.
Print Assumptions C11_flow_eck_unpack.
Theorem C11_flow_eck_curve_and_hash : forall fuel k,
  run W fuel k_flow_eck_curve_and_hash [VO (OEck k)] =
  (let* (c, h) := curve_and_hash k in Ok (VT [VO (OCurve c); VO (OHash h)])).
Proof. exact flow_eck_curve_and_hash. Qed.
Print Assumptions C11_flow_eck_curve_and_hash.

Theorem C11_flow_ffp_pack : forall fuel p,
  run W fuel k_flow_ffp_pack [VO (OFfp p)] = (let* b := FFCDHParameters_pack p in Ok (VB b)).
Proof. exact flow_ffp_pack. Qed.
Print Assumptions C11_flow_ffp_pack.
Theorem C11_flow_ffp_unpack : forall fuel data,
  run W fuel k_flow_ffp_unpack [VO (OCls CFfp); VB data] = (let* p := FFCDHParameters_unpack data in Ok (VO (OFfp p))).
Proof. exact flow_ffp_unpack. Qed.
Print Assumptions C11_flow_ffp_unpack.
