(* C01 -- protect then unprotect returns the plaintext. Statements only; proofs in Proofs/C01*.v.
   Model: Model/Client.v (protect_offline / unprotect_offline = ncrypt_protect_secret / ncrypt_unprotect_secret with a
   key cache and no reachable domain controller; the three os.urandom draws r1 r2 r3 are arguments) over any Crypto
   record c. Composition of C06 (blob_unpack (blob_pack b layout) = Ok b, both layouts), C07 (the GCM parameters are read
   back as the nonce), C08 (the same target SD on both sides), C09 (indices in range), C02 (every conforming covering
   envelope yields the chain key), C03 (new_kek / get_kek agree), and the laws of the primitives.

   Hypotheses, all explicit:
   * CryptoLaws c (round trip of AES-KW and AES-GCM); kdf_nonempty c: a 64-byte KDF request is not answered by the empty
     string (new_kek tests the truth value of the L2 key);
   * the root key rk is loaded under rkid (16 bytes), names a supported hash (rk_hash rk = Ok h) and the KDF algorithm
     "SP800_108_CTR_HMAC"; cache_ok: besides, the cache entry of the triple (rkid, target SD, L0) -- if there is one -- is a
     nonce-mode envelope conforming to MS-GKDI 2.2.4 for this root key (flags bit 0 clear, L1/L2 keys = chain keys).
     This cannot be dropped: C01_nonconforming_cache_entry. A cache with the root key loaded and no entry for the triple
     satisfies it (C01_cache_ok_fresh), the cache left by protect satisfies it again;
   * the SID string is accepted by the parser (C08) and its UTF-8 form is shorter than 2^32 (sid_okb);
   * 0 <= time_ns (and, for success of protect, time_ns below the year 2.5e9: beyond, L0 leaves the range KeyCache accepts);
   * len r2 = 12, len r3 = 32 (what os.urandom returns); no condition on r1 and data;
   * the wrapped key and the ciphertext are shorter than 2^32 octets (domain of the C06 theorems);
     for success of protect: the two primitive calls succeed.
   The round trip holds with the cache left by protect and with ANY other cache satisfying cache_ok (decrypting elsewhere),
   for the emitted blob and for its LAPS re-layout (ciphertext trailing the ContentInfo). *)
From Coq Require Import String.
From V Require Import Prelude.Base Prelude.PyInt Prelude.PyStr.
From V Require Import Model.Types Model.Crypto Model.Sym Model.KeyId Model.Gkdi Model.Kek Model.SecDesc Model.Blob Model.Interval Model.Client.
From V Require Import Spec.GkdiSpec Spec.KekSpec.
From V Require Import gen.K_e2e.
From V Require Import Proofs.BlobPkcs7 Proofs.BlobMain Proofs.C01Lib Proofs.C01.
From V Require Import Prelude.PyAst Prelude.PyWorld gen.F_e2e Model.CryptoWrap Flow.World_e2e Proofs.Flow_e2e_dec Proofs.Flow_e2e_enc.

Theorem C01_roundtrip_offline : forall (c : Crypto) (h : hash) (rk : root_key) (rkid : bytes) (s : sid) (sid : pystr) (time_ns l0 l1 l2 : Z),
  rk_hash rk = Ok h -> rk_kdf_alg rk = STR_KDF_ALG -> len rkid = 16 ->
  sid_parse sid = Ok s -> sid_okb sid = true ->
  0 <= time_ns -> interval_of_time_ns time_ns = (l0, l1, l2) ->
  kdf_nonempty c -> CryptoLaws c ->
  forall (cache : ccache) (r1 r2 r3 data blob : bytes) (cache1 : ccache),
  cache_ok c h rk rkid (target_sd s) l0 cache -> len r2 = 12 -> len r3 = 32 ->
  (forall kek w, derived_kek c h rk rkid (target_sd s) l0 l1 l2 r3 = Ok kek -> kw_wrap c kek r1 = Ok w -> len w < U32) ->
  (forall ct, gcm_enc c r1 r2 data = Ok ct -> len ct < U32) ->
  protect_offline c cache r1 r2 r3 data sid (Some rkid) time_ns = (Ok blob, cache1) ->
  cache_ok c h rk rkid (target_sd s) l0 cache1 /\
  (exists blob2, (let* b := blob_unpack blob in blob_pack b false) = Ok blob2) /\
  forall X, cache_ok c h rk rkid (target_sd s) l0 X ->
    fst (unprotect_offline c X blob) = Ok data /\
    forall blob2, (let* b := blob_unpack blob in blob_pack b false) = Ok blob2 -> fst (unprotect_offline c X blob2) = Ok data.
Proof. exact roundtrip_offline. Qed.
Print Assumptions C01_roundtrip_offline.

Theorem C01_protect_succeeds : forall (c : Crypto) (h : hash) (rk : root_key) (rkid : bytes) (s : sid) (sid : pystr) (time_ns l0 l1 l2 : Z),
  rk_hash rk = Ok h -> rk_kdf_alg rk = STR_KDF_ALG -> len rkid = 16 ->
  sid_parse sid = Ok s -> sid_okb sid = true ->
  0 <= time_ns -> interval_of_time_ns time_ns = (l0, l1, l2) ->
  kdf_nonempty c ->
  forall (cache : ccache) (r1 r2 r3 data : bytes),
  cache_ok c h rk rkid (target_sd s) l0 cache -> len r2 = 12 -> len r3 = 32 -> time_ns < 79164825555398400000000000 ->
  (forall kek, derived_kek c h rk rkid (target_sd s) l0 l1 l2 r3 = Ok kek -> exists w, kw_wrap c kek r1 = Ok w /\ len w < U32) ->
  (exists ct, gcm_enc c r1 r2 data = Ok ct /\ len ct < U32) ->
  exists blob cache1, protect_offline c cache r1 r2 r3 data sid (Some rkid) time_ns = (Ok blob, cache1).
Proof. exact protect_succeeds. Qed.
Print Assumptions C01_protect_succeeds.

(* the data flow of _encrypt_blob in the current source (regenerated kernel) is the one Model/Client.v encrypt_blob has:
   CEK -> content_encrypt and cek_encrypt only, nonce -> GCM parameters only, (kek, key_identifier) = key.new_kek() *)
Theorem C01_blob_flow : k_encrypt_blob_flow = true.
Proof. exact blob_flow. Qed.
Print Assumptions C01_blob_flow.

(* ---- public-key modes: ep is the public-key envelope a domain controller delivered for (l0, l1, l2); it is handed to
   _encrypt_blob (encrypt_blob); the blob is decrypted offline with any cache satisfying cache_ok. dh_env_ok / ecdh_env_ok
   (Proofs/C01.v) say that ep is what MS-GKDI prescribes for this root key: flag bit 0 set, same KDF parameters and secret
   agreement algorithm as the root key, and the public key g^y mod p (resp. y*G) of the group private key y derived from the
   chain seed key of the position. From C03_agree_dh / C03_agree_ecdh. r3 is the ephemeral private key drawn by new_kek.
   Since the repair of D16 the receiver checks the peer's DH key blob against the group's parameters and refuses the degenerate
   public values 0, 1, p - 1: dh_env_ok also says that ep carries the root key's secret agreement parameters, that these are
   the group (kl, p, g) and that the group public value is a valid element (Spec/KekSpec.v dh_pub_valid), cache_ok says that
   cached envelopes carry the root key's parameters (eo_sparams), and the ephemeral public value g^r3 mod p must be valid. *)
Theorem C01_roundtrip_pubkey : forall (c : Crypto) (h : hash) (rk : root_key) (rkid : bytes) (s : sid) (sid : pystr) (l0 l1 l2 : Z),
  rk_hash rk = Ok h -> rk_kdf_alg rk = STR_KDF_ALG -> len rkid = 16 -> sid_parse sid = Ok s -> sid_okb sid = true ->
  0 <= l0 <= 2147483647 -> 0 <= l1 <= 31 -> 0 <= l2 <= 31 -> CryptoLaws c ->
  forall (ep : envelope) (seed : bytes) (kl p g : Z) (r1 r2 r3 data blob : bytes),
  derived_seed c h rk rkid (target_sd s) l0 l1 l2 = Ok seed -> dh_env_ok c h rk rkid l0 l1 l2 ep seed kl p g ->
  wfb r3 = true -> dh_pub_valid p (dh_public p g (OS2IP r3)) -> 8 + 3 * kl < U32 -> len r2 = 12 ->
  (forall kek kid w, new_kek_rnd c ep r3 = Ok (kek, kid) -> kw_wrap c kek r1 = Ok w -> len w < U32) ->
  (forall ct, gcm_enc c r1 r2 data = Ok ct -> len ct < U32) ->
  encrypt_blob c r1 r2 r3 data ep sid = Ok blob ->
  (exists blob2, (let* b := blob_unpack blob in blob_pack b false) = Ok blob2) /\
  forall X, cache_ok c h rk rkid (target_sd s) l0 X ->
    fst (unprotect_offline c X blob) = Ok data /\
    forall blob2, (let* b := blob_unpack blob in blob_pack b false) = Ok blob2 -> fst (unprotect_offline c X blob2) = Ok data.
Proof. exact roundtrip_pubkey_dh. Qed.
Print Assumptions C01_roundtrip_pubkey.

Theorem C01_roundtrip_pubkey_ecdh : forall (c : Crypto) (h : hash) (rk : root_key) (rkid : bytes) (s : sid) (sid : pystr) (l0 l1 l2 : Z),
  rk_hash rk = Ok h -> rk_kdf_alg rk = STR_KDF_ALG -> len rkid = 16 -> sid_parse sid = Ok s -> sid_okb sid = true ->
  0 <= l0 <= 2147483647 -> 0 <= l1 <= 31 -> 0 <= l2 <= 31 -> CryptoLaws c ->
  forall (ep : envelope) (seed : bytes) (alg : pystr) (algz : bytes) (cv : curve) (kl Ax Ay : Z) (r1 r2 r3 data blob : bytes),
  derived_seed c h rk rkid (target_sd s) l0 l1 l2 = Ok seed -> ecdh_env_ok c h rk rkid l0 l1 l2 ep seed alg algz cv kl Ax Ay -> len r2 = 12 ->
  (forall kek kid, new_kek_rnd c ep r3 = Ok (kek, kid) -> len (kid_key_info kid) < U32) ->
  (forall kek kid w, new_kek_rnd c ep r3 = Ok (kek, kid) -> kw_wrap c kek r1 = Ok w -> len w < U32) ->
  (forall ct, gcm_enc c r1 r2 data = Ok ct -> len ct < U32) ->
  encrypt_blob c r1 r2 r3 data ep sid = Ok blob ->
  (exists blob2, (let* b := blob_unpack blob in blob_pack b false) = Ok blob2) /\
  forall X, cache_ok c h rk rkid (target_sd s) l0 X ->
    fst (unprotect_offline c X blob) = Ok data /\
    forall blob2, (let* b := blob_unpack blob in blob_pack b false) = Ok blob2 -> fst (unprotect_offline c X blob2) = Ok data.
Proof. exact roundtrip_pubkey_ecdh. Qed.
Print Assumptions C01_roundtrip_pubkey_ecdh.

(* a cache with the root key loaded and no entry for the triple *)
Theorem C01_cache_ok_fresh : forall c h rk rkid sd l0 cache, cc_find_root (cc_roots cache) rkid = Some rk ->
  cc_find_seed (cc_seeds cache) (rkid, sd, l0) = None -> cache_ok c h rk rkid sd l0 cache.
Proof. exact cache_ok_fresh. Qed.
Print Assumptions C01_cache_ok_fresh.

(* for an accepted SID string the hypothesis sid_okb is just "shorter than 2^32 characters" (the string is ASCII) *)
Theorem C01_sid_okb : forall str s, sid_parse str = Ok s -> len str < 4294967296 -> sid_okb str = true.
Proof. exact sid_parse_okb. Qed.
Print Assumptions C01_sid_okb.

(* the symbolic instance used for the examples: sym guarded by "inputs are byte strings shorter than 2^32" (where it is
   sym: symg_is_sym) satisfies both law records as stated; the unguarded sym does not (4-byte length prefixes) *)
Theorem C01_symg_laws : CryptoLaws symg /\ IdealLaws symg /\ kdf_nonempty symg.
Proof. exact (conj symg_laws (conj symg_ideal symg_kdf_nonempty)). Qed.
Print Assumptions C01_symg_laws.
Theorem C01_sym_not_ideal : ~ IdealLaws sym.
Proof. exact sym_not_ideal. Qed.
Print Assumptions C01_sym_not_ideal.

(* ---- the hypotheses are satisfiable (each instance is obtained by applying the two theorems above to values for
   which every hypothesis is checked): empty plaintext; 70 000 bytes with a SID of 15 sub-authorities (values 0 and
   2^32 - 1) one tick before an L0 boundary; first tick of the next L0 interval. In each: protect succeeds, the blob and
   its trailing-ciphertext re-layout decrypt to the plaintext with the cache left by protect and with the original cache *)(* ---- tie to the source: the whole bodies of _crypto.cek_decrypt, _crypto.content_decrypt and _client._decrypt_blob,
   regenerated as syntax on every run (gen/F_e2e.v) and run in the world Flow/World_e2e.v, ARE the model functions the
   theorems above are about ---- *)
Theorem C01_flow_cek_decrypt : forall c fuel a p kek v,
  run (W c) fuel k_flow_cek_decrypt [VO (OOid a); vopt_bytes p; VB kek; VB v] = (let* b := cek_decrypt c a p kek v in Ok (VB b)).
Proof. exact flow_cek_decrypt. Qed.
Print Assumptions C01_flow_cek_decrypt.
Theorem C01_flow_content_decrypt : forall c fuel a p cek v,
  run (W c) fuel k_flow_content_decrypt [VO (OOid a); vopt_bytes p; VB cek; VB v] = (let* b := content_decrypt c a p cek v in Ok (VB b)).
Proof. exact flow_content_decrypt. Qed.
Print Assumptions C01_flow_content_decrypt.
Theorem C01_flow_decrypt_blob : forall c fuel b key,
  run (W c) fuel k_flow_decrypt_blob [VO (OBlob b); VO (OEnv key)] = (let* x := decrypt_blob c b key in Ok (VB x)).
Proof. exact flow_decrypt_blob. Qed.
Print Assumptions C01_flow_decrypt_blob.
Theorem C01_flow_cek_encrypt : forall c fuel a p kek v,
  run (W c) fuel k_flow_cek_encrypt [VO (OOid a); vopt_bytes p; VB kek; VB v] = (let* b := cek_encrypt c a p kek v in Ok (VB b)).
Proof. exact flow_cek_encrypt. Qed.
Print Assumptions C01_flow_cek_encrypt.
Theorem C01_flow_content_encrypt : forall c fuel a p cek v,
  run (W c) fuel k_flow_content_encrypt [VO (OOid a); vopt_bytes p; VB cek; VB v] = (let* b := content_encrypt c a p cek v in Ok (VB b)).
Proof. exact flow_content_encrypt. Qed.
Print Assumptions C01_flow_content_encrypt.


Example C01_example_empty : example_statement ex_sid ex_time [].
Proof. exact example_empty. Qed.
Example C01_example_large : example_statement ex_sid15 ex_time_l0 (repeat 9 70000).
Proof. exact example_large. Qed.
Example C01_example_next_l0 : example_statement ex_sid (ex_time_l0 + 100) [0; 255].
Proof. exact example_next_l0. Qed.
Example C01_example_intervals : interval_of_time_ns ex_time = (361, 31, 23) /\ interval_of_time_ns ex_time_l0 = (361, 31, 31) /\
  interval_of_time_ns (ex_time_l0 + 100) = (362, 0, 0).
Proof. exact ex_intervals. Qed.

(* the same root key loaded is not enough when the cache holds a non-conforming entry for the triple *)
Example C01_nonconforming_cache_entry :
  let cache2 := cc_set_seed ex_cache (ex_rkid, target_sd (parsed ex_sid), 361) (bad_entry 361) in
  cc_find_root (cc_roots cache2) ex_rkid = Some ex_rk /\
  match protect_offline symg ex_cache ex_r1 ex_r2 ex_r3 [1; 2; 3] ex_sid (Some ex_rkid) ex_time with
  | (Ok blob, cache1) => fst (unprotect_offline symg cache1 blob) = Ok [1; 2; 3] /\ fst (unprotect_offline symg cache2 blob) = Raise InvalidUnwrap
  | _ => False
  end.
Proof. exact nonconforming_cache_entry. Qed.

(* public-key modes: DH group p = 65521, g = 17 with 2-byte fields; ECDH_P256 key structure over the toy curve of Model/Sym.v.
   All hypotheses of C01_roundtrip_pubkey / _ecdh hold of these values (ex_dh_env_ok, ex_ecdh_env_ok), encrypt succeeds, and the
   blob and its re-layout decrypt offline *)
Example C01_example_pubkey_dh : exists blob,
  encrypt_blob symg ex_r1 ex_r2 ex_r3 [1; 2; 3] ex_ep_dh ex_sid = Ok blob /\
  fst (unprotect_offline symg ex_cache blob) = Ok [1; 2; 3] /\
  exists blob2, (let* b := blob_unpack blob in blob_pack b false) = Ok blob2 /\ fst (unprotect_offline symg ex_cache blob2) = Ok [1; 2; 3].
Proof. exact example_pubkey_dh. Qed.
(* the validity hypotheses hold of that instance: the ephemeral public value (the group's is a field of ex_dh_env_ok) *)
Example C01_example_pubkey_dh_valid : dh_pub_valid 65521 (dh_public 65521 17 (OS2IP ex_r3)).
Proof. exact ex_r3_pub_valid. Qed.
Example C01_example_pubkey_ecdh : exists blob,
  encrypt_blob symg ex_r1 ex_r2 ex_r3 [1; 2; 3] ex_ep_ecdh ex_sid = Ok blob /\
  fst (unprotect_offline symg ex_cacheE blob) = Ok [1; 2; 3] /\
  exists blob2, (let* b := blob_unpack blob in blob_pack b false) = Ok blob2 /\ fst (unprotect_offline symg ex_cacheE blob2) = Ok [1; 2; 3].
Proof. exact example_pubkey_ecdh. Qed.

(* ---- more of the source tied to the model (flows): cek_generate, _encrypt_blob, kdf, kdf_concat, _get_protection_gke_from_cache.
   WR c rnd_cek rnd_iv rnd_kek time_ns is the world in which AESGCM.generate_key(256), os.urandom(12), the os.urandom inside
   key.new_kek() and time.time_ns() return these values (Flow/World_e2e.v). *)
From V Require Import Proofs.Flow_e2e_kdf Proofs.Flow_e2e_gke.
Theorem C01_flow_cek_generate : forall c rnd_cek rnd_iv rnd_kek time_ns fuel a,
  run (WR c rnd_cek rnd_iv rnd_kek time_ns) fuel k_flow_cek_generate [VO (OOid a)]
  = (let* (k, iv) := cek_generate a rnd_cek rnd_iv in Ok (VT [VB k; VB iv])).
Proof. exact flow_cek_generate. Qed.
Print Assumptions C01_flow_cek_generate.
Theorem C01_flow_encrypt_blob : forall c rnd_cek rnd_iv rnd_kek time_ns fuel data key sid,
  run (WR c rnd_cek rnd_iv rnd_kek time_ns) fuel k_flow_encrypt_blob [VB data; VO (OEnv key); VO (OSid sid)]
  = (let* b := encrypt_blob c rnd_cek rnd_iv rnd_kek data key sid in Ok (VB b)).
Proof. exact flow_encrypt_blob. Qed.
Print Assumptions C01_flow_encrypt_blob.
(* _crypto.kdf / kdf_concat are the `kdf` / `concat_kdf` fields of the Crypto record (KBKDFHMAC has a meaning in the world only as
   counter mode, rlen = llen = 4, counter before the fixed input, fixed = None) *)
Theorem C01_flow_kdf : forall c fuel h secret label context length,
  run (W c) fuel k_flow_kdf [VO (OHash h); VB secret; VB label; VB context; VI length]
  = Ok (VB (kdf c h secret label context length)).
Proof. exact flow_kdf. Qed.
Print Assumptions C01_flow_kdf.
Theorem C01_flow_kdf_concat : forall c fuel h secret algorithm_id party_uinfo party_vinfo length,
  run (W c) fuel k_flow_kdf_concat [VO (OHash h); VB secret; VB algorithm_id; VB party_uinfo; VB party_vinfo; VI length]
  = Ok (VB (concat_kdf c h secret (algorithm_id ++ party_uinfo ++ party_vinfo)%list length)).
Proof. exact flow_kdf_concat. Qed.
Print Assumptions C01_flow_kdf_concat.
(* the returned envelope (the cache after the call is mutated in place by the source and is not a return value) *)
Theorem C01_flow_get_protection_gke_from_cache : forall c rnd_cek rnd_iv rnd_kek time_ns fuel rkid target_sd cache,
  run (WR c rnd_cek rnd_iv rnd_kek time_ns) fuel k_flow_get_protection_gke_from_cache [vopt_uuid rkid; VB target_sd; VO (OCache cache)]
  = (let* (e, _) := protection_gke_from_cache c cache rkid target_sd time_ns in Ok (vopt_env e)).
Proof. exact flow_get_protection_gke_from_cache. Qed.
Print Assumptions C01_flow_get_protection_gke_from_cache.

(* ---- the four PUBLIC functions, sync and ASYNC (gen/F_cache.v), run offline in the concrete world Flow/World_cache.v (both network
   callees raise NeedNetwork): their regenerated bodies compute protect_offline / unprotect_offline - value and cache afterwards -
   so the theorems above are about the source, for the async functions as for the sync ones; and the bodies round-trip.
   (Imports here: Flow/World_cache.v and Flow/World_e2e.v share constructor names; from here on they are World_cache's.) ---- *)
From V Require Import Prelude.PyAstMut gen.F_cache Flow.World_cache Proofs.Flow_cache_public Proofs.Flow_cache_c01.
Theorem C01_flow_unprotect_offline : forall c r1 r2 r3 ns fuel data server u p a co,
  value_and_param 5 (run_mut (World_cache.MW c r1 r2 r3 ns no_dns no_dc) fuel k_flow_ncrypt_unprotect_secret
                       [VB data; World_cache.vstr_opt server; u; p; a; World_cache.vcache_opt co])
  = lift2 (unprotect_offline c (cache_or_new co) data).
Proof. exact flow_unprotect_offline. Qed.
Print Assumptions C01_flow_unprotect_offline.
Theorem C01_flow_async_unprotect_offline : forall c r1 r2 r3 ns fuel data server u p a co,
  value_and_param 5 (run_mut (World_cache.MW c r1 r2 r3 ns no_dns no_dc) fuel k_flow_async_ncrypt_unprotect_secret
                       [VB data; World_cache.vstr_opt server; u; p; a; World_cache.vcache_opt co])
  = lift2 (unprotect_offline c (cache_or_new co) data).
Proof. exact flow_async_unprotect_offline. Qed.
Print Assumptions C01_flow_async_unprotect_offline.
Theorem C01_flow_protect_offline : forall c r1 r2 r3 ns fuel data sid rkid server dom u p a co,
  value_and_param 8 (run_mut (World_cache.MW c r1 r2 r3 ns no_dns no_dc) fuel k_flow_ncrypt_protect_secret
                       [VB data; VS sid; World_cache.vbytes_opt rkid; World_cache.vstr_opt server; dom; u; p; a; World_cache.vcache_opt co])
  = lift2 (protect_offline c (cache_or_new co) r1 r2 r3 data sid rkid ns).
Proof. exact flow_protect_offline. Qed.
Print Assumptions C01_flow_protect_offline.
Theorem C01_flow_async_protect_offline : forall c r1 r2 r3 ns fuel data sid rkid server dom u p a co,
  value_and_param 8 (run_mut (World_cache.MW c r1 r2 r3 ns no_dns no_dc) fuel k_flow_async_ncrypt_protect_secret
                       [VB data; VS sid; World_cache.vbytes_opt rkid; World_cache.vstr_opt server; dom; u; p; a; World_cache.vcache_opt co])
  = lift2 (protect_offline c (cache_or_new co) r1 r2 r3 data sid rkid ns).
Proof. exact flow_async_protect_offline. Qed.
Print Assumptions C01_flow_async_protect_offline.

(* C01_roundtrip_offline for the regenerated ASYNC functions: if async_ncrypt_protect_secret(data, sid, root_key_identifier=rkid,
   cache=cache) returns `blob` (leaving cache1), then cache1 is again cache_ok and async_ncrypt_unprotect_secret(blob, cache=X) returns
   `data` for every cache_ok X, whatever the other arguments, draws and clock of the second call *)
Theorem C01_flow_async_roundtrip : forall (c : Crypto) (h : hash) (rk : root_key) (rkid : bytes) (s : sid) (sid : pystr) (time_ns l0 l1 l2 : Z),
  rk_hash rk = Ok h -> rk_kdf_alg rk = STR_KDF_ALG -> len rkid = 16 ->
  sid_parse sid = Ok s -> sid_okb sid = true ->
  0 <= time_ns -> interval_of_time_ns time_ns = (l0, l1, l2) ->
  kdf_nonempty c -> CryptoLaws c ->
  forall (cache : ccache) (r1 r2 r3 data blob : bytes) (cache1 : ccache) fuel server dom u p a,
  cache_ok c h rk rkid (target_sd s) l0 cache -> len r2 = 12 -> len r3 = 32 ->
  (forall kek w, derived_kek c h rk rkid (target_sd s) l0 l1 l2 r3 = Ok kek -> kw_wrap c kek r1 = Ok w -> len w < U32) ->
  (forall ct, gcm_enc c r1 r2 data = Ok ct -> len ct < U32) ->
  value_and_param 8 (run_mut (World_cache.MW c r1 r2 r3 time_ns no_dns no_dc) fuel k_flow_async_ncrypt_protect_secret
                       [VB data; VS sid; VB rkid; World_cache.vstr_opt server; dom; u; p; a; VO (World_cache.OCache cache)])
  = Ok (VB blob, VO (World_cache.OCache cache1)) ->
  cache_ok c h rk rkid (target_sd s) l0 cache1 /\
  forall X, cache_ok c h rk rkid (target_sd s) l0 X ->
    forall q1 q2 q3 ns' fuel' server' u' p' a',
    value_and_param 5 (run_mut (World_cache.MW c q1 q2 q3 ns' no_dns no_dc) fuel' k_flow_async_ncrypt_unprotect_secret
                         [VB blob; World_cache.vstr_opt server'; u'; p'; a'; VO (World_cache.OCache X)])
    = Ok (VB data, VO (World_cache.OCache (snd (unprotect_offline c X blob)))).
Proof. exact flow_roundtrip_async. Qed.
Print Assumptions C01_flow_async_roundtrip.
Theorem C01_flow_sync_roundtrip : forall (c : Crypto) (h : hash) (rk : root_key) (rkid : bytes) (s : sid) (sid : pystr) (time_ns l0 l1 l2 : Z),
  rk_hash rk = Ok h -> rk_kdf_alg rk = STR_KDF_ALG -> len rkid = 16 ->
  sid_parse sid = Ok s -> sid_okb sid = true ->
  0 <= time_ns -> interval_of_time_ns time_ns = (l0, l1, l2) ->
  kdf_nonempty c -> CryptoLaws c ->
  forall (cache : ccache) (r1 r2 r3 data blob : bytes) (cache1 : ccache) fuel server dom u p a,
  cache_ok c h rk rkid (target_sd s) l0 cache -> len r2 = 12 -> len r3 = 32 ->
  (forall kek w, derived_kek c h rk rkid (target_sd s) l0 l1 l2 r3 = Ok kek -> kw_wrap c kek r1 = Ok w -> len w < U32) ->
  (forall ct, gcm_enc c r1 r2 data = Ok ct -> len ct < U32) ->
  value_and_param 8 (run_mut (World_cache.MW c r1 r2 r3 time_ns no_dns no_dc) fuel k_flow_ncrypt_protect_secret
                       [VB data; VS sid; VB rkid; World_cache.vstr_opt server; dom; u; p; a; VO (World_cache.OCache cache)])
  = Ok (VB blob, VO (World_cache.OCache cache1)) ->
  cache_ok c h rk rkid (target_sd s) l0 cache1 /\
  forall X, cache_ok c h rk rkid (target_sd s) l0 X ->
    forall q1 q2 q3 ns' fuel' server' u' p' a',
    value_and_param 5 (run_mut (World_cache.MW c q1 q2 q3 ns' no_dns no_dc) fuel' k_flow_ncrypt_unprotect_secret
                         [VB blob; World_cache.vstr_opt server'; u'; p'; a'; VO (World_cache.OCache X)])
    = Ok (VB data, VO (World_cache.OCache (snd (unprotect_offline c X blob)))).
Proof. exact flow_roundtrip_sync. Qed.
Print Assumptions C01_flow_sync_roundtrip.
