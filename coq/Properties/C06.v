(* C06 -- canonical CMS blob; encode/decode inverse. Statements only (filled in as the proofs land). *)
From V Require Import Prelude.Base Model.Asn1 Model.Pkcs7 Model.Blob.

Theorem C06_oids : oid_enveloped_data = [1; 2; 840; 113549; 1; 7; 3] /\ oid_data = [1; 2; 840; 113549; 1; 7; 1] /\
  oid_ms_software = [1; 3; 6; 1; 4; 1; 311; 74; 1] /\ oid_pd_sid = [1; 3; 6; 1; 4; 1; 311; 74; 1; 1] /\
  oid_aes256_wrap = [2; 16; 840; 1; 101; 3; 4; 1; 45] /\ oid_aes256_gcm = [2; 16; 840; 1; 101; 3; 4; 1; 46].
Proof. repeat split; reflexivity. Qed.
Print Assumptions C06_oids.
