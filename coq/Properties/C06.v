(* C06 -- emitted blobs are canonical CMS in Windows' layout; encode/decode are inverse. Statements only.
   Models: Model/Pkcs7.v, Model/Blob.v (on Model/Asn1.v, Model/KeyId.v). wf_blob is boolean: wf_kid for the
   key identifier (32-bit fields, 16-byte root key id, encodable names), encodable SID, OIDs with first arc
   <= 2 and second arc <= 39 (what the writer accepts), every field shorter than 2^32 octets, optional
   parameters None or non-empty (the code tests truthiness, so present-but-empty is written as absent). *)
From V Require Import Prelude.Base Prelude.PyInt Prelude.PySlice Prelude.PyStr.
From V Require Import gen.K_asn1 gen.C_asn1 Model.Types Model.KeyId Model.Asn1 Model.Pkcs7 Model.Blob Spec.DerSpec Spec.CmsSpec.
From V Require Import Proofs.BlobLib Proofs.BlobPkcs7 Proofs.GkdiKeyId Proofs.BlobMain Proofs.BlobCms.

Theorem C06_oids : oid_enveloped_data = [1; 2; 840; 113549; 1; 7; 3] /\ oid_data = [1; 2; 840; 113549; 1; 7; 1] /\
  oid_ms_software = [1; 3; 6; 1; 4; 1; 311; 74; 1] /\ oid_pd_sid = [1; 3; 6; 1; 4; 1; 311; 74; 1; 1] /\
  oid_aes256_wrap = [2; 16; 840; 1; 101; 3; 4; 1; 45] /\ oid_aes256_gcm = [2; 16; 840; 1; 101; 3; 4; 1; 46].
Proof. repeat split; reflexivity. Qed.
Print Assumptions C06_oids.

(* decode (encode x) = x for every well-formed blob value, in-envelope (env = true) and trailing-ciphertext
   (env = false) layouts; the ContentInfo part is one TLV whose header gives its exact length *)
Theorem C06_decode_encode : forall b env, wf_blob b = true ->
  exists ci, blob_pack b env = Ok (ci ++ trailing b env) /\ blob_unpack (ci ++ trailing b env) = Ok b /\
    (exists h, forall rest, peek_header (ci ++ rest) = Ok h /\ h_tlen h + h_len h = len ci) /\ len ci < BIG.
Proof. exact blob_roundtrip. Qed.
Print Assumptions C06_decode_encode.

Theorem C06_reencode : forall b env, wf_blob b = true ->
  exists bs b', blob_pack b env = Ok bs /\ blob_unpack bs = Ok b' /\ blob_pack b' env = Ok bs.
Proof. exact blob_reencode. Qed.
Print Assumptions C06_reencode.

(* versions 2 and 4, the [2] KEKRecipientInfo choice, [0] content tags, 12-byte nonce and ICV length 16 are the
   values in the current source (regenerated kernels / constants) *)
Theorem C06_constants : k_blob_ed_version = 2 /\ k_blob_kri_version = 4 /\ c_kekri_choice = 2 /\
  k_ci_content_tagnum = 0 /\ k_ci_content_tagnum_r = 0 /\ k_eci_content_tagnum = 0 /\ k_eci_content_tagnum_r = 0 /\
  k_gcm_nonce_len = 12 /\ k_gcm_icv_len = 16 /\ (forall v, k_ed_version_bad v = negb (v =? 2)).
Proof. repeat split; reflexivity. Qed.
Print Assumptions C06_constants.

(* pack = the RFC 5652 template of Spec/CmsSpec.v (one ContentInfo; EnvelopedData version 2 with exactly one
   KEKRecipientInfo version 4 whose KEK identifier carries the protection-descriptor attribute) followed by the
   ciphertext in the trailing layout. kb = packed key identifier, sc = UTF-8 of the SID, d1/d2 = DER of the OIDs *)
Theorem C06_is_cms : forall b env kb sc d1 d2, wf_blob b = true ->
  KeyIdentifier_pack (b_key_identifier b) = Ok kb -> utf8_encode (b_sid b) = Ok sc ->
  der_oid (b_enc_cek_algorithm b) d1 -> der_oid (b_enc_content_algorithm b) d2 ->
  exists ci, blob_pack b env = Ok (ci ++ trailing b env) /\
    encode (cms_tree kb sc (b_enc_cek b) d1 (b_enc_cek_parameters b) (if env then b_enc_content b else []) d2 (b_enc_content_parameters b)) = Ok ci.
Proof. exact blob_is_cms. Qed.
Print Assumptions C06_is_cms.

(* what _encrypt_blob emits: AES256-wrap without parameters, AES256-GCM with SEQUENCE { OCTET STRING nonce, INTEGER 16 },
   content in the envelope; the bytes are the emitted template, and the strict DER reader of C07 reads them back
   as exactly that tree *)
Theorem C06_emitted_template : forall kid sid iv cek content, wf_emit kid sid iv cek content = true ->
  exists b kb sc ci, encrypt_blob_fields kid sid iv cek content = Ok b /\ wf_blob b = true /\
    KeyIdentifier_pack kid = Ok kb /\ utf8_encode sid = Ok sc /\
    b_enc_cek_algorithm b = oid_aes256_wrap /\ b_enc_cek_parameters b = None /\ b_enc_content_algorithm b = oid_aes256_gcm /\
    blob_pack b true = Ok ci /\ encode (emitted_tree kb sc cek iv content) = Ok ci /\
    strict_parse ci = Some [emitted_tree kb sc cek iv content].
Proof. exact emitted_is_template. Qed.
Print Assumptions C06_emitted_template.

(* every well-formed blob value without algorithm parameters, both layouts: the ContentInfo part is read back by
   the strict DER reader as exactly the template (one KEKRecipientInfo, versions 2 and 4, ...) *)
Theorem C06_strict_parse : forall b env kb sc d1 d2, wf_blob b = true -> wfb_blob b = true ->
  b_enc_cek_parameters b = None -> b_enc_content_parameters b = None ->
  KeyIdentifier_pack (b_key_identifier b) = Ok kb -> utf8_encode (b_sid b) = Ok sc ->
  der_oid (b_enc_cek_algorithm b) d1 -> der_oid (b_enc_content_algorithm b) d2 ->
  exists ci, blob_pack b env = Ok (ci ++ trailing b env) /\
    strict_parse ci = Some [cms_tree kb sc (b_enc_cek b) d1 None (if env then b_enc_content b else []) d2 None].
Proof. exact blob_strict_parse. Qed.
Print Assumptions C06_strict_parse.

(* the hypotheses are satisfiable: 70 000-byte content, non-BMP forest name, both layouts *)
Definition ex_kid : key_identifier :=
  {| kid_version := 1; kid_flags := 3; kid_l0 := 361; kid_l1 := 16; kid_l2 := 3; kid_rkid := repeat 7 16;
     kid_key_info := repeat 1 104; kid_domain := [100; 111; 109]; kid_forest := [128273; 46; 120] |}.
Definition ex_blob : blob :=
  {| b_key_identifier := ex_kid; b_sid := [83; 45; 49; 45; 49; 45; 48]; b_enc_cek := repeat 9 40;
     b_enc_cek_algorithm := oid_aes256_wrap; b_enc_cek_parameters := None; b_enc_content := repeat 5 70000;
     b_enc_content_algorithm := oid_aes256_gcm; b_enc_content_parameters := Some [48; 3; 2; 1; 16] |}.
Example C06_ex_wf : wf_blob ex_blob = true /\ wf_emit ex_kid [83; 45; 49] (repeat 3 12) (repeat 9 40) (repeat 5 300) = true.
Proof. split; vm_compute; reflexivity. Qed.
Example C06_ex_layouts :
  (match blob_pack ex_blob true with Ok bs => len bs | Raise _ => -1 end) = 70361 /\
  (match blob_pack ex_blob false with Ok bs => len bs | Raise _ => -1 end) = 70350.
Proof. split; vm_compute; reflexivity. Qed.

(* ---- what the library itself emits (AES256-wrap without parameters, AES256-GCM with the DER GCM parameters), BOTH layouts:
   in-envelope (env = true) and trailing ciphertext (env = false, the LAPS shape). The ContentInfo part is read back by the strict
   DER reader as exactly the emitted template. Caller-supplied opaque parameters: see PARTIAL of the check module. ---- *)
From V Require Import gen.K_e2e Model.Crypto Model.Sym Model.Kek Model.CryptoWrap Model.Client Proofs.BlobGcm.
Theorem C06_emitted_strict_parse : forall kid sid iv cek content env, wf_emit kid sid iv cek content = true ->
  exists b kb sc ci, encrypt_blob_fields kid sid iv cek content = Ok b /\ wf_blob b = true /\
    KeyIdentifier_pack kid = Ok kb /\ utf8_encode sid = Ok sc /\
    blob_pack b env = Ok (ci ++ trailing b env) /\
    encode (emitted_tree kb sc cek iv (if env then content else [])) = Ok ci /\
    strict_parse ci = Some [emitted_tree kb sc cek iv (if env then content else [])].
Proof. exact emitted_strict_parse. Qed.
Print Assumptions C06_emitted_strict_parse.

(* the nonce: for every output of _encrypt_blob whose second draw has the length os.urandom is asked for (k_gcm_nonce_len, the
   regenerated kernel; the draw itself is the stated assumption about os.urandom) the GCM parameters are exactly
   30 11 04 0C <draw> 02 01 10 = SEQUENCE { OCTET STRING draw (12 octets), INTEGER 16 }, and -- the outputs of the crypto
   primitives being bytes objects below 4 GiB (wf_emit) -- the strict DER reader shows that 12-octet OCTET STRING *)
Theorem C06_emitted_nonce : forall c r1 r2 r3 data key sid bs,
  encrypt_blob c r1 r2 r3 data key sid = Ok bs -> len r2 = k_gcm_nonce_len ->
  exists kid enc_cek enc_content b,
    encrypt_blob_fields kid sid r2 enc_cek enc_content = Ok b /\ blob_pack b true = Ok bs /\
    b_enc_cek_algorithm b = oid_aes256_wrap /\ b_enc_cek_parameters b = None /\ b_enc_content_algorithm b = oid_aes256_gcm /\
    b_enc_content_parameters b = Some ([48; 17; 4; 12] ++ r2 ++ [2; 1; 16]) /\
    encode (gcm_params_tree r2) = Ok ([48; 17; 4; 12] ++ r2 ++ [2; 1; 16]) /\ len r2 = 12 /\
    (wf_emit kid sid r2 enc_cek enc_content = true ->
     exists kb sc, KeyIdentifier_pack kid = Ok kb /\ utf8_encode sid = Ok sc /\
                   strict_parse bs = Some [emitted_tree kb sc enc_cek r2 enc_content]).
Proof. exact emitted_nonce. Qed.
Print Assumptions C06_emitted_nonce.

(* no other nonce length is emitted: in the current source (regenerated kernels) cek_generate draws AESGCM.generate_key(256) then
   os.urandom(12) and returns both unmodified; in _encrypt_blob (cek, cek_iv) = cek_generate(..) and cek_iv goes (only) into
   parameters.write_octet_string, followed by write_integer(16) *)
Theorem C06_nonce_source : k_cek_generate_draws = (256, k_gcm_nonce_len) /\ k_encrypt_blob_flow = true /\
  k_gcm_nonce_len = 12 /\ k_gcm_icv_len = 16.
Proof. exact nonce_source. Qed.
Print Assumptions C06_nonce_source.

(* the hypotheses are satisfiable: an _encrypt_blob run under the symbolic crypto (symmetric-key envelope), 12-octet draw *)
Definition ex_emit_env : envelope :=
  {| gke_version := 1; gke_flags := 0; gke_l0 := 361; gke_l1 := 31; gke_l2 := 23; gke_rkid := repeat 5 16;
     gke_kdf_alg := STR_KDF_ALG;
     gke_kdf_params := [0; 0; 0; 0; 1; 0; 0; 0; 14; 0; 0; 0; 0; 0; 0; 0; 83; 0; 72; 0; 65; 0; 53; 0; 49; 0; 50; 0; 0; 0];
     gke_secret_alg := [68; 72]; gke_secret_params := []; gke_priv_len := 512; gke_pub_len := 2048;
     gke_domain := [100]; gke_forest := [102; 46; 103]; gke_l1_key := []; gke_l2_key := repeat 9 64 |}.
Definition ex_emit_sid : pystr := [83; 45; 49; 45; 53; 45; 50; 49; 45; 49; 45; 50; 45; 51; 45; 53; 48; 48].
Definition ex_emit_parts : option (key_identifier * bytes * bytes) :=
  match gcm_parameters (repeat 2 12), new_kek_rnd sym ex_emit_env (repeat 3 32) with
  | Ok p, Ok (kek, kid) =>
    match content_encrypt sym oid_aes256_gcm (Some p) (repeat 1 32) [1; 2; 3], cek_encrypt sym oid_aes256_wrap None kek (repeat 1 32) with
    | Ok ect, Ok ec => Some (kid, ec, ect)
    | _, _ => None
    end
  | _, _ => None
  end.
Example C06_emitted_nonce_example :
  len (repeat 2 12) = k_gcm_nonce_len /\
  (match encrypt_blob sym (repeat 1 32) (repeat 2 12) (repeat 3 32) [1; 2; 3] ex_emit_env ex_emit_sid with
   | Ok bs => len bs | Raise _ => -1 end) = 509 /\
  match ex_emit_parts with
  | Some (kid, ec, ect) => wf_emit kid ex_emit_sid (repeat 2 12) ec ect = true
  | None => False
  end.
Proof. split; [|split]; vm_compute; reflexivity. Qed.

(* ---- flows: the regenerated syntax of the CMS layer (gen/F_asn1.v, part "cms"), run by Prelude/PyAstMut.v in the world
   Flow/World_cms.v, computes the model functions the theorems above are about (Proofs/Flow_cms_unpack.v, Flow_cms_pack.v).
   `value_of` = the returned value; `packed self t ws n` = returns None and leaves the writer with node n appended. *)
From V Require Import Prelude.PyAst.
From V Require Import Prelude.PyWorld Prelude.PyAstMut gen.F_asn1 Flow.World_cms Proofs.Flow_cms_unpack Proofs.Flow_cms_pack.

Theorem C06_flow_AlgorithmIdentifier_unpack : forall fuel cls view,
  value_of (run_mut MW fuel k_flow_AlgorithmIdentifier_unpack [cls; VO (OReader view)])
  = (let* (a, _) := AlgorithmIdentifier_unpack view in Ok (VO (OAlg a))).
Proof. exact flow_AlgorithmIdentifier_unpack. Qed.
Print Assumptions C06_flow_AlgorithmIdentifier_unpack.
Theorem C06_flow_OtherKeyAttribute_unpack : forall fuel cls view h,
  value_of (run_mut MW fuel k_flow_OtherKeyAttribute_unpack [cls; VO (OReader view); vopt_hdr h])
  = (let* (a, _) := OtherKeyAttribute_unpack view h in Ok (VO (OOka a))).
Proof. exact flow_OtherKeyAttribute_unpack. Qed.
Print Assumptions C06_flow_OtherKeyAttribute_unpack.
Theorem C06_flow_ContentInfo_unpack : forall fuel cls data h,
  value_of (run_mut MW fuel k_flow_ContentInfo_unpack [cls; VB data; vopt_hdr h])
  = (let* c := ContentInfo_unpack data h in Ok (VO (OCi c))).
Proof. exact flow_ContentInfo_unpack. Qed.
Print Assumptions C06_flow_ContentInfo_unpack.
Theorem C06_flow_KEKIdentifier_unpack : forall fuel cls view,
  value_of (run_mut MW fuel k_flow_KEKIdentifier_unpack [cls; VO (OReader view)])
  = (let* (k, _) := KEKIdentifier_unpack view in Ok (VO (OKekId k))).
Proof. exact flow_KEKIdentifier_unpack. Qed.
Print Assumptions C06_flow_KEKIdentifier_unpack.
Theorem C06_flow_RecipientInfo_unpack : forall fuel cls view,
  run_mut MW fuel k_flow_RecipientInfo_unpack [cls; VO (OReader view)]
  = (let* (k, rest) := RecipientInfo_unpack view in Ok (VO (OKri k), [cls; VO (OReader rest)])).
Proof. exact flow_RecipientInfo_unpack. Qed.
Print Assumptions C06_flow_RecipientInfo_unpack.
Theorem C06_flow_EncryptedContentInfo_unpack : forall fuel cls view,
  value_of (run_mut MW fuel k_flow_EncryptedContentInfo_unpack [cls; VO (OReader view)])
  = (let* (k, _) := EncryptedContentInfo_unpack view in Ok (VO (OEci k))).
Proof. exact flow_EncryptedContentInfo_unpack. Qed.
Print Assumptions C06_flow_EncryptedContentInfo_unpack.
Theorem C06_flow_KEKRecipientInfo_unpack : forall fuel cls view h,
  value_of (run_mut MW fuel k_flow_KEKRecipientInfo_unpack [cls; VO (OReader view); vopt_hdr h])
  = (let* (k, _) := KEKRecipientInfo_unpack view h in Ok (VO (OKri k))).
Proof. exact flow_KEKRecipientInfo_unpack. Qed.
Print Assumptions C06_flow_KEKRecipientInfo_unpack.
(* `while recipient_infos_reader:` -- the interpreter's fuel exceeds the number of octets, and the model does not exhaust its own
   fuel (length of the SET OF content; it never does on Python bytes, see C05_flow_EnvelopedData_unpack_bytes) *)
Theorem C06_flow_EnvelopedData_unpack : forall fuel cls data,
  (List.length data < fuel)%nat -> EnvelopedData_unpack data <> Raise OutOfFuel ->
  value_of (run_mut MW fuel k_flow_EnvelopedData_unpack [cls; VB data])
  = (let* e := EnvelopedData_unpack data in Ok (VO (OEd e))).
Proof. exact flow_EnvelopedData_unpack. Qed.
Print Assumptions C06_flow_EnvelopedData_unpack.
Theorem C06_flow_ProtectionDescriptor_unpack : forall fuel cls data,
  value_of (run_mut MW fuel k_flow_ProtectionDescriptor_unpack [cls; VB data])
  = (let* s := ProtectionDescriptor_unpack data in Ok (VO (OSidDesc s))).
Proof. exact flow_ProtectionDescriptor_unpack. Qed.
Print Assumptions C06_flow_ProtectionDescriptor_unpack.
Theorem C06_flow_DPAPINGBlob_unpack : forall fuel cls data,
  value_of (run_mut MW fuel k_flow_DPAPINGBlob_unpack [cls; VB data])
  = (let* b := blob_unpack data in Ok (VO (OBlob b))).
Proof. exact flow_DPAPINGBlob_unpack. Qed.
Print Assumptions C06_flow_DPAPINGBlob_unpack.

Theorem C06_flow_AlgorithmIdentifier_pack : forall fuel a t ws,
  run_mut MW fuel k_flow_AlgorithmIdentifier_pack [VO (OAlg a); VO (OWriter t ws)]
  = packed (VO (OAlg a)) t ws (AlgorithmIdentifier_pack a).
Proof. exact flow_AlgorithmIdentifier_pack. Qed.
Print Assumptions C06_flow_AlgorithmIdentifier_pack.
Theorem C06_flow_OtherKeyAttribute_pack : forall fuel a t ws,
  run_mut MW fuel k_flow_OtherKeyAttribute_pack [VO (OOka a); VO (OWriter t ws)]
  = packed (VO (OOka a)) t ws (OtherKeyAttribute_pack a).
Proof. exact flow_OtherKeyAttribute_pack. Qed.
Print Assumptions C06_flow_OtherKeyAttribute_pack.
Theorem C06_flow_ContentInfo_pack : forall fuel c t ws,
  run_mut MW fuel k_flow_ContentInfo_pack [VO (OCi c); VO (OWriter t ws)]
  = packed (VO (OCi c)) t ws (ContentInfo_pack c).
Proof. exact flow_ContentInfo_pack. Qed.
Print Assumptions C06_flow_ContentInfo_pack.
Theorem C06_flow_RecipientInfo_pack : forall fuel self writer,
  run_mut MW fuel k_flow_RecipientInfo_pack [self; writer] = Raise NotImplementedError.
Proof. exact flow_RecipientInfo_pack. Qed.
Print Assumptions C06_flow_RecipientInfo_pack.
Theorem C06_flow_KEKIdentifier_pack : forall fuel k t ws,
  run_mut MW fuel k_flow_KEKIdentifier_pack [VO (OKekId k); VO (OWriter t ws)]
  = packed (VO (OKekId k)) t ws (KEKIdentifier_pack k).
Proof. exact flow_KEKIdentifier_pack. Qed.
Print Assumptions C06_flow_KEKIdentifier_pack.
Theorem C06_flow_KEKRecipientInfo_pack : forall fuel r t ws,
  run_mut MW fuel k_flow_KEKRecipientInfo_pack [VO (OKri r); VO (OWriter t ws)]
  = packed (VO (OKri r)) t ws (KEKRecipientInfo_pack r).
Proof. exact flow_KEKRecipientInfo_pack. Qed.
Print Assumptions C06_flow_KEKRecipientInfo_pack.
Theorem C06_flow_EncryptedContentInfo_pack : forall fuel e t ws,
  run_mut MW fuel k_flow_EncryptedContentInfo_pack [VO (OEci e); VO (OWriter t ws)]
  = packed (VO (OEci e)) t ws (EncryptedContentInfo_pack e).
Proof. exact flow_EncryptedContentInfo_pack. Qed.
Print Assumptions C06_flow_EncryptedContentInfo_pack.
Theorem C06_flow_EnvelopedData_pack : forall fuel e t ws,
  run_mut MW fuel k_flow_EnvelopedData_pack [VO (OEd e); VO (OWriter t ws)]
  = packed (VO (OEd e)) t ws (EnvelopedData_pack e).
Proof. exact flow_EnvelopedData_pack. Qed.
Print Assumptions C06_flow_EnvelopedData_pack.
Theorem C06_flow_ProtectionDescriptor_pack : forall fuel sid,
  run_mut MW fuel k_flow_ProtectionDescriptor_pack [VO (OSidDesc sid)]
  = (let* b := ProtectionDescriptor_pack sid in Ok (VB b, [VO (OSidDesc sid)])).
Proof. exact flow_ProtectionDescriptor_pack. Qed.
Print Assumptions C06_flow_ProtectionDescriptor_pack.
Theorem C06_flow_ProtectionDescriptor_parse : forall fuel cls value,
  run_mut MW fuel k_flow_ProtectionDescriptor_parse [cls; VS value] = Ok (VO (OSidDesc value), [cls; VS value]).
Proof. exact flow_ProtectionDescriptor_parse. Qed.
Print Assumptions C06_flow_ProtectionDescriptor_parse.
Theorem C06_flow_DPAPINGBlob_pack : forall fuel b (bie : bool),
  run_mut MW fuel k_flow_DPAPINGBlob_pack [VO (OBlob b); vb bie]
  = (let* x := blob_pack b bie in Ok (VB x, [VO (OBlob b); vb bie])).
Proof. exact flow_DPAPINGBlob_pack. Qed.
Print Assumptions C06_flow_DPAPINGBlob_pack.

(* what callers of X.unpack(reader) continue with: the world's entry is the model's (value, reader afterwards) *)
Theorem C06_flow_call_AlgorithmIdentifier_unpack : forall view,
  cms_call_mut "AlgorithmIdentifier.unpack"%string [VO (OReader view)]
  = Some (let* (a, rest) := AlgorithmIdentifier_unpack view in Ok (VO (OAlg a), [VO (OReader rest)])).
Proof. exact call_mut_AlgorithmIdentifier_unpack. Qed.
Print Assumptions C06_flow_call_AlgorithmIdentifier_unpack.
Theorem C06_flow_call_OtherKeyAttribute_unpack : forall view h,
  cms_call_mut "OtherKeyAttribute.unpack/header"%string [VO (OReader view); vopt_hdr h]
  = Some (let* (a, rest) := OtherKeyAttribute_unpack view h in Ok (VO (OOka a), [VO (OReader rest); vopt_hdr h])).
Proof. exact call_mut_OtherKeyAttribute_unpack. Qed.
Print Assumptions C06_flow_call_OtherKeyAttribute_unpack.
Theorem C06_flow_call_KEKIdentifier_unpack : forall view,
  cms_call_mut "KEKIdentifier.unpack"%string [VO (OReader view)]
  = Some (let* (k, rest) := KEKIdentifier_unpack view in Ok (VO (OKekId k), [VO (OReader rest)])).
Proof. exact call_mut_KEKIdentifier_unpack. Qed.
Print Assumptions C06_flow_call_KEKIdentifier_unpack.
Theorem C06_flow_call_KEKRecipientInfo_unpack : forall view h,
  cms_call_mut "KEKRecipientInfo.unpack/header"%string [VO (OReader view); vopt_hdr h]
  = Some (let* (k, rest) := KEKRecipientInfo_unpack view h in Ok (VO (OKri k), [VO (OReader rest); vopt_hdr h])).
Proof. exact call_mut_KEKRecipientInfo_unpack. Qed.
Print Assumptions C06_flow_call_KEKRecipientInfo_unpack.
Theorem C06_flow_call_EncryptedContentInfo_unpack : forall view,
  cms_call_mut "EncryptedContentInfo.unpack"%string [VO (OReader view)]
  = Some (let* (e, rest) := EncryptedContentInfo_unpack view in Ok (VO (OEci e), [VO (OReader rest)])).
Proof. exact call_mut_EncryptedContentInfo_unpack. Qed.
Print Assumptions C06_flow_call_EncryptedContentInfo_unpack.

(* on Python bytes the fuel hypothesis on the model is discharged (Proofs/C05Asn1.EnvelopedData_unpack_safe) *)
From V Require Import Proofs.Flow_cms_c05.
Theorem C06_flow_EnvelopedData_unpack_bytes : forall fuel cls data,
  wfb data = true -> (List.length data < fuel)%nat ->
  value_of (run_mut MW fuel k_flow_EnvelopedData_unpack [cls; VB data])
  = (let* e := EnvelopedData_unpack data in Ok (VO (OEd e))).
Proof. exact flow_EnvelopedData_unpack_bytes. Qed.
Print Assumptions C06_flow_EnvelopedData_unpack_bytes.

(* the hypotheses are satisfiable: the EnvelopedData of ex_blob (LAPS layout), one KEKRecipientInfo *)
Definition ex_flow_ed : bytes :=
  match (let* kid := KeyIdentifier_pack ex_kid in
         let* pd := ProtectionDescriptor_pack (b_sid ex_blob) in
         let* t := EnvelopedData_pack (blob_enveloped_data ex_blob kid pd false) in encode t) with
  | Ok b => b | Raise _ => [] end.
Example C06_flow_ex_EnvelopedData :
  wfb ex_flow_ed = true /\ (300 <? List.length ex_flow_ed)%nat = true /\ (List.length ex_flow_ed <? 1000)%nat = true /\
  match EnvelopedData_unpack ex_flow_ed with Ok e => List.length (ed_recipient_infos e) = 1%nat | Raise _ => False end.
Proof. split; [|split; [|split]]; vm_compute; reflexivity. Qed.
Example C06_flow_ex_hyps : (List.length ex_flow_ed < 1000)%nat /\ EnvelopedData_unpack ex_flow_ed <> Raise OutOfFuel.
Proof.
  destruct C06_flow_ex_EnvelopedData as (_ & _ & HL & HE). split.
  - apply Nat.ltb_lt. exact HL.
  - intro H. rewrite H in HE. exact HE.
Qed.
Example C06_flow_ex_tie :
  value_of (run_mut MW 1000 k_flow_EnvelopedData_unpack [VN; VB ex_flow_ed])
  = (let* e := EnvelopedData_unpack ex_flow_ed in Ok (VO (OEd e))).
Proof. apply C06_flow_EnvelopedData_unpack; apply C06_flow_ex_hyps. Qed.

(* ---- the writer of these ties (list of child trees, Flow/World_cms.v) and the writer the C07 ties of ASN1Writer's own methods
   are about (accumulated octets, Flow/World_asn1.v): Proofs/Flow_cms_writer_bridge.v.  R w t ws: same tag, root iff root, and the
   octets of w are encode_list ws.  Per method (bridge_write_*, bridge_push_*, bridge_exit, bridge_get_data_* in that file): same
   error, or R again, or TIMING (the octet writer raises a pack_tlv error at once, the tree writer at get_data()). ---- *)
From V Require Flow.World_asn1 Proofs.Flow_cms_writer_bridge.
Theorem C06_flow_writer_replay : forall n w,
  Flow_cms_writer_bridge.replay n w = (let* b := encode n in Ok (World_asn1.wr_extend w b)).
Proof. exact Flow_cms_writer_bridge.replay_encode. Qed.
Print Assumptions C06_flow_writer_replay.
Theorem C06_flow_writer_pack_bridge : forall w t ws n, Flow_cms_writer_bridge.R w t ws ->
  match Flow_cms_writer_bridge.replay n w with
  | Ok w' => Flow_cms_writer_bridge.R w' t (ws ++ [n])
  | Raise e => encode_list (ws ++ [n]) = Raise e
  end.
Proof. exact Flow_cms_writer_bridge.pack_bridge. Qed.
Print Assumptions C06_flow_writer_pack_bridge.
Theorem C06_flow_writer_root_bytes : forall n,
  (let* w := Flow_cms_writer_bridge.replay n World_asn1.writer_root in World_asn1.writer_get_data w) = encode n.
Proof. exact Flow_cms_writer_bridge.root_bytes_1. Qed.
Print Assumptions C06_flow_writer_root_bytes.
Theorem C06_flow_writer_get_data : forall w ws, Flow_cms_writer_bridge.R w None ws ->
  World_cms.writer_meth "get_data" None ws [] = Some (Ok (VB (World_asn1.wr_data w), VO (World_cms.OWriter None ws))) /\
  World_asn1.writer_meth "get_data" w [] = Some (Ok (VB (World_asn1.wr_data w), VO (World_asn1.OWriter w))).
Proof. exact Flow_cms_writer_bridge.bridge_get_data_root. Qed.
Print Assumptions C06_flow_writer_get_data.
