(* C06 -- emitted blobs are canonical CMS in Windows' layout; encode/decode are inverse. Statements only.
   Models: Model/Pkcs7.v, Model/Blob.v (on Model/Asn1.v, Model/KeyId.v). wf_blob is boolean: wf_kid for the
   key identifier (32-bit fields, 16-byte root key id, encodable names), encodable SID, OIDs with first arc
   <= 2 and second arc <= 39 (what the writer accepts), every field shorter than 2^32 octets, optional
   parameters None or non-empty (the code tests truthiness, so present-but-empty is written as absent). *)
From V Require Import Prelude.Base Prelude.PyInt Prelude.PySlice Prelude.PyStr.
From V Require Import Model.Types Model.KeyId Model.Asn1 Model.Pkcs7 Model.Blob Spec.DerSpec.
From V Require Import Proofs.BlobLib Proofs.BlobPkcs7 Proofs.GkdiKeyId Proofs.BlobMain.

Theorem C06_oids : oid_enveloped_data = [1; 2; 840; 113549; 1; 7; 3] /\ oid_data = [1; 2; 840; 113549; 1; 7; 1] /\
  oid_ms_software = [1; 3; 6; 1; 4; 1; 311; 74; 1] /\ oid_pd_sid = [1; 3; 6; 1; 4; 1; 311; 74; 1; 1] /\
  oid_aes256_wrap = [2; 16; 840; 1; 101; 3; 4; 1; 45] /\ oid_aes256_gcm = [2; 16; 840; 1; 101; 3; 4; 1; 46].
Proof. repeat split; reflexivity. Qed.
Print Assumptions C06_oids.

(* decode (encode x) = x for every well-formed blob value, in-envelope (env = true) and trailing-ciphertext
   (env = false) layouts; the ContentInfo part is one TLV whose header gives its exact length *)
Theorem C06_decode_encode : forall b env, wf_blob b = true ->
  exists ci, blob_pack b env = Ok (ci ++ trailing b env) /\ blob_unpack (ci ++ trailing b env) = Ok b /\
    (exists h, forall rest, peek_header (ci ++ rest) = Ok h /\ h_tlen h + h_len h = len ci).
Proof. exact blob_roundtrip. Qed.
Print Assumptions C06_decode_encode.

Theorem C06_reencode : forall b env, wf_blob b = true ->
  exists bs b', blob_pack b env = Ok bs /\ blob_unpack bs = Ok b' /\ blob_pack b' env = Ok bs.
Proof. exact blob_reencode. Qed.
Print Assumptions C06_reencode.
