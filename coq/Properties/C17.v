(* C17 -- online against a conforming DC (statements only; proofs in Proofs/C17*.v). WORK IN PROGRESS *)
From V Require Import Prelude.Base gen.K_online.
Theorem C17_sync_async_partial : twin_ncrypt_unprotect_secret = true /\ twin_ncrypt_protect_secret = true.
Proof. split; reflexivity. Qed.
Print Assumptions C17_sync_async_partial.
