(* C17 -- Online against a conforming DC: faithful requests, correct results, sync = async.
   Statements only; proofs in Proofs/C17Consts.v, Proofs/C17.v, Proofs/C17Examples.v, Proofs/C17Compose.v.
   Model: Model/Conversation.v = _sync_get_key / _async_get_key and the call sites of the four public functions, composed from the
   models of C11 / C13 / C14 / C15 / C16 / C18.  Argument tuples, (-1,-1,-1), contexts, tower, opnums, the verification trailer and the
   fixed Bind fields are regenerated from the source (gen/K_online.v, gen/C_online.v).  The security context (wrap / unwrap), the
   provider script and the peer script are arbitrary in every statement. `gk sd rk l0 l1 l2` is the argument tuple as a record;
   wf_getkey: the SD is shorter than 4 GiB, the root key id has 16 octets, L0/L1/L2 are 32-bit signed values. *)
From V Require Import Prelude.Base Prelude.PyInt Prelude.PySlice.
From V Require Import gen.K_client gen.C_client gen.C_rpc gen.C_gkdi gen.K_online gen.C_online.
From V Require Import Model.Pdu Model.Request Model.Bind Model.Verification Model.Epm.
From V Require Import Model.Handshake Model.Framing Model.Seal Model.Recv.
From V Require Import Model.Types Model.Gkdi Model.Conversation Spec.GkdiLayout.
From V Require Import Proofs.GkdiGetKey Proofs.GkdiEnvelope Proofs.C13 Proofs.C15 Proofs.C17Consts Proofs.C17 Proofs.C17Examples.

(* ---- request fidelity ----------------------------------------------------------------------------------------------------
   unprotect: whatever the peer does, if a GetKey request goes out then the stub inside the sealed region is the NDR64 encoding
   (independent marshaller of Spec/GkdiLayout.v, written from MS-GKDI 3.1.4.1 / MS-RPCE 2.2.5) of exactly
   (target SD, root key id, L0, L1, L2) of the blob's key identifier, it comes first in the sealed region, and the request header
   names the ISD_KEY presentation context and opnum 0 *)
Theorem C17_unprotect_request : forall (wrap : wrap_fn) (unwrap : unwrap_fn) pv f legs dc sd kid r t wire oargs,
  wf_getkey (gk sd (Some (kid_rkid kid)) (kid_l0 kid) (kid_l1 kid) (kid_l2 kid)) = true ->
  unprotect_get_key f wrap unwrap pv legs dc sd kid = (r, t) ->
  tr_getkey_request t = Some (wire, oargs) ->
  exists stub args,
    ndr64_getkey_request sd (Some (kid_rkid kid)) (kid_l0 kid) (kid_l1 kid) (kid_l2 kid) = Some stub /\
    oargs = Some args /\ wa_body args = sealed_region stub (Some c_onl_vt) /\
    slice None (Some (len stub)) (wa_body args) = stub /\
    slice (Some 16) (Some 24) (wa_header args) = fixed8 (len (wa_body args)) c_onl_isd_ctx_id c_onl_getkey_opnum.
Proof. exact unprotect_request. Qed.
Print Assumptions C17_unprotect_request.

(* protect: the current key, (-1, -1, -1), with the optional root key id (null pointer when the caller gave none) *)
Theorem C17_protect_request : forall (wrap : wrap_fn) (unwrap : unwrap_fn) pv f legs dc sd rk r t wire oargs,
  wf_getkey (gk sd rk (-1) (-1) (-1)) = true ->
  protect_get_key f wrap unwrap pv legs dc sd rk = (r, t) ->
  tr_getkey_request t = Some (wire, oargs) ->
  exists stub args,
    ndr64_getkey_request sd rk (-1) (-1) (-1) = Some stub /\
    oargs = Some args /\ wa_body args = sealed_region stub (Some c_onl_vt) /\
    slice None (Some (len stub)) (wa_body args) = stub /\
    slice (Some 16) (Some 24) (wa_header args) = fixed8 (len (wa_body args)) c_onl_isd_ctx_id c_onl_getkey_opnum.
Proof. exact protect_request. Qed.
Print Assumptions C17_protect_request.

(* "exactly": the reference encoding is injective, so a DC decoding the stub recovers this tuple and no other *)
Theorem C17_stub_determines_request : forall g1 g2 b, wf_getkey g1 = true -> wf_getkey g2 = true ->
  ndr64_getkey_request (gk_target_sd g1) (gk_root_key_id g1) (gk_l0 g1) (gk_l1 g1) (gk_l2 g1) = Some b ->
  ndr64_getkey_request (gk_target_sd g2) (gk_root_key_id g2) (gk_l0 g2) (gk_l1 g2) (gk_l2 g2) = Some b -> g1 = g2.
Proof. exact ndr64_getkey_injective. Qed.
Print Assumptions C17_stub_determines_request.

(* the hop through the endpoint mapper: the ept_map request goes out in clear on the first connection (nothing is handed to a security
   context), on presentation context 0 with opnum 3, and its stub is the library's _EPT_MAP_ISD_KEY -- which C17_static_data shows
   to be the ept_map request for the ISD_KEY / NDR tower on TCP port 135 with max_towers = 4 *)
Theorem C17_ept_map_request : forall (wrap : wrap_fn) (unwrap : unwrap_fn) pv f legs dc sd rk l0 l1 l2 r t wire oargs,
  get_key_conversation f wrap unwrap pv legs dc sd rk l0 l1 l2 = (r, t) ->
  tr_ept_request t = Some (wire, oargs) ->
  oargs = None /\ exists hdr16, len hdr16 = 16 /\
    wire = hdr16 ++ fixed8 (len c_onl_ept_map_stub) c_onl_epm_ctx_id c_onl_ept_map_opnum ++ c_onl_ept_map_stub.
Proof. exact conversation_ept_request. Qed.
Print Assumptions C17_ept_map_request.

(* presentation contexts: the first connection's only PDU before the request is an anonymous Bind offering exactly _EPM_CONTEXTS; if
   the conversation reaches the second connection, its first PDU is a Bind offering exactly _ISD_KEY_CONTEXTS with the provider's
   first token in a level-6 trailer and header signing offered, and every further PDU of that bind() is an AlterContext *)
Theorem C17_contexts : forall (wrap : wrap_fn) (unwrap : unwrap_fn) pv f legs dc sd rk l0 l1 l2 r t,
  get_key_conversation f wrap unwrap pv legs dc sd rk l0 l1 l2 = (r, t) ->
  tr_epm_binds t = [bind_pdu_of_sent pv epm_contexts (SBind 0 None (context_ids epm_contexts))] /\
  forall p l ls, tr_port t = Some p -> legs = l :: ls ->
    exists alters, Forall is_alter alters /\
      tr_isd_binds t = bind_pdu_of_sent pv isd_key_contexts (SBind 4 (Some (leg_token l)) (context_ids isd_key_contexts))
                       :: map (bind_pdu_of_sent pv isd_key_contexts) alters.
Proof. exact conversation_binds. Qed.
Print Assumptions C17_contexts.
Theorem C17_offered_contexts : forall pv tok,
  b_contexts (bind_pdu_of_sent pv epm_contexts (SBind 0 None (context_ids epm_contexts))) = epm_contexts /\
  b_contexts (bind_pdu_of_sent pv isd_key_contexts (SBind 4 (Some tok) (context_ids isd_key_contexts))) = isd_key_contexts /\
  b_sec_trailer (bind_pdu_of_sent pv isd_key_contexts (SBind 4 (Some tok) (context_ids isd_key_contexts)))
    = Some {| st_type := pv_type pv; st_level := 6; st_pad_length := 0; st_context_id := 0; st_auth_value := tok |} /\
  h_packet_flags (b_header (bind_pdu_of_sent pv isd_key_contexts (SBind 4 (Some tok) (context_ids isd_key_contexts)))) = 7 /\
  h_packet_flags (b_header (bind_pdu_of_sent pv epm_contexts (SBind 0 None (context_ids epm_contexts)))) = 3.
Proof. exact offered_contexts. Qed.
Print Assumptions C17_offered_contexts.

(* ---- sealed at PKT_PRIVACY, with the interface verification trailer ----------------------------------------------------------
   the security trailer names level 6 and the padding; the wire is the 24 header octets, then what the security context returned
   for the whole stub region, then the trailer header and the signature; the region handed to the context is the stub, zero padding
   to the next 4-byte boundary, the verification trailer (PCONTEXT | END for ISD_KEY / NDR64), and the declared padding -- nothing else *)
Theorem C17_sealed_vt : forall (wrap : wrap_fn) (unwrap : unwrap_fn) pv f legs dc sd rk l0 l1 l2 r t wire oargs,
  get_key_conversation f wrap unwrap pv legs dc sd rk l0 l1 l2 = (r, t) ->
  tr_getkey_request t = Some (wire, oargs) ->
  exists stub args pad,
    GetKey_pack (gk sd rk l0 l1 l2) = Ok stub /\ oargs = Some args /\
    wa_trailer args = trailer8 pv pad /\ index (wa_trailer args) 1 = Ok 6 /\ c_PKT_PRIVACY = 6 /\
    index (wa_trailer args) 2 = Ok pad /\ 0 <= pad < 16 /\
    len (wa_header args) = 24 /\ wa_sign args = tr_sign t /\
    wire = wa_header args ++ fst (wrap (wa_header args) (wa_body args) (wa_trailer args) (wa_sign args)) ++ wa_trailer args
           ++ snd (wrap (wa_header args) (wa_body args) (wa_trailer args) (wa_sign args)) /\
    wa_body args = stub ++ zeros (k_vt_pad (len stub)) ++ c_onl_vt ++ zeros pad /\
    (len stub + k_vt_pad (len stub)) mod 4 = 0 /\ 0 <= k_vt_pad (len stub) < 4 /\ len (wa_body args) mod 16 = 0 /\
    c_onl_vt = verification_trailer_pack verification_trailer.
Proof. exact sealed_vt. Qed.
Print Assumptions C17_sealed_vt.

(* ---- the result -------------------------------------------------------------------------------------------------------------
   an envelope reaches the caller only if a PDU was read, its auth_len is non-zero and the security context unwrapped exactly
   (24 header octets, the region up to the security trailer, the trailer header, the signature) under the negotiated sign flag (C16);
   the envelope is decoded from the unwrapped RESPONSE; and when that response is what a conforming DC marshals -- the NDR64 reply
   (Spec/GkdiLayout.v) of the packed envelope e, followed by the padding its security trailer declares -- the caller gets e itself.
   The design-level continuation "... and e then decrypts the blob / the blob produced from e decrypts" (C01-C03 composed with this)
   is C17_online_unprotect / C17_online_protect at the end of this file (Proofs/C17Compose.v). *)
Theorem C17_result : forall (wrap : wrap_fn) (unwrap : unwrap_fn) pv f legs dc sd rk l0 l1 l2 env t,
  get_key_conversation f wrap unwrap pv legs dc sd rk l0 l1 l2 = (Ok env, t) ->
  exists pdu hdr rsp,
    recv_pdu f (ds_getkey_stream dc) (ds_sched dc) = Ok pdu /\ pdu_header_unpack (firstn 16 pdu) = Ok hdr /\
    h_auth_len hdr <> 0 /\
    (let a := unwrap_slices hdr 24 (tr_sign t) pdu in
     exists dec, unwrap (ua_header a) (ua_body a) (ua_trailer a) (ua_signature a) (tr_sign t) = Ok dec /\
       exists body h st, pdu_split (assign_slice pdu 24 (h_frag_len hdr - (h_auth_len hdr + 8)) dec) = Ok (body, h, st) /\
         h_packet_type h = c_PT_RESPONSE /\ response_unpack body h st = Ok rsp) /\
    process_get_key_result (rs_stub_data rsp) (match rs_sec_trailer rsp with Some st => Some (st_pad_length st) | None => None end) = Ok env /\
    (forall e out reply padding st, wf_env e = true -> GroupKeyEnvelope_pack e = Ok out -> ndr64_getkey_reply out 0 = Some reply ->
       rs_stub_data rsp = reply ++ padding -> rs_sec_trailer rsp = Some st -> st_pad_length st = len padding -> env = e).
Proof. exact result. Qed.
Print Assumptions C17_result.

(* ---- static data: the model's structured values are the library's objects ------------------------------------------------------- *)
Theorem C17_static_data :
  concat (map context_element_pack epm_contexts) = c_onl_epm_contexts /\
  concat (map context_element_pack isd_key_contexts) = c_onl_isd_contexts /\
  ept_map_pack ept_map_isd_key = c_onl_ept_map_stub /\
  verification_trailer_pack verification_trailer = c_onl_vt /\ wf_commands verification_trailer = true /\
  k_onl_prot_arg3 = -1 /\ k_onl_prot_arg4 = -1 /\ k_onl_prot_arg5 = -1 /\
  k_onl_aprot_arg3 = -1 /\ k_onl_aprot_arg4 = -1 /\ k_onl_aprot_arg5 = -1 /\
  c_onl_getkey_opnum = 0 /\ c_onl_isd_ctx_id = 0 /\ c_onl_ept_max_towers = 4 /\ c_onl_ept_tower_port = 135.
Proof.
  exact (conj epm_contexts_packed (conj isd_contexts_packed (conj (proj1 ept_map_packed) (conj (proj1 vt_packed) (conj (proj2 vt_packed)
    (conj (proj1 protect_minus_ones) (conj (proj1 (proj2 protect_minus_ones)) (conj (proj1 (proj2 (proj2 protect_minus_ones)))
    (conj (proj1 (proj2 (proj2 (proj2 protect_minus_ones)))) (conj (proj1 (proj2 (proj2 (proj2 (proj2 protect_minus_ones)))))
    (conj (proj2 (proj2 (proj2 (proj2 (proj2 protect_minus_ones))))) (conj eq_refl (conj eq_refl (conj eq_refl eq_refl)))))))))))))).
Qed.
Print Assumptions C17_static_data.

(* ---- sync = async (PARTIAL) ----------------------------------------------------------------------------------------------------
   Full statement (not a theorem): _sync_get_key and _async_get_key, and the two pairs of public functions, conduct the same
   conversation and return the same results.
   Proved: the public pairs are identical as normalised ASTs (twin kernels regenerated on every run); both flavours put the same
   presentation context id into the ept_map request; and in the model the two flavours of the whole conversation coincide whenever the
   two receive loops deliver the same PDUs (which C14 proves for every well-formed reply and every segmentation).
   _sync_get_key / _async_get_key differ syntactically (benign) and are tied by the both-flavour correspondence online.refdc. *)
Theorem C17_sync_async_partial :
  twin_ncrypt_unprotect_secret = true /\ twin_ncrypt_protect_secret = true /\
  k_onl_sync_epm_ctx c_onl_epm_ctx_id = k_onl_async_epm_ctx c_onl_epm_ctx_id /\
  forall (wrap : wrap_fn) (unwrap : unwrap_fn) pv legs dc sd rk l0 l1 l2,
    recv_pdu Sync (ds_ept_stream dc) (ds_sched dc) = recv_pdu Async (ds_ept_stream dc) (ds_sched dc) ->
    recv_pdu Sync (ds_getkey_stream dc) (ds_sched dc) = recv_pdu Async (ds_getkey_stream dc) (ds_sched dc) ->
    get_key_conversation Sync wrap unwrap pv legs dc sd rk l0 l1 l2 = get_key_conversation Async wrap unwrap pv legs dc sd rk l0 l1 l2.
Proof. exact (conj eq_refl (conj eq_refl (conj epm_request_ctx_same flavours_agree))). Qed.
Print Assumptions C17_sync_async_partial.

(* ---- the hypotheses are satisfiable: a complete conversation with the reference DC, run inside Coq ------------------------------ *)
Example C17_conversation_example :
  exists env t wire args,
    unprotect_get_key Sync ex_wrap ex_unwrap ex_pv ex_legs ex_dc ex_sd
      {| kid_version := 1; kid_flags := 0; kid_l0 := 361; kid_l1 := 12; kid_l2 := 31; kid_rkid := ex_rk; kid_key_info := [];
         kid_domain := []; kid_forest := [] |} = (Ok env, t) /\
    tr_getkey_request t = Some (wire, Some args) /\ tr_port t = Some 49664 /\ tr_sign t = true /\
    length (tr_isd_binds t) = 2%nat /\
    (gke_l0 env, gke_l1 env, gke_l2 env) = (361, 12, 31) /\ len (gke_l1_key env) = 64 /\ gke_l2_key env = [] /\
    wf_env env = true /\
    wf_getkey (gk ex_sd (Some ex_rk) 361 12 31) = true /\
    get_key_conversation Async ex_wrap ex_unwrap ex_pv ex_legs ex_dc ex_sd (Some ex_rk) 361 12 31 = (Ok env, t).
Proof. exact conversation_runs. Qed.
Example C17_conforming_reply_example :
  exists e out reply, wf_env e = true /\ GroupKeyEnvelope_pack e = Ok out /\ ndr64_getkey_reply out 0 = Some reply /\
    process_get_key_result (reply ++ repeat 0 5) (Some 5) = Ok e.
Proof. exact conforming_reply_exists. Qed.

(* ---- flows: the functions of the source themselves, regenerated as syntax on every run (gen/F_client.v, gen/F_online.v), ARE the model
   functions the theorems above are about.  run_self (Proofs/FlowClientLib.v) = PyAst.run that also reports the final value of "self".
   First the steps that live in _rpc/_client.py / _rpc/_auth.py, in the world Flow/World_client.v (dataclasses := the records of Model/Pdu.v,
   Bind.v, Request.v; the security context := a script of legs and arbitrary wrap / unwrap functions). ---- *)
From V Require Import Prelude.PyAst Prelude.PyWorld gen.F_client Proofs.FlowClientLib Flow.World_client Proofs.Flow_client_conv.

(* _create_bind builds exactly the Bind PDU Model/Conversation.v puts behind Handshake's abstract SBind (first lemma: the record, for every
   context list and optional trailer; second: that record for the contexts / trailer of a run is bind_pdu_of_sent) *)
Theorem C17_flow_create_bind : forall wrap unwrap sch fuel c cs st,
  run_self (WC wrap unwrap sch) fuel k_flow_create_bind [VO (OSelf c); VL (map cev cs); stv st]
  = Ok (VO (OBind {| b_header := create_pdu_header c_PT_BIND (match st with Some s => len (st_auth_value s) | None => 0 end) 1
                                    (match st with Some _ => Z.lor c_PFC_NONE c_PFC_SUPPORT_HEADER_SIGN | None => c_PFC_NONE end);
                     b_sec_trailer := st; b_max_xmit_frag := 5840; b_max_recv_frag := 5840; b_assoc_group := 0; b_contexts := cs |}),
        Some (VO (OSelf (match st with Some _ => cl_set_sign c true | None => c end)))).
Proof. exact flow_create_bind_pdu. Qed.
Print Assumptions C17_flow_create_bind.
Theorem C17_flow_create_bind_model : forall pv all ids tk,
  {| b_header := create_pdu_header c_PT_BIND (match option_map (step_trailer pv) tk with Some s => len (st_auth_value s) | None => 0 end) 1
                   (match option_map (step_trailer pv) tk with Some _ => Z.lor c_PFC_NONE c_PFC_SUPPORT_HEADER_SIGN | None => c_PFC_NONE end);
     b_sec_trailer := option_map (step_trailer pv) tk; b_max_xmit_frag := 5840; b_max_recv_frag := 5840; b_assoc_group := 0;
     b_contexts := select_contexts all ids |}
  = bind_pdu_of_sent pv all (SBind (match tk with Some _ => Z.lor c_PFC_NONE c_PFC_SUPPORT_HEADER_SIGN | None => c_PFC_NONE end) tk ids).
Proof. exact create_bind_pdu_is_model. Qed.
Print Assumptions C17_flow_create_bind_model.

Theorem C17_flow_create_alter_context : forall wrap unwrap sch fuel c cs s,
  run_self (WC wrap unwrap sch) fuel k_flow_create_alter_context [VO (OSelf c); VL (map cev cs); VO (OSt s)]
  = Ok (VO (OAlter {| b_header := create_pdu_header c_PT_ALTER_CONTEXT (len (st_auth_value s)) 1
                                     (k_alter_flags (cl_sign c) c_PFC_SUPPORT_HEADER_SIGN c_PFC_NONE);
                      b_sec_trailer := Some s; b_max_xmit_frag := 5840; b_max_recv_frag := 5840; b_assoc_group := 0; b_contexts := cs |}),
        Some (VO (OSelf c))).
Proof. exact flow_create_alter_context_pdu. Qed.
Print Assumptions C17_flow_create_alter_context.
Theorem C17_flow_create_alter_context_model : forall pv all ids fl tk,
  {| b_header := create_pdu_header c_PT_ALTER_CONTEXT (len (st_auth_value (step_trailer pv tk))) 1 fl;
     b_sec_trailer := Some (step_trailer pv tk); b_max_xmit_frag := 5840; b_max_recv_frag := 5840; b_assoc_group := 0;
     b_contexts := select_contexts all ids |}
  = bind_pdu_of_sent pv all (SAlter fl tk ids).
Proof. exact create_alter_pdu_is_model. Qed.
Print Assumptions C17_flow_create_alter_context_model.

(* AuthenticationProvider.step: the level-6 trailer (Conversation.step_trailer) around the security context's next token; step_trailer
   reads only the provider id of its provider argument, so: for every model provider pv whose id is self.provider *)
Theorem C17_flow_auth_step : forall wrap unwrap sch fuel ap tok pv,
  pv_type pv = ap_provider ap ->
  run (WC wrap unwrap sch) fuel k_flow_auth_step [VO (OAuthP ap); optbv tok]
  = match ap_legs ap with
    | [] => Raise KeyError
    | l :: _ => Ok (VO (OSt (step_trailer pv (leg_token l))))
    end.
Proof. exact flow_auth_step. Qed.
Print Assumptions C17_flow_auth_step.
(* ... and the provider afterwards (run_self): the security context has consumed that leg -- self.ctx.step(..) is a method call on an
   attribute of `self`, written back by the interpreter (PyAst.place_set; x_setattr "ctx" of Flow/World_client.v) *)
Theorem C17_flow_auth_step_state : forall wrap unwrap sch fuel ap tok pv,
  pv_type pv = ap_provider ap ->
  run_self (WC wrap unwrap sch) fuel k_flow_auth_step [VO (OAuthP ap); optbv tok]
  = match ap_legs ap with
    | [] => Raise KeyError
    | l :: ls => Ok (VO (OSt (step_trailer pv (leg_token l))),
                     Some (VO (OAuthP {| ap_provider := ap_provider ap; ap_legs := ls; ap_complete := leg_complete l |})))
    end.
Proof. exact flow_auth_step_state. Qed.
Print Assumptions C17_flow_auth_step_state.
Theorem C17_flow_auth_complete : forall wrap unwrap sch fuel ap,
  run (WC wrap unwrap sch) fuel k_flow_auth_complete [VO (OAuthP ap)] = Ok (vb (ap_complete ap)).
Proof. exact flow_auth_complete. Qed.
Print Assumptions C17_flow_auth_complete.

(* SyncRpcClient.request (and AsyncRpcClient.request: the same term) is Conversation.rpc_request: the Response is returned, what went on
   the wire and what was handed to the security context's wrap is recorded in the client *)
Theorem C17_flow_request : forall wrap unwrap sch fuel c cid op stub vt,
  run_self (WC wrap unwrap sch) fuel k_flow_sync_request [VO (OSelf c); VI cid; VI op; VB stub; vtv vt]
  = match rpc_request (cl_flavour c) wrap unwrap (cl_auth c) (cl_sign c) cid op stub (option_map verification_trailer_pack vt) (cl_stream c) sch with
    | (Ok sent, Ok rsp) => Ok (VO (OResp rsp), Some (VO (OSelf (cl_add_sent c sent))))
    | (Raise e, _) => Raise e
    | (_, Raise e) => Raise e
    end.
Proof. exact flow_sync_request. Qed.
Print Assumptions C17_flow_request.
Theorem C17_flow_request_twin : k_flow_async_request = k_flow_sync_request.
Proof. exact flow_request_twin. Qed.
Print Assumptions C17_flow_request_twin.

(* ... then _client.py itself, in the CHECKING world Flow/World_online.v.  WO .. server username password auth_protocol tr is given the
   call's own connection parameters and the transcript tr of the model's conversation; the connection object carries its position, and
     create_rpc_connection(server)  /  create_rpc_connection(server, port, username=, password=, auth_protocol=)
     rpc.bind(contexts=..)   rpc.request(context_id, opnum, stub[, verification_trailer=..])
   have a meaning ONLY when: the server (and the three credentials, auth_protocol non-empty) are the call's own; port = tr_port tr; the
   contexts offered are the model's for that connection (epm_contexts / isd_key_contexts, all fields); the connection is fresh (bind) resp.
   bound (request); and the REQUEST PDU this call puts on the wire together with what it hands to the security context's wrap (header incl.
   context id and opnum, stub, verification trailer, paddings, security trailer; wrap arguments present iff sealed) equals, octet for octet,
   tr_ept_request tr resp. tr_getkey_request tr.  Anything else is unknown to the world (TypeError).  Once bound / sent, `bind` is
   Handshake.bind_run and `request` is Conversation.rpc_request against the peer script; the other callees are their models. *)
From V Require Import gen.F_online Flow.World_online Proofs.Flow_online_ept Proofs.Flow_online_conv.

Theorem C17_flow_process_ept_map_result : forall wrap unwrap prov legs dc efuel server username password auth_protocol tr fuel rsp,
  run (WO wrap unwrap prov legs dc efuel server username password auth_protocol tr) fuel k_flow_process_ept_map_result [VO (OResp rsp)]
  = (let* (p, _) := process_ept_map_result efuel (rs_stub_data rsp) in Ok (VI p)).
Proof. exact flow_process_ept_map_result. Qed.
Print Assumptions C17_flow_process_ept_map_result.

Theorem C17_flow_process_get_key_result : forall wrap unwrap prov legs dc efuel server username password auth_protocol tr fuel rsp,
  run (WO wrap unwrap prov legs dc efuel server username password auth_protocol tr) fuel k_flow_process_get_key_result [VO (OResp rsp)]
  = (let* e := process_get_key_result (rs_stub_data rsp)
                 (match rs_sec_trailer rsp with Some st => Some (st_pad_length st) | None => None end) in
     Ok (VO (OEnvl e))).
Proof. exact flow_process_get_key_result. Qed.
Print Assumptions C17_flow_process_get_key_result.

(* _sync_get_key and _async_get_key ARE get_key_conversation at their flavour, for every peer script, provider script and security
   context, in the checking world of the model's own transcript.  Hence request fidelity of the SOURCE: whenever the run does not end in
   TypeError (in particular whenever the model conversation yields an envelope), the source opened the second connection to the port the
   model records, offered the model's contexts and sent exactly the model's two REQUEST PDUs -- the ones C17_ept_map_request,
   C17_unprotect_request / C17_protect_request, C17_contexts and C17_sealed_vt are about.
   (precondition: auth_protocol is a non-empty string, so that the second connection carries an AuthenticationProvider) *)
Theorem C17_flow_sync_get_key : forall wrap unwrap prov legs dc efuel server username password auth_protocol fuel sd rk l0 l1 l2,
  auth_protocol <> [] ->
  run (WO wrap unwrap prov legs dc efuel server username password auth_protocol
         (snd (get_key_conversation Sync wrap unwrap prov legs dc sd rk l0 l1 l2))) fuel k_flow_sync_get_key
    [VS server; VB sd; optbv rk; VI l0; VI l1; VI l2; optsv username; optsv password; VS auth_protocol]
  = (let* e := fst (get_key_conversation Sync wrap unwrap prov legs dc sd rk l0 l1 l2) in Ok (VO (OEnvl e))).
Proof. exact flow_sync_get_key. Qed.
Print Assumptions C17_flow_sync_get_key.
Theorem C17_flow_async_get_key : forall wrap unwrap prov legs dc efuel server username password auth_protocol fuel sd rk l0 l1 l2,
  auth_protocol <> [] ->
  run (WO wrap unwrap prov legs dc efuel server username password auth_protocol
         (snd (get_key_conversation Async wrap unwrap prov legs dc sd rk l0 l1 l2))) fuel k_flow_async_get_key
    [VS server; VB sd; optbv rk; VI l0; VI l1; VI l2; optsv username; optsv password; VS auth_protocol]
  = (let* e := fst (get_key_conversation Async wrap unwrap prov legs dc sd rk l0 l1 l2) in Ok (VO (OEnvl e))).
Proof. exact flow_async_get_key. Qed.
Print Assumptions C17_flow_async_get_key.

(* sync = async, on the source (the half C17_sync_async_partial left to the correspondence): the two regenerated functions, each in the
   checking world of its flavour's transcript, return the same envelope or the same error whenever the two receive loops deliver the same PDUs *)
Theorem C17_flow_get_key_sync_async : forall wrap unwrap prov legs dc efuel server username password auth_protocol fuel sd rk l0 l1 l2,
  auth_protocol <> [] ->
  recv_pdu Sync (ds_ept_stream dc) (ds_sched dc) = recv_pdu Async (ds_ept_stream dc) (ds_sched dc) ->
  recv_pdu Sync (ds_getkey_stream dc) (ds_sched dc) = recv_pdu Async (ds_getkey_stream dc) (ds_sched dc) ->
  run (WO wrap unwrap prov legs dc efuel server username password auth_protocol
         (snd (get_key_conversation Sync wrap unwrap prov legs dc sd rk l0 l1 l2))) fuel k_flow_sync_get_key
    [VS server; VB sd; optbv rk; VI l0; VI l1; VI l2; optsv username; optsv password; VS auth_protocol]
  = run (WO wrap unwrap prov legs dc efuel server username password auth_protocol
           (snd (get_key_conversation Async wrap unwrap prov legs dc sd rk l0 l1 l2))) fuel k_flow_async_get_key
      [VS server; VB sd; optbv rk; VI l0; VI l1; VI l2; optsv username; optsv password; VS auth_protocol].
Proof. exact flow_get_key_sync_async. Qed.
Print Assumptions C17_flow_get_key_sync_async.

(* the hypotheses are met and the checks bite: in the world of the reference conversation of C17_conversation_example the regenerated
   _sync_get_key returns that envelope, while two mutants of the regenerated term -- second connection opened to port 0; ept_map sent on
   context 7 / opnum 9 and GetKey on context 3 / opnum 5 (Proofs/Flow_online_conv.v: mutant_port0, mutant_ctx_opnum, obtained from
   k_flow_sync_get_key by a syntactic substitution) -- are refused *)
Example C17_flow_conversation_example :
  exists env, run ex_world 0 k_flow_sync_get_key ex_args = Ok (VO (OEnvl env)) /\ (gke_l0 env, gke_l1 env, gke_l2 env) = (361, 12, 31).
Proof. exact original_accepted. Qed.
Example C17_flow_mutants_refused :
  mutant_port0 <> k_flow_sync_get_key /\ mutant_ctx_opnum <> k_flow_sync_get_key /\
  run ex_world 0 mutant_port0 ex_args = Raise TypeError /\ run ex_world 0 mutant_ctx_opnum ex_args = Raise TypeError.
Proof. exact (conj (proj1 mutants_differ) (conj (proj2 mutants_differ) (conj mutant_port0_refused mutant_ctx_opnum_refused))). Qed.

(* ---- the result, composed with C01-C03 (Proofs/C17Compose.v): what the conversation returns is what the round trip needs -------------
   protected_blob c h rk rkid s sid l0 l1 l2 data blob: the blob parses (C06) to an AES256-wrap / AES256-GCM blob for the SID whose key
   identifier names (rkid, l0, l1, l2) and whose KEK is the one EVERY seed-key envelope conforming to MS-GKDI 2.2.4 for (rk, SD, l0) and
   covering (l1, l2) yields.  env_ok (Proofs/C01Lib.v) is that per-envelope conformance -- the predicate cache_ok of C01 / C19 imposes on
   the cache entry: flag bit 0 clear, same KDF / secret agreement parameters as the root key, L1 / L2 key fields = chain keys of
   Spec/GkdiSpec.v.  unprotect_via_dc / protect_via_dc: Client.unprotect_offline / protect_offline with the cache-miss branch filled in by
   a GetKey oracle (C17_via_no_dc: with no DC they ARE the offline functions).  dc_marshals f unwrap dc sign e: the RESPONSE the peer script
   delivers, once unwrapped, is the NDR64 reply of the packed e plus declared padding (the hypotheses of C17_result's last clause). *)
From V Require Import Model.Crypto Model.Sym Model.KeyId Model.Kek Model.SecDesc Model.Blob Model.Interval Model.Client.
From V Require Import Spec.GkdiSpec Spec.KekSpec Proofs.C02 Proofs.BlobPkcs7 Proofs.BlobMain Proofs.C01Lib Proofs.C01 Proofs.C17Compose.

(* C17_result read as an equation: a successful conversation with a script marshalling e returns e *)
Theorem C17_dc_envelope : forall (wrap : wrap_fn) (unwrap : unwrap_fn) pv f legs dc sd rk l0 l1 l2 env t e,
  get_key_conversation f wrap unwrap pv legs dc sd rk l0 l1 l2 = (Ok env, t) -> dc_marshals f unwrap dc (tr_sign t) e -> env = e.
Proof. exact conversation_envelope. Qed.
Print Assumptions C17_dc_envelope.

(* (1) UNPROTECT with the envelope: a protected blob names exactly (SD, rkid, l0, l1, l2) -- the request of C17_unprotect_request -- and
   every conforming envelope e covering (l1, l2) decrypts it: _decrypt_blob returns the plaintext, e is a seed-key envelope (so it is
   stored), and the cache after the store -- from an empty cache, or any cache holding e -- serves the blob without network *)
Theorem C17_unprotect_with_envelope : forall (c : Crypto) h rk rkid (s : SecDesc.sid) (sid : pystr) l0 l1 l2,
  rk_hash rk = Ok h -> rk_kdf_alg rk = STR_KDF_ALG -> len rkid = 16 -> sid_parse sid = Ok s -> sid_okb sid = true ->
  0 <= l0 <= 2147483647 -> 0 <= l1 <= 31 -> 0 <= l2 <= 31 -> CryptoLaws c ->
  forall data blob, protected_blob c h rk rkid s sid l0 l1 l2 data blob ->
  exists b, blob_unpack blob = Ok b /\ get_target_sd (b_sid b) = Ok (target_sd s) /\
    kid_rkid (b_key_identifier b) = rkid /\ kid_l0 (b_key_identifier b) = l0 /\ kid_l1 (b_key_identifier b) = l1 /\
    kid_l2 (b_key_identifier b) = l2 /\
    forall e, env_ok c h rk rkid (target_sd s) l0 e -> covers (env_of e) l1 l2 ->
      gke_is_public_key e = false /\ decrypt_blob c b e = Ok data /\
      unprotect_offline c (cc_store_key cc_empty (target_sd s) e) blob = (Ok data, cc_store_key cc_empty (target_sd s) e) /\
      forall cache, cc_find_seed (cc_seeds cache) (rkid, target_sd s, l0) = Some e -> unprotect_offline c cache blob = (Ok data, cache).
Proof. exact compose_unprotect_envelope. Qed.
Print Assumptions C17_unprotect_with_envelope.

(* every producer of the model yields protected blobs: protect_offline from the loaded root key (hypotheses of C01_roundtrip_offline) ... *)
Theorem C17_protected_offline : forall (c : Crypto) h rk rkid (s : SecDesc.sid) (sid : pystr) time_ns l0 l1 l2,
  rk_hash rk = Ok h -> rk_kdf_alg rk = STR_KDF_ALG -> len rkid = 16 -> sid_parse sid = Ok s -> sid_okb sid = true ->
  0 <= time_ns -> interval_of_time_ns time_ns = (l0, l1, l2) -> kdf_nonempty c ->
  forall cache r1 r2 r3 data blob cache1,
  cache_ok c h rk rkid (target_sd s) l0 cache -> len r2 = 12 -> len r3 = 32 ->
  (forall kek w, derived_kek c h rk rkid (target_sd s) l0 l1 l2 r3 = Ok kek -> kw_wrap c kek r1 = Ok w -> len w < BlobPkcs7.U32) ->
  (forall ct, gcm_enc c r1 r2 data = Ok ct -> len ct < BlobPkcs7.U32) ->
  protect_offline c cache r1 r2 r3 data sid (Some rkid) time_ns = (Ok blob, cache1) ->
  protected_blob c h rk rkid s sid l0 l1 l2 data blob.
Proof. exact compose_protected_offline. Qed.
Print Assumptions C17_protected_offline.

(* ... and (2) PROTECT with the envelope: _encrypt_blob on what a conforming DC delivers for the current position (l0, l1, l2) --
   protect_env_ok: a seed-key envelope (env_ok at exactly (l1, l2); where 2.2.4 makes the L2 key optional, L2 = 31, the field is absent or
   the chain key), or a DH / ECDH public-key envelope (dh_env_ok / ecdh_env_ok of C01), each with the size side conditions of C06 on the
   draws -- yields a protected blob; its LAPS re-layout is protected too; both decrypt offline with ANY cache satisfying cache_ok (C01's
   conclusion) and, being protected, online by (1) *)
Theorem C17_protect_with_envelope : forall (c : Crypto) h rk rkid (s : SecDesc.sid) (sid : pystr) l0 l1 l2,
  rk_hash rk = Ok h -> rk_kdf_alg rk = STR_KDF_ALG -> len rkid = 16 -> sid_parse sid = Ok s -> sid_okb sid = true ->
  0 <= l0 <= 2147483647 -> 0 <= l1 <= 31 -> 0 <= l2 <= 31 -> CryptoLaws c ->
  forall e r1 r2 r3 data blob,
  protect_env_ok c h rk rkid s l0 l1 l2 e r1 r3 -> len r2 = 12 -> (forall ct, gcm_enc c r1 r2 data = Ok ct -> len ct < BlobPkcs7.U32) ->
  encrypt_blob c r1 r2 r3 data e sid = Ok blob ->
  protected_blob c h rk rkid s sid l0 l1 l2 data blob /\
  (exists blob2, (let* b := blob_unpack blob in blob_pack b false) = Ok blob2 /\ protected_blob c h rk rkid s sid l0 l1 l2 data blob2) /\
  forall X, cache_ok c h rk rkid (target_sd s) l0 X ->
    fst (unprotect_offline c X blob) = Ok data /\
    forall blob2, (let* b := blob_unpack blob in blob_pack b false) = Ok blob2 -> fst (unprotect_offline c X blob2) = Ok data.
Proof. exact compose_protect_envelope. Qed.
Print Assumptions C17_protect_with_envelope.

(* protected_blob is not weaker than what C01 concludes: any cache in which the root key is loaded decrypts it, both layouts *)
Theorem C17_protected_roundtrip : forall (c : Crypto) h rk rkid (s : SecDesc.sid) (sid : pystr) l0 l1 l2,
  rk_hash rk = Ok h -> rk_kdf_alg rk = STR_KDF_ALG -> len rkid = 16 -> sid_parse sid = Ok s -> sid_okb sid = true ->
  0 <= l0 <= 2147483647 -> 0 <= l1 <= 31 -> 0 <= l2 <= 31 -> CryptoLaws c ->
  forall data blob, protected_blob c h rk rkid s sid l0 l1 l2 data blob ->
  (exists blob2, (let* b := blob_unpack blob in blob_pack b false) = Ok blob2) /\
  forall X, cache_ok c h rk rkid (target_sd s) l0 X ->
    fst (unprotect_offline c X blob) = Ok data /\
    forall blob2, (let* b := blob_unpack blob in blob_pack b false) = Ok blob2 -> fst (unprotect_offline c X blob2) = Ok data.
Proof. exact compose_protected_offline_roundtrip. Qed.
Print Assumptions C17_protected_roundtrip.

(* (3) UNPROTECT end to end.  Hypotheses of C17_result -- the conversation for the blob's key identifier succeeds against the script dc --
   + dc marshals e + e conforms for (rk, SD, l0) and covers (l1, l2).  The caller's cache is arbitrary but for: its entry of the triple, if
   any, conforms (seeds_ok), and a root key loaded under rkid is rk.  Then: the caller got e; ncrypt_unprotect_secret returns the plaintext;
   the cache it leaves serves the blob again with no network; from a cache with neither root key nor entry that cache is the old one with
   e stored.  With C17_unprotect_request (the request IS the blob's (SD, rkid, l0, l1, l2)) this is "results equal what C01-C03 prescribe" *)
Theorem C17_online_unprotect : forall (c : Crypto) h rk rkid (s : SecDesc.sid) (sid : pystr) l0 l1 l2,
  rk_hash rk = Ok h -> rk_kdf_alg rk = STR_KDF_ALG -> len rkid = 16 -> sid_parse sid = Ok s -> sid_okb sid = true ->
  0 <= l0 <= 2147483647 -> 0 <= l1 <= 31 -> 0 <= l2 <= 31 -> CryptoLaws c ->
  forall (wrap : wrap_fn) (unwrap : unwrap_fn) pv f legs dc cache data blob env t e,
  protected_blob c h rk rkid s sid l0 l1 l2 data blob ->
  seeds_ok c h rk rkid s l0 cache -> (forall rk', cc_find_root (cc_roots cache) rkid = Some rk' -> rk' = rk) ->
  (forall b, blob_unpack blob = Ok b -> unprotect_get_key f wrap unwrap pv legs dc (target_sd s) (b_key_identifier b) = (Ok env, t)) ->
  dc_marshals f unwrap dc (tr_sign t) e ->
  env_ok c h rk rkid (target_sd s) l0 e -> covers (env_of e) l1 l2 ->
  env = e /\
  exists cache',
    unprotect_via_dc c (fun tsd kid => fst (unprotect_get_key f wrap unwrap pv legs dc tsd kid)) cache blob = (Ok data, cache') /\
    unprotect_offline c cache' blob = (Ok data, cache') /\
    (cc_find_root (cc_roots cache) rkid = None -> cc_find_seed (cc_seeds cache) (rkid, target_sd s, l0) = None ->
     cache' = cc_set_seed cache (rkid, target_sd s, l0) e).
Proof. exact compose_online_unprotect. Qed.
Print Assumptions C17_online_unprotect.

(* (3) PROTECT end to end, on a cache miss (always the case without a root key id: C17_protect_miss): the conversation asks for "the
   current key" (C17_protect_request), dc marshals e, e is what MS-GKDI prescribes for the position and root key the DC chose
   (protect_env_ok fixes gke_l0 e = l0, gke_l1 e = l1, gke_l2 e = l2, gke_rkid e = rkid).  Then: the caller got e; the blob is protected
   (so C17_online_unprotect / C17_unprotect_with_envelope apply to it); a seed-key e is stored and the caller's own cache then decrypts
   the blob with no network; any cache with the root key loaded decrypts it, both layouts *)
Theorem C17_online_protect : forall (c : Crypto) h rk rkid (s : SecDesc.sid) (sid : pystr) l0 l1 l2,
  rk_hash rk = Ok h -> rk_kdf_alg rk = STR_KDF_ALG -> len rkid = 16 -> sid_parse sid = Ok s -> sid_okb sid = true ->
  0 <= l0 <= 2147483647 -> 0 <= l1 <= 31 -> 0 <= l2 <= 31 -> CryptoLaws c ->
  forall (wrap : wrap_fn) (unwrap : unwrap_fn) pv f legs dc cache cache1 rko time_ns r1 r2 r3 data blob cache' env t e,
  protection_gke_from_cache c cache rko (target_sd s) time_ns = Ok (None, cache1) ->
  protect_get_key f wrap unwrap pv legs dc (target_sd s) rko = (Ok env, t) ->
  dc_marshals f unwrap dc (tr_sign t) e ->
  protect_env_ok c h rk rkid s l0 l1 l2 e r1 r3 -> len r2 = 12 -> (forall ct, gcm_enc c r1 r2 data = Ok ct -> len ct < BlobPkcs7.U32) ->
  protect_via_dc c (fun sd rko => fst (protect_get_key f wrap unwrap pv legs dc sd rko)) cache r1 r2 r3 data sid rko time_ns = (Ok blob, cache') ->
  env = e /\ protected_blob c h rk rkid s sid l0 l1 l2 data blob /\
  cache' = (if gke_is_public_key e then cache1 else cc_store_key cache1 (target_sd s) e) /\
  (gke_is_public_key e = false -> seeds_ok c h rk rkid s l0 cache1 -> unprotect_offline c cache' blob = (Ok data, cache')) /\
  forall X, cache_ok c h rk rkid (target_sd s) l0 X ->
    fst (unprotect_offline c X blob) = Ok data /\
    forall blob2, (let* b := blob_unpack blob in blob_pack b false) = Ok blob2 -> fst (unprotect_offline c X blob2) = Ok data.
Proof. exact compose_online_protect. Qed.
Print Assumptions C17_online_protect.
Theorem C17_protect_miss : forall c cache sd time_ns, protection_gke_from_cache c cache None sd time_ns = Ok (None, cache).
Proof. exact protect_miss_no_rkid. Qed.
Print Assumptions C17_protect_miss.

(* with no reachable DC the two composed functions are the offline functions of C01 / C10 / C19 *)
Theorem C17_via_no_dc : forall c cache data r1 r2 r3 sid rkid ns,
  unprotect_via_dc c (fun _ _ => Raise NeedNetwork) cache data = unprotect_offline c cache data /\
  protect_via_dc c (fun _ _ => Raise NeedNetwork) cache r1 r2 r3 data sid rkid ns = protect_offline c cache r1 r2 r3 data sid rkid ns.
Proof. exact (fun c cache data r1 r2 r3 sid rkid ns => conj (unprotect_via_no_dc c cache data) (protect_via_no_dc c cache r1 r2 r3 data sid rkid ns)). Qed.
Print Assumptions C17_via_no_dc.

(* dc_marshals can be checked by running the client's own reply path on the script *)
Theorem C17_dc_marshals_by_running : forall f unwrap dc sg e rsp out reply padding st,
  script_response f unwrap dc sg = Ok rsp ->
  wf_env e = true -> GroupKeyEnvelope_pack e = Ok out -> ndr64_getkey_reply out 0 = Some reply ->
  rs_stub_data rsp = reply ++ padding -> rs_sec_trailer rsp = Some st -> st_pad_length st = len padding ->
  dc_marshals f unwrap dc sg e.
Proof. exact dc_marshals_of_response. Qed.
Print Assumptions C17_dc_marshals_by_running.

(* ---- the hypotheses are satisfiable (symbolic crypto symg; root key, SID, clock, draws of C01's examples, position (361, 31, 23)).
   exc_dc: the peer script of C17_conversation_example with the GetKey stream replaced by the RESPONSE marshalling exc_env, the seed-key
   envelope MS-GKDI prescribes for this root key at exactly (361, 31, 23) (L1 key = K1(30), L2 key = K2(31, 23)).  Both instances are
   obtained by APPLYING C17_online_unprotect / C17_online_protect to values for which every hypothesis is checked. ---- *)
Example C17_dc_reply_example :
  env_ok symg SHA512 Proofs.C01.ex_rk ex_rkid Proofs.C01.ex_sd 361 exc_env /\ covers (env_of exc_env) 31 23 /\
  seed_env_ok symg SHA512 Proofs.C01.ex_rk ex_rkid (parsed ex_sid) 361 31 23 exc_env /\
  forall f, dc_marshals f ex_unwrap exc_dc true exc_env.
Proof. exact (conj exc_env_ok (conj exc_env_covers (conj exc_seed_env_ok exc_dc_marshals))). Qed.
Example C17_online_unprotect_example :
  exists blob cache1 t,
    protect_offline symg ex_cache ex_r1 ex_r2 ex_r3 [1; 2; 3] ex_sid (Some ex_rkid) ex_time = (Ok blob, cache1) /\
    protected_blob symg SHA512 Proofs.C01.ex_rk ex_rkid (parsed ex_sid) ex_sid 361 31 23 [1; 2; 3] blob /\
    (forall b, blob_unpack blob = Ok b ->
       unprotect_get_key Async ex_wrap ex_unwrap ex_pv ex_legs exc_dc Proofs.C01.ex_sd (b_key_identifier b) = (Ok exc_env, t)) /\
    dc_marshals Async ex_unwrap exc_dc (tr_sign t) exc_env /\
    unprotect_via_dc symg (exc_oracle_u Async) cc_empty blob = (Ok [1; 2; 3], cc_set_seed cc_empty (ex_rkid, Proofs.C01.ex_sd, 361) exc_env) /\
    unprotect_offline symg (cc_set_seed cc_empty (ex_rkid, Proofs.C01.ex_sd, 361) exc_env) blob
      = (Ok [1; 2; 3], cc_set_seed cc_empty (ex_rkid, Proofs.C01.ex_sd, 361) exc_env).
Proof. exact example_online_unprotect. Qed.
Example C17_online_protect_example :
  exists blob cache' t,
    protect_get_key Sync ex_wrap ex_unwrap ex_pv ex_legs exc_dc Proofs.C01.ex_sd None = (Ok exc_env, t) /\
    dc_marshals Sync ex_unwrap exc_dc (tr_sign t) exc_env /\
    protect_env_ok symg SHA512 Proofs.C01.ex_rk ex_rkid (parsed ex_sid) 361 31 23 exc_env ex_r1 ex_r3 /\
    protect_via_dc symg (exc_oracle_p Sync) cc_empty ex_r1 ex_r2 ex_r3 [1; 2; 3] ex_sid None ex_time = (Ok blob, cache') /\
    cache' = cc_store_key cc_empty Proofs.C01.ex_sd exc_env /\
    protected_blob symg SHA512 Proofs.C01.ex_rk ex_rkid (parsed ex_sid) ex_sid 361 31 23 [1; 2; 3] blob /\
    unprotect_offline symg cache' blob = (Ok [1; 2; 3], cache') /\
    fst (unprotect_offline symg ex_cache blob) = Ok [1; 2; 3].
Proof. exact example_online_protect. Qed.
Example C17_protect_env_pubkey_examples :
  protect_env_ok symg SHA512 Proofs.C01.ex_rk ex_rkid (parsed ex_sid) 361 31 23 ex_ep_dh ex_r1 ex_r3 /\
  protect_env_ok symg SHA512 ex_rkE ex_rkid (parsed ex_sid) 361 31 23 ex_ep_ecdh ex_r1 ex_r3.
Proof. exact (conj example_protect_env_dh example_protect_env_ecdh). Qed.

(* ---- a request is only issued on a context the server accepted (C15's clause, composed over the whole conversation) ---------------
   if a REQUEST is on the wire at all (ept_map on the first connection, GetKey on the second), then the bind_ack of THAT connection's peer
   accepted (result ACCEPTANCE) the presentation context whose id the request carries: bind_run's result vector is the bind_ack's
   (C15_result / C15_anonymous) and process_bind_result passed on it (C15_context) before the request was framed *)
From V Require Import Proofs.C17Contexts.
Theorem C17_request_on_accepted_context : forall f (wrap : wrap_fn) (unwrap : unwrap_fn) pv legs dc sd rk l0 l1 l2 r t,
  get_key_conversation f wrap unwrap pv legs dc sd rk l0 l1 l2 = (r, t) ->
  (tr_ept_request t <> None -> accepted_by (ds_epm_srv dc) (context_ids epm_contexts) c_onl_epm_ctx_id) /\
  (tr_getkey_request t <> None -> accepted_by (ds_isd_srv dc) (context_ids isd_key_contexts) c_onl_isd_ctx_id).
Proof. exact conversation_request_contexts. Qed.
Print Assumptions C17_request_on_accepted_context.

(* ---- the two forms of "the public function with the cache-miss branch filled in" are one function --------------------------------
   Flow_cache_public.unprotect_online / protect_online are what C10's flow ties identify with the regenerated ncrypt_unprotect_secret /
   ncrypt_protect_secret (both flavours); unprotect_via_dc / protect_via_dc are what C17_online_unprotect / C17_online_protect are about.
   They are equal, the model-valued oracle being the interpreter-valued one applied to
   (server or the DC found for the domain, target_sd, root key id, L0, L1, L2 resp. -1, -1, -1, username, password, auth_protocol). *)
From V Require Import Flow.World_cache Proofs.Flow_cache_public Proofs.C17Compose Proofs.C17Bridge.
Theorem C17_unprotect_online_is_via_dc : forall c dns oracle cache data server u p a,
  unprotect_online c dns oracle cache data server u p a = unprotect_via_dc c (unprotect_getkey dns oracle server u p a) cache data.
Proof. exact unprotect_online_via_dc. Qed.
Print Assumptions C17_unprotect_online_is_via_dc.
Theorem C17_protect_online_is_via_dc : forall c dns oracle r1 r2 r3 ns cache data sid rkid server dom u p a,
  protect_online c r1 r2 r3 ns dns oracle cache data sid rkid server dom u p a
  = protect_via_dc c (protect_getkey dns oracle server dom u p a) cache r1 r2 r3 data sid rkid ns.
Proof. exact protect_online_via_dc. Qed.
Print Assumptions C17_protect_online_is_via_dc.

(* ---- how MANY operations: the checking world above constrains every create_rpc_connection / bind / request the source performs,
   not their number (a source that repeated a block would satisfy the ties). The regenerated bodies contain exactly two connection
   set-ups, two binds, two requests, one GetKey stub, two bind-result checks, one ept_map and one GetKey result extraction, and no
   loop or comprehension: every site runs at most once per call, in program order ---- *)
From V Require Import Prelude.PySyntax Proofs.C17CallSites.
Theorem C17_flow_call_sites :
  conversation_sites "create_rpc_connection" k_flow_sync_get_key = [2; 2; 2; 1; 2; 1; 1]%nat /\ loop_free k_flow_sync_get_key = true /\
  conversation_sites "async_create_rpc_connection" k_flow_async_get_key = [2; 2; 2; 1; 2; 1; 1]%nat /\ loop_free k_flow_async_get_key = true.
Proof. exact (conj (proj1 sync_get_key_sites) (conj (proj2 sync_get_key_sites) async_get_key_sites)). Qed.
Print Assumptions C17_flow_call_sites.
