(* C10 -- KeyCache is transparent under any history/interleaving and avoids repeat RPCs.
   Statements only. k_cache_* / k_root_env_* are regenerated from _client.py. *)
From V Require Import Prelude.Base Prelude.Loops gen.Kernels gen.K_cache Model.Cache Spec.GkdiSpec Proofs.C10.

Theorem C10_kernels :
  (forall present a l1 b l2, k_cache_covers present a l1 b l2 = true <-> present = true /\ (a > l1 \/ (a = l1 /\ b >= l2))) /\
  (forall present a x b y, k_cache_store present a x b y = true <-> present = false \/ a > x \/ (a = x /\ b > y)) /\
  k_root_env_l1 = 31 /\ k_root_env_l2 = 31 /\ Z.land k_root_env_flags 1 = 0.
Proof. exact kernels_meaning. Qed.
Print Assumptions C10_kernels.

Theorem C10_root_envelope_wins : k_cache_root_overwrites = true.
Proof. exact root_overwrites. Qed.
Print Assumptions C10_root_envelope_wins.
